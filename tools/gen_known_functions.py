#!/venv/bin/python
"""Writes sa/known_functions.txt: the qualified names of all functions of /repo's package at the current HEAD.
The inlined representation (sa/inline.py) puts back only helpers that are NOT in this list - i.e. functions that a later
change introduced (extract-function / split-function refactorings) - so the rules keep their anchors on the functions
that were confirmed by reading.  Re-run after every fix: commit that adds or renames functions."""
import os, subprocess, sys
V = os.path.dirname(os.path.dirname(os.path.abspath(__file__)))
sys.path.insert(0, V)
from sa.model import Repo

r = Repo("/repo", extra_files=("tests/conftest.py",))
head = subprocess.run(["git", "-C", "/repo", "rev-parse", "--short", "HEAD"], capture_output=True, text=True).stdout.strip()
keys = sorted(f.key for f in r.pkg_funcs())
with open(os.path.join(V, "sa", "known_functions.txt"), "w") as fh:
    fh.write(f"# functions of src/inline_snapshot at {head} (tools/gen_known_functions.py)\n")
    fh.write("\n".join(keys) + "\n")
print(len(keys), "functions at", head)
