#!/venv/bin/python
"""Confirm a seeded change in its scratch worktree: patch applies to /repo's HEAD, the demo
fails with it and passes without it, and the pinned suite still passes with it.
usage: tools/seed_confirm.py <seed_dir> [--no-suite]"""
import json, os, re, shutil, subprocess, sys, tempfile
VERIF = os.path.dirname(os.path.dirname(os.path.abspath(__file__)))
sd = os.path.abspath(sys.argv[1]); suite = "--no-suite" not in sys.argv
name = os.path.basename(sd); prop = name.split("_")[0]
wt = f"/tmp/wt_{prop}"
def sh(*a, **k):
    return subprocess.run(a, capture_output=True, text=True, **k)
head = sh("git", "-C", "/repo", "rev-parse", "HEAD").stdout.strip()
if not os.path.isdir(wt):
    sh("git", "-C", "/repo", "worktree", "add", "--detach", wt, head)
sh("git", "-C", wt, "checkout", "-q", "--", "."); sh("git", "-C", wt, "clean", "-fdq")
sh("git", "-C", wt, "checkout", "-q", "--detach", head)
res = {"seed": name, "repo_head": head[:7]}
patch = os.path.join(sd, "patch.diff")
a = sh("git", "-C", wt, "apply", "--3way", patch)
if a.returncode != 0:
    sh("git", "-C", wt, "checkout", "-q", "--", ".")
    a = sh("patch", "-p1", "--no-backup-if-mismatch", "-i", patch, cwd=wt)
if a.returncode != 0:
    sh("git", "-C", wt, "checkout", "-q", "--", "."); sh("git", "-C", wt, "clean", "-fdq")
    res["status"] = "patch-conflict"; res["detail"] = (a.stdout + a.stderr)[-300:]
    print(json.dumps(res)); sys.exit(1)
sh("git", "-C", wt, "reset", "-q")
demo = next((f for f in ("demo.py", "test_demo.py") if os.path.exists(os.path.join(sd, f))), None)
def run_demo():
    d = tempfile.mkdtemp(prefix="demo_")
    try:
        for f in os.listdir(sd):
            if f.endswith(".py") or f.endswith(".toml"):
                shutil.copy(os.path.join(sd, f), d)
        env = dict(os.environ); env.pop("CI", None); env["PYTHONPATH"] = wt + "/src"
        cmd = ["/venv/bin/python", demo] if demo == "demo.py" else ["/venv/bin/python", "-m", "pytest", "-q", "-p", "no:cacheprovider", demo]
        p = subprocess.run(cmd, cwd=d, env=env, capture_output=True, text=True, timeout=900)
        return p.returncode, (p.stdout + p.stderr)[-500:]
    finally:
        shutil.rmtree(d, ignore_errors=True)
rc1, out1 = run_demo()
res["demo_with_patch_rc"] = rc1
if suite:
    b = sh("/venv/bin/python", os.path.join(VERIF, "tools/baseline.py"), wt)
    res["suite"] = b.stdout.strip().splitlines()[0] if b.stdout else b.stderr[-200:]
    res["suite_ok"] = b.returncode == 0
sh("git", "-C", wt, "checkout", "-q", "--", "."); sh("git", "-C", wt, "clean", "-fdq")
rc0, out0 = run_demo()
res["demo_clean_rc"] = rc0
res["status"] = "confirmed" if rc1 != 0 and rc0 == 0 and (not suite or res["suite_ok"]) else "NOT-confirmed"
if res["status"] != "confirmed":
    res["out_with"] = out1; res["out_clean"] = out0
json.dump(res, open(os.path.join(sd, "confirm.json"), "w"), indent=1)
print(json.dumps(res))
