#!/venv/bin/python
"""Writes the seeded-changes x checks table into DESIGN.md between the markers
<!-- SEED-MATRIX:BEGIN --> and <!-- SEED-MATRIX:END --> from /verif/seeded/*/meta.json."""
import glob, json, os, re
V = os.path.dirname(os.path.dirname(os.path.abspath(__file__)))
rows = []
for d in sorted(glob.glob(os.path.join(V, "seeded", "*"))):
    mp = os.path.join(d, "meta.json")
    if not os.path.exists(mp):
        continue
    m = json.load(open(mp))
    name = os.path.basename(d)
    det = m.get("detected_by", {})
    own = m["property"]
    viol = {k: v for k, v in det.items() if v.get("exit") == 1}
    und = [k for k, v in det.items() if v.get("exit") == 2]
    cell = "; ".join(f"**{k}** {', '.join(v['rules'])}" if k == own else f"{k} {', '.join(v['rules'])}" for k, v in sorted(viol.items(), key=lambda kv: (kv[0] != own, kv[0]))) or "—"
    if und:
        cell += f" (UNDECIDED, no verdict: {', '.join(und)})"
    summ = " ".join(m.get("summary", "").split())
    summ = summ[:150] + ("…" if len(summ) > 150 else "")
    needs = " ".join(m.get("needs", "").split())[:110]
    rows.append(f"| {name} | {summ} | {needs} | {cell} | {'yes' if own in viol else 'other check' if viol else 'NO'} |")
tbl = "| seed | change (sub-agent's summary, shortened) | needs | detected by (exit 1) | by its own property's check |\n|---|---|---|---|---|\n" + "\n".join(rows)
p = os.path.join(V, "DESIGN.md")
s = open(p).read()
s2 = re.sub(r"<!-- SEED-MATRIX:BEGIN -->.*<!-- SEED-MATRIX:END -->", "<!-- SEED-MATRIX:BEGIN -->\n" + tbl + "\n<!-- SEED-MATRIX:END -->", s, flags=re.S)
open(p, "w").write(s2)
own = sum(1 for r in rows if r.endswith("| yes |")); other = sum(1 for r in rows if r.endswith("| other check |")); no = sum(1 for r in rows if r.endswith("| NO |"))
print(f"{len(rows)} seeds: {own} caught by own property's check, {other} only by another property's check, {no} not caught")
