#!/venv/bin/python
"""Regenerates MANIFEST.json from the table below; a property is listed under
`checks` iff its rule module sa/rules/<id>.py exists, else under not_applicable."""
import json
import os

HERE = os.path.dirname(os.path.abspath(__file__))
VERIF = os.path.dirname(HERE)

T = {
    "C01": dict(
        tech="static analysis: exhaustiveness over the dispatch set + def-use of _new_code + sanitiser dominance (ast.parse before a repr is emitted) + import-step dominance",
        text="Decides structural necessary conditions of the create round trip: every operation class overrides _new_code/_get_changes and derives the new code from the NEW value only; the argument-less call yields exactly one CallArg(create, arg 0) consumed by apply_all's Call branch; a repr that is not Python is never emitted bare (ast.parse dominates the return, SyntaxError => HasRepr); the import step for external/HasRepr dominates fix_all in both drivers. The value-level round trip (repr/eval/black) is not decided.",
        note="Trusts CPython repr for builtins, asttokens positions, black's AST-preservation on modules; value-level equality after eval is out of reach of this family.",
    ),
    "C02": dict(
        tech="static analysis: ESP typestate table (128 valuations per operation) + generator typestate of adapter assign() + flush pairing on the CFG + apply_all exhaustiveness",
        text="Decides that under create/fix/update every operation returns the 'continue' value, that each adapter assign() path returning the new leaf has yielded its change (and the unchanged path none), that pending inserts are always flushed, and that every instantiated Change kind is routed by apply_all. Whether the computed edit script produces the right text is not decided.",
        note="Alignment optimality and text surgery of generic_sequence_update are value-level; helper inlining depth <= 3.",
    ),
    "C03": dict(
        tech="static analysis: provenance of every range handed to Change.replace/insert/delete + kind check (no ast byte offsets) + non-overlap check dominance + whole-file-format gate + newline-convention pairing",
        text="Decides that edit ranges are built only from token positions of nodes descending from the changed argument (plus the audited parent hops and the single import-insertion site), never from ast byte offsets; _check() dominates application; whole-file formatting is control-dependent on the cleanliness/enforce gate; ensure_import inserts only `from inline_snapshot import external|HasRepr`. Correctness of asttokens positions and of black is assumed.",
        note="asttokens/LineNumbers contracts (A2); black preserves module ASTs (A3).",
    ),
    "C04": dict(
        tech="static analysis: effect-ownership table + call-graph who-may-call + approval-gate dominance on the CFG of pytest_sessionfinish + reaching definitions in pytest_configure + ESP on snapshot()",
        text="Decides, over all paths of the two hooks, the fixture, snapshot() and both drivers, that a file write or external removal is reachable only through an approval predicate for the same category (flag in the user's flags, or a Confirm.ask(default=False) answer in review mode), behind the inactive/CI/xdist/short-report exits; that update_flags is all only in review mode and otherwise the user's flags restricted to the categories; CLI > env > pyproject precedence; xfail tests run in a deactivated private state. These hooks are not reachable by any runnable test of the pinned suite.",
        note="String parsing of the flag list, rich's Confirm.ask and TOML reading are trusted; receiver types by light inference + CHA.",
    ),
    "C05": dict(
        tech="static analysis: control dependence of every Change constructor's flag label on its guard + sibling consistency of update-detection sites (node compared is node replaced)",
        text="Decides that each emission site's category label matches the condition it is control-dependent on (create <= old undefined/absent, fix <= failed comparison, trim <= Delete or loose bound, update <= equal value with different tokens) and that at every update-detection site the compared node is the replaced node and the compared tokens are the emitted code. That the resulting values are the documented function of the history is not decided.",
        note="Value-level outcome of a run is out of reach; total-order assumption on bounds as in the property's scope.",
    ),
    "C06": dict(
        tech="static analysis: ESP typestate table at the all-flags-off valuation + operator override table over the dispatch set",
        text="Decides that with no flag set and a defined old value each operation returns exactly its own comparison against the OLD value (directly or through _return's first parameter), that inactive snapshot(x) returns x, that each dispatch class overrides only its own operator while the others end in TypeError, and that Unmanaged/Is forward ==. Non-reflexive/non-symmetric user comparisons are outside the property's scope.",
        note="Scope restrictions of the property (totally ordered bounds, stable arguments).",
    ),
    "C07": dict(
        tech="static analysis: ESP typestate over all 128 entry valuations of every operation method (missing/incorrect counter obligations) + path rules on the autouse fixture's CFG",
        text="Decides that on every returning path of every operation an undefined old value increments missing_values and a defined one evaluates the operation's own comparison against the OLD value and increments incorrect_values iff it is false - under every flag set - and that the autouse fixture resets before the test, reads after it, and reaches pytest.fail exactly under a non-zero counter. pytest's own outcome reporting is not decided.",
        note="Assumes the fixture mechanism of pytest; snapshots executed outside tests are outside the property's scope.",
    ),
    "C10": dict(
        tech="static analysis: guard dominance over all Change emission sites (unmanaged test, f-string test) + star-expression test before positional pairing + wrap-at-entry def-use",
        text="Decides that every in-place edit of a (node, value) pair lies behind the managed edge of an unmanaged test and the non-f-string edge of a JoinedStr test, that positional pairings of values with AST children are preceded by a star-expression bail-out, that the snapshot argument is wrapped by map_unmanaged at entry and re-evaluation refreshes unmanaged values. dirty-equals itself is absent from the environment and covered only through is_dirty_equal symbolically.",
        note="Semantics of user wrappers (Is, dirty-equals) trusted.",
    ),
    "C11": dict(
        tech="static analysis: control dependence of the match letter in _align.py + producer/consumer table agreement of the edit-script alphabet + lexical compare_context check + by-key lookup check",
        text="Decides that only equal elements are ever matched, that the back-tracking index decrements agree with the consumer loop's iterator advances per letter, that alignment runs in compare-only mode and commits nothing, that equal leaves return the old value without a change, and that dict entries / keyword arguments are selected by key. Optimality of the alignment is not decided.",
        note="Needleman-Wunsch optimality is value-level.",
    ),
    "C12": dict(
        tech="static analysis: sanitiser dominance (literal_eval self-check before every rewritten STRING token) + taint from formatter output to emitted fragments",
        text="Decides that every STRING token returned by value_to_token is Python's own repr unchanged or a rewritten literal whose return is dominated by `assert literal_eval(it) == original`, and that formatter output reaching a fragment passes a sanitiser. Per-code-point escaping is delegated to that run-time self-check.",
        note="repr(str/bytes) round-trips (A2); asserts execute (A6).",
    ),
    "C13": dict(
        tech="static analysis: def-use in outsource (hashed bytes are saved bytes) + marker table agreement writer/pruner/gitignore/persist + ordering and dominance in the two hooks + strict lookup",
        text="Decides the per-transition necessary conditions: content addressing by sha256 of exactly the saved bytes, agreement of the '-new' marker across its four users, prune at every normal exit of pytest_configure, persist only for names referenced by the code about to be written and before fix_all, removal only under approved trim and computed after the rewrite, lookup raising on 0 or >1 matches. Multi-session histories as such are not decided.",
        note="File-system semantics of pathlib trusted.",
    ),
    "C14": dict(
        tech="static analysis: call-site key shape and frame-hop count + table ownership + shared-mutable-state audit + ESP accumulation obligations + re-evaluation path rule",
        text="Decides that the key combines id(f_code) and f_lasti of the very frame handed to executing, reached by 1 + (number of wrapper frames) f_back hops; that state().snapshots is written only in snapshot() under `key not in`; that no dispatch/adapter class mutates a class-level or default mutable; that NEW is overwritten only on first observation or a failed bound; that re-evaluation raises UsageError on a changed managed leaf. Run-time uniqueness of id(code) rests on executing's cache.",
        note="executing retains code objects (A2).",
    ),
    "C15": dict(
        tech="static analysis: compute-before-open ordering in rewrite + handler discipline of format_code + persist-before-write ordering + try/finally pairing",
        text="Decides that everything that can fail is sequenced before the truncating open and nothing in the package is called while the file is open; that each formatter failure branch reports a problem and returns the unformatted input; that persist precedes fix_all; that session state and capture are restored in finally. Atomicity against a crash inside write() itself is not decided.",
        note="OS-level write atomicity not modelled.",
    ),
    "C16": dict(
        tech="static analysis: NONDET-effect reachability from the code generators over the call graph + sort provenance of set/frozenset reprs + formatter-optional path",
        text="Decides that no function reachable from value_to_token / code_repr / _new_code / adapter repr uses hash, id, random, time, environment or unsorted set iteration; that set reprs are emitted through a deterministic total order; that update detection is formatter-free. Cross-process equality of output is not decided.",
        note="dict insertion order is part of the value (not armed).",
    ),
    "C17": dict(
        tech="static analysis: tag dataflow (ESP) from the compared operand to persistent sinks in every operation method + path rule on clone()",
        text="Decides that under all 128 entry valuations no value directly aliasing the compared operand reaches a store to self, a self-owned container, or an adapter assign() new-value argument without clone(), and that clone() returns copy.deepcopy(param) only on the equality-checked path and raises UsageError otherwise. That deepcopy copies a given user type is assumed.",
        note="copy.deepcopy contract (A2); mapping keys immutable (A5).",
    ),
    "C18": dict(
        tech="static analysis: definite assignment across the dynamic class switch + scan of session-end code for unguarded user comparisons + try/finally pairing of context managers",
        text="Decides that every attribute read by session-end methods of a dispatch class is assigned on every path that can switch an object into that class, that code reachable from SnapshotReference._changes executes no user comparison outside a try, that update sites replace the node they compared (no overlapping edits from that cause), and that context managers restore module state in finally. Absence of internal errors in general is not decided.",
        note="Only the enumerated error classes are decided.",
    ),
    "C19": dict(
        tech="static analysis: step-sequence extraction and sibling agreement of the two drivers + reader/writer table agreement of CI environment variables",
        text="Decides that pytest_sessionfinish and Example.run_inline perform the same steps between 'collect changes' and 'files written' (collect, filter by approved categories, apply_all, import step, fix_all, report_problems), start from equivalent state, and that every environment variable is_ci_run consults is neutralised by run_pytest. Equality of outputs is not decided.",
        note="Externals-only steps exempt by the property's scope.",
    ),
    "C20": dict(
        tech="static analysis: control dependence of whole-file formatting on the cleanliness gate + def-use (returned text is the formatter's result) + one-mode path check + mode-key table",
        text="Decides that the whole file is formatted iff a format-command is set or the original was a fixed point, that new_code() returns the formatter's result unmodified, that fragments and whole file use the mode of the edited file's path, and that the four black keys are read with the right polarity. black's idempotence is assumed.",
        note="black idempotence (A3).",
    ),
}

NA = {
    "C08": "idempotence of a second run is a fixed point of generate->format->tokenise->normalise->compare over runtime values and an external formatter; no clause of it is visible in the shape of the code (the one structural ingredient, 'tokens compared are the tokens written', is R-REPLACE-PAIR under C05/C18 and does not decide it)",
    "C09": "order-independence is confluence across separate pytest sessions, each re-executing the tests on a rewritten file; there is no single program path on which the k! orders appear, so no sound static argument in this family bounds it (the within-run ingredient is covered under C02/C04)",
}


def main():
    props = [json.loads(l) for l in open(os.path.join(VERIF, "properties.jsonl"))]
    checks, na = [], []
    for p in props:
        pid = p["id"]
        have = os.path.exists(os.path.join(VERIF, "sa", "rules", pid + ".py"))
        if pid in T and have:
            t = T[pid]
            checks.append(
                {
                    "property_id": pid,
                    "quick_cmd": f"/venv/bin/python checks/run.py --property {pid} --tier quick",
                    "thorough_cmd": f"/venv/bin/python checks/run.py --property {pid} --tier thorough",
                    "evidence_file": f"/verif/evidence/{pid}.json",
                    "replay_cmd_template": "/venv/bin/python checks/run.py --replay {path}",
                    "engine": "sa",
                    "level_claimed": {"category": "other", "text": t["text"], "design_ref": f"DESIGN.md section 3, {pid}"},
                    "level_note": t["note"] + " The analysis library sa/ is trusted; its mutation self-test (thorough tier) is the evidence that each rule fires when broken and stays silent under refactoring.",
                    "technique": t["tech"],
                }
            )
        elif pid in NA:
            na.append({"property_id": pid, "reason": NA[pid]})
        else:
            na.append({"property_id": pid, "reason": "static rules designed (DESIGN.md section 3) but the check is not built yet; not claimed until it is"})
    m = {
        "version": 1,
        "setup_cmd": "/venv/bin/python -c \"import ast, sys; sys.path.insert(0, '/verif'); import sa.model, sa.cfg, sa.esp, sa.callgraph, sa.report\"",
        "hooks": {
            "guard": "INLINE_SNAPSHOT_VERIF",
            "enable": "none: every check is a static analysis of /repo's source text; there is no instrumentation, so nothing is switched on or off",
            "baseline_off_cmd": "cd /repo && /venv/bin/python -m pytest -ra -q -p no:cacheprovider --timeout=900 --continue-on-collection-errors",
            "source_commits": [],
            "add_only": True,
        },
        "engines": [
            {
                "name": "sa",
                "path": "/verif/sa",
                "serves_properties": [c["property_id"] for c in checks],
                "kind_free_text": "repository-specific static analysis on CPython ast: source model + call graph with effect table, statement/condition CFG with reachability dominance, reaching definitions, path-sensitive typestate (ESP) over a finite predicate set; rules in sa/rules/<id>.py; nothing of /repo is imported or executed",
            }
        ],
        "checks": checks,
        "notes": "Exit 0 = all obligations discharged (KNOWN-FINDING lines for entries of known_findings.json); 1 = VIOLATION; 2 = ANALYSIS-ERROR/UNDECIDED (no verdict). thorough = quick + the mutation self-test of that property's rules on scratch copies.",
        "not_applicable": na,
    }
    with open(os.path.join(VERIF, "MANIFEST.json"), "w") as fh:
        json.dump(m, fh, indent=1)
    print("checks:", [c["property_id"] for c in checks], "na:", [n["property_id"] for n in na])


if __name__ == "__main__":
    main()
