#!/venv/bin/python
"""Run the pinned baseline suite on /repo and compare with BASELINE.json's stable_pass list.
usage: tools/baseline.py [repo_dir]"""
import json, subprocess, sys, tempfile, os, xml.etree.ElementTree as ET
repo = sys.argv[1] if len(sys.argv) > 1 else "/repo"
base = json.load(open("/root/.vp/BASELINE.json"))
with tempfile.TemporaryDirectory() as d:
    x = os.path.join(d, "j.xml")
    env = dict(os.environ)
    env.pop("INLINE_SNAPSHOT_VERIF", None)
    env["PYTHONPATH"] = os.path.join(repo, "src")
    p = subprocess.run(["/venv/bin/python", "-m", "pytest", "-ra", "-q", "-p", "no:cacheprovider", "--timeout=900", "--continue-on-collection-errors", f"--junitxml={x}"], cwd=repo, env=env, capture_output=True, text=True)
    passed = set()
    for tc in ET.parse(x).getroot().iter("testcase"):
        if not any(c.tag in ("failure", "error", "skipped") for c in tc):
            passed.add(f"{tc.get('classname')}::{tc.get('name')}")
missing = [t for t in base["stable_pass"] if t not in passed]
print(f"passed={len(passed)} stable_expected={len(base['stable_pass'])} missing={len(missing)}")
for t in missing[:40]:
    print("  MISSING", t)
sys.exit(1 if missing else 0)
