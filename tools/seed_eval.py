#!/venv/bin/python
"""Evaluate seeded patches against all built checks, on a scratch copy of /repo's working tree.
usage: tools/seed_eval.py <seed_dir>...   (each holds patch.diff)"""
import json, os, shutil, subprocess, sys, tempfile, glob
VERIF = os.path.dirname(os.path.dirname(os.path.abspath(__file__)))
props = sorted(os.path.basename(p)[:-3] for p in glob.glob(os.path.join(VERIF, "sa/rules/C[0-9][0-9].py")))
for sd in sys.argv[1:]:
    sd = sd.rstrip("/")
    d = tempfile.mkdtemp(prefix="seedeval_")
    try:
        os.makedirs(d + "/src"); os.makedirs(d + "/tests")
        shutil.copytree("/repo/src/inline_snapshot", d + "/src/inline_snapshot", ignore=shutil.ignore_patterns("__pycache__"))
        shutil.copy("/repo/tests/conftest.py", d + "/tests/conftest.py")
        p = subprocess.run(["patch", "-p1", "--no-backup-if-mismatch", "-i", os.path.join(sd, "patch.diff")], cwd=d, capture_output=True, text=True)
        if p.returncode != 0:
            print(f"{os.path.basename(sd)}: PATCH FAILED\n{p.stdout[-400:]}")
            continue
        res = {}
        for pr in props:
            q = subprocess.run(["/venv/bin/python", os.path.join(VERIF, "checks/run.py"), "--property", pr, "--tier", "quick", "--repo", d, "--evidence-dir", d + "/ev"], capture_output=True, text=True, cwd=VERIF)
            lines = [l for l in q.stdout.splitlines() if " -- R-" in l or "ANALYSIS-ERROR" in l]
            res[pr] = (q.returncode, lines)
        hit = {k: v for k, v in res.items() if v[0] != 0}
        print(f"== {os.path.basename(sd)}: " + (", ".join(f"{k}:exit{v[0]}" for k, v in hit.items()) or "NOT DETECTED"))
        for k, v in hit.items():
            for l in v[1][:4]:
                print("     ", l[:260])
    finally:
        shutil.rmtree(d, ignore_errors=True)
