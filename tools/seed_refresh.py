#!/venv/bin/python
"""Re-measure, on a scratch copy of /repo's current tree, which checks detect each kept seed
(/verif/seeded/<id>/patch.diff) and update `detected_by` in its meta.json.  A patch that no longer applies to the
current tree (a later fix: commit touched the same lines) keeps its recorded result and is listed.
usage: tools/seed_refresh.py [--jobs N]"""
import glob, json, os, shutil, subprocess, sys, tempfile
from concurrent.futures import ThreadPoolExecutor

VERIF = os.path.dirname(os.path.dirname(os.path.abspath(__file__)))
props = sorted(os.path.basename(p)[:-3] for p in glob.glob(os.path.join(VERIF, "sa/rules/C[0-9][0-9].py")))
head = subprocess.run(["git", "-C", "/repo", "rev-parse", "--short", "HEAD"], capture_output=True, text=True).stdout.strip()


def one(sd):
    name = os.path.basename(sd)
    d = tempfile.mkdtemp(prefix="seedref_")
    try:
        os.makedirs(d + "/src")
        os.makedirs(d + "/tests")
        shutil.copytree("/repo/src/inline_snapshot", d + "/src/inline_snapshot", ignore=shutil.ignore_patterns("__pycache__"))
        shutil.copy("/repo/tests/conftest.py", d + "/tests/conftest.py")
        p = subprocess.run(["patch", "-p1", "--no-backup-if-mismatch", "-i", os.path.join(sd, "patch.diff")], cwd=d, capture_output=True, text=True)
        if p.returncode != 0:
            return name, None
        det = {}
        for pr in props:
            q = subprocess.run(["/venv/bin/python", os.path.join(VERIF, "checks/run.py"), "--property", pr, "--tier", "quick", "--repo", d, "--evidence-dir", d + "/ev"], capture_output=True, text=True, cwd=VERIF)
            if q.returncode != 0:
                det[pr] = {"exit": q.returncode, "rules": sorted({l.split(" -- ")[1] for l in q.stdout.splitlines() if " -- R-" in l})}
        return name, det
    finally:
        shutil.rmtree(d, ignore_errors=True)


jobs = int(sys.argv[sys.argv.index("--jobs") + 1]) if "--jobs" in sys.argv else 8
seeds = sorted(x for x in glob.glob(os.path.join(VERIF, "seeded", "*")) if os.path.exists(os.path.join(x, "patch.diff")))
with ThreadPoolExecutor(max_workers=jobs) as ex:
    res = list(ex.map(one, seeds))
stale = []
for name, det in res:
    mp = os.path.join(VERIF, "seeded", name, "meta.json")
    m = json.load(open(mp))
    if det is None:
        stale.append(name)
        m["detected_by_note"] = m.get("detected_by_note") or f"patch no longer applies to the tree at {head} (a later fix: commit changed the same lines); detected_by is the result recorded when it was kept"
    else:
        m["detected_by"] = det
        m["detected_by_measured_at"] = head
        m.pop("detected_by_note", None)
    json.dump(m, open(mp, "w"), indent=1)
own = sum(1 for n, d in res if d is not None and d.get(json.load(open(os.path.join(VERIF, "seeded", n, "meta.json")))["property"], {}).get("exit") == 1)
print(f"{len(res)} seeds re-measured at {head}: {own} detected by their own property's check; {len(stale)} patches no longer apply: {stale}")
