#!/venv/bin/python
"""Copy a confirmed seed (/tmp/seed_out/<id>) into /verif/seeded/<id>/ with a merged meta.json
(which checks detect it is measured now, on a scratch copy of /repo's tree with the patch)."""
import glob, json, os, shutil, subprocess, sys, tempfile
VERIF = os.path.dirname(os.path.dirname(os.path.abspath(__file__)))
props = sorted(os.path.basename(p)[:-3] for p in glob.glob(os.path.join(VERIF, "sa/rules/C[0-9][0-9].py")))
for sd in sys.argv[1:]:
    sd = sd.rstrip("/"); name = os.path.basename(sd)
    cf = os.path.join(sd, "confirm.json")
    if not os.path.exists(cf) or json.load(open(cf)).get("status") != "confirmed":
        print(name, "not confirmed - skipped"); continue
    conf = json.load(open(cf))
    meta = json.load(open(os.path.join(sd, "meta.json")))
    d = tempfile.mkdtemp(prefix="seedkeep_")
    det = {}
    try:
        os.makedirs(d + "/src"); os.makedirs(d + "/tests")
        shutil.copytree("/repo/src/inline_snapshot", d + "/src/inline_snapshot", ignore=shutil.ignore_patterns("__pycache__"))
        shutil.copy("/repo/tests/conftest.py", d + "/tests/conftest.py")
        p = subprocess.run(["patch", "-p1", "--no-backup-if-mismatch", "-i", os.path.join(sd, "patch.diff")], cwd=d, capture_output=True, text=True)
        if p.returncode == 0:
            for pr in props:
                q = subprocess.run(["/venv/bin/python", os.path.join(VERIF, "checks/run.py"), "--property", pr, "--tier", "quick", "--repo", d, "--evidence-dir", d + "/ev"], capture_output=True, text=True, cwd=VERIF)
                if q.returncode != 0:
                    det[pr] = {"exit": q.returncode, "rules": sorted({l.split(" -- ")[1] for l in q.stdout.splitlines() if " -- R-" in l})}
    finally:
        shutil.rmtree(d, ignore_errors=True)
    out = os.path.join(VERIF, "seeded", name)
    os.makedirs(out, exist_ok=True)
    for f in os.listdir(sd):
        if f in ("patch.diff", "demo.py", "test_demo.py") or (f.endswith(".py") and f != "check_suite.py"):
            shutil.copy(os.path.join(sd, f), out)
    if os.path.exists(os.path.join(sd, "patch.orig.diff")):
        shutil.copy(os.path.join(sd, "patch.orig.diff"), out)
    m = {
        "property": meta.get("property", name.split("_")[0]),
        "summary": meta.get("summary", ""),
        "needs": meta.get("needs", ""),
        "author": "independent sub-agent (saw only the property text and a scratch worktree)" + ("; patch re-based by hand onto the tree after the fix: commits (original in patch.orig.diff)" if os.path.exists(os.path.join(sd, "patch.orig.diff")) else ""),
        "ran": f"tools/seed_confirm.py at /repo HEAD {conf['repo_head']} in worktree /tmp/wt_{name.split('_')[0]}: git apply patch.diff; demo -> exit {conf['demo_with_patch_rc']} (fails); pinned suite with PYTHONPATH=<wt>/src -> {conf.get('suite')}; git checkout -- .; demo -> exit {conf['demo_clean_rc']} (passes). Agent's own commands: " + str(meta.get("ran", ""))[:600],
        "detected_by": det,
    }
    json.dump(m, open(os.path.join(out, "meta.json"), "w"), indent=1)
    print(name, "kept; detected by", {k: v["rules"] for k, v in det.items()} or "NOTHING")
