#!/bin/sh
# validate MANIFEST.json and all evidence files against the schemas
python3-vt - <<'PY'
import json, jsonschema, glob
jsonschema.validate(json.load(open('/verif/MANIFEST.json')), json.load(open('/root/.vp/MANIFEST.schema.json')))
es = json.load(open('/root/.vp/EVIDENCE.schema.json'))
for f in sorted(glob.glob('/verif/evidence/*.json')):
    jsonschema.validate(json.load(open(f)), es)
    print('ok', f)
print('manifest ok')
PY
