#!/venv/bin/python
"""Entry point of every check.

    /venv/bin/python checks/run.py --property C07 --tier quick [--repo DIR]
    /venv/bin/python checks/run.py --replay evidence/C07.violations/0.json

Exit 0: every obligation discharged (KNOWN-FINDING lines allowed)
Exit 1: VIOLATION property=<id> replay=<path>
Exit 2: ANALYSIS-ERROR / UNDECIDED (never a VIOLATION line)
"""
from __future__ import annotations

import argparse
import importlib
import json
import os
import sys
import traceback

HERE = os.path.dirname(os.path.abspath(__file__))
sys.path.insert(0, os.path.dirname(HERE))

from sa.model import AnalysisError, Repo  # noqa: E402
from sa.report import Report  # noqa: E402

EXTRA = ("tests/conftest.py",)


def run(prop: str, tier: str, repo_root: str, evidence_dir=None, selftest=True) -> int:
    rep = Report(prop, tier, repo_root, evidence_dir)
    try:
        mod = importlib.import_module(f"sa.rules.{prop}")
    except ModuleNotFoundError:
        print(f"ANALYSIS-ERROR property={prop} no rule module")
        return 2
    try:
        repo = Repo(repo_root, extra_files=EXTRA)
        rep.count("files", len([m for m in repo.modules if not m.startswith("@")]))
        rep.count("functions", len(repo.pkg_funcs()))
        try:
            mod.check(repo, rep, tier)
            first = rep.preview()
            first_err = None
        except AnalysisError as e:
            first, first_err = 2, e
        if first != 0:
            # Second representation of the same program: private helpers put back at their call sites (sa/inline.py).
            # A rule that is a necessary condition of the property may be decided on either text; an extract-function /
            # split-function refactoring must not change a verdict.  The inlined text is only consulted when the
            # program as written is not accepted, and it can only turn that outcome into "accepted" or into a violation.
            try:
                repo2 = Repo(repo_root, extra_files=EXTRA, inline=True)
                rep2 = Report(prop, tier, repo_root, evidence_dir)
                rep2.count("files", len([m for m in repo2.modules if not m.startswith("@")]))
                rep2.count("functions", len(repo2.pkg_funcs()))
                mod.check(repo2, rep2, tier)
                second = rep2.preview()
            except AnalysisError:
                second, rep2, repo2 = 2, None, None
            if rep2 is not None and repo2.inlined and (second == 0 or (first == 2 and second == 1)):
                rep2.extra["representation"] = {
                    "decided_on": "program with private helpers inlined at their call sites (sa/inline.py)",
                    "as_written": {0: "accepted", 1: "violation", 2: "undecided"}[first] + (f" ({first_err})" if first_err else ""),
                    "as_written_messages": ([f"{o.rule}: {o.what}" for o in rep.obl if o.verdict == "violation"][:6] + rep.undecided_msgs[:6] + [m for _, m in rep.floor_misses][:6]) if first_err is None else [str(first_err)],
                    "inlined": repo2.inlined,
                }
                rep, repo = rep2, repo2
            elif first_err is not None:
                raise first_err
        st = None
        if tier == "thorough" and selftest and (rep.has_fresh_violation() or rep.undecided_msgs):
            # the self-test measures the checker against a tree on which the rules hold;
            # on a violating tree the verdict is the violation itself
            st = {"skipped_because": "the analysed tree already violates a rule / is undecided; self-test not meaningful"}
        elif tier == "thorough" and selftest:
            from selftest.corpus import run_selftest

            st = run_selftest(prop, repo=repo_root)
            if st.get("failed"):
                for f in st["failed"]:
                    rep.undecided("SELFTEST", f)
            # behaviour-preserving refactorings written by sub-agents: this property's check must stay silent
            try:
                from selftest.refactors import run_refactors

                rf = run_refactors(prop, repo=repo_root)
                rep.extra["refactoring_twins"] = rf
                for fa in rf["false_alarms"]:
                    rep.undecided("SELFTEST", "false alarm on a behaviour-preserving refactoring: " + fa)
            except Exception as e:  # pragma: no cover
                rep.extra["refactoring_twins"] = {"error": str(e)}
            # mechanical behaviour-preserving restructurings of the whole package (alpha-renaming of every local, if/else
            # swapped, `and` split into nested ifs, else <-> code behind a jump): same program, same verdict
            try:
                from selftest.rename_sweep import run_all_kinds

                rs = run_all_kinds(prop, repo=repo_root, jobs=int(os.environ.get("VERIF_JOBS", "8")))
                rep.extra["restructuring_sweep"] = rs
                for cv in rs["changed_verdicts"]:
                    rep.undecided("SELFTEST", "verdict changed by a mechanical behaviour-preserving restructuring: " + cv)
            except Exception as e:  # pragma: no cover
                rep.extra["restructuring_sweep"] = {"error": str(e)}
            # sensitivity measure (informational, never part of the verdict): a seeded sample of
            # generic single-point mutants of the functions that carry this property's obligations
            try:
                from selftest.sweep import sweep

                sw = sweep(prop, repo=repo_root, limit=int(os.environ.get("VERIF_SWEEP", "64")), seed=int(os.environ.get("VERIF_SEED", "0") or 0))
                sw["survivors"] = sw["survivors"][:25]
                sw["note"] = "generic AST mutants (statement dropped, condition negated/constant, comparison swapped, category literal changed, return value replaced); a survivor is behaviour-preserving, outside the decided clauses, or a gap - informational only"
                rep.extra["mutation_sweep"] = sw
            except Exception as e:  # pragma: no cover
                rep.extra["mutation_sweep"] = {"error": str(e)}
        return rep.finish(selftest=st)
    except AnalysisError as e:
        print(f"ANALYSIS-ERROR property={prop} {e}")
        rep.undecided("ENGINE", str(e))
        try:
            rep.finish()
        except Exception:
            pass
        return 2
    except Exception:
        traceback.print_exc()
        print(f"ANALYSIS-ERROR property={prop} internal error of the checker (traceback above)")
        return 2


def main():
    ap = argparse.ArgumentParser()
    ap.add_argument("--property")
    ap.add_argument("--tier", default=os.environ.get("VERIF_TIER", "quick"), choices=["quick", "thorough"])
    ap.add_argument("--repo", default=os.environ.get("VERIF_REPO", "/repo"))
    ap.add_argument("--evidence-dir", default=None)
    ap.add_argument("--replay")
    ap.add_argument("--no-selftest", action="store_true")
    a = ap.parse_args()
    if a.replay:
        with open(a.replay) as fh:
            r = json.load(fh)
        print(f"replaying {r['rule']} at {r['site']}: {r['what']}")
        rc = run(r["property"], "quick", a.repo, evidence_dir=a.evidence_dir or "/tmp/verif-replay-evidence")
        # the replayed instance is still present iff the same key is reported again
        vdir = os.path.join(a.evidence_dir or "/tmp/verif-replay-evidence", f"{r['property']}.violations")
        still = False
        if os.path.isdir(vdir):
            for fn in os.listdir(vdir):
                with open(os.path.join(vdir, fn)) as fh:
                    if json.load(fh)["key"] == r["key"]:
                        still = True
        print("REPLAY: instance " + ("still violated" if still else "not reproduced on the current tree"))
        sys.exit(1 if still else (2 if rc == 2 else 0))
    if not a.property:
        ap.error("--property required")
    sys.exit(run(a.property, a.tier, a.repo, a.evidence_dir, selftest=not a.no_selftest))


if __name__ == "__main__":
    main()
