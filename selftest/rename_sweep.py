#!/venv/bin/python
"""Alpha-renaming sweep: a self-test of the checker, not a check of /repo.

Every local variable of every function of the package is renamed (`name` -> `name_rn`), one module at a time and all
modules at once, on a scratch copy of /repo's current tree; the result is the same program, so every check has to give
the verdict it gives on the tree as written (exit 0, or the same KNOWN-FINDING lines).  A rule that recognises an
instance by what a variable is *called* shows up here as a changed verdict.

What is renamed: a name N of a module-level function or method F (nested functions included) when N is bound in F by an
assignment / for / with / except / comprehension / walrus, is not a parameter of F or of a function nested in F, is not
bound again inside a nested function or class, is not declared global / nonlocal, and `N_rn` is not used anywhere in the
module.  All occurrences of N inside F (nested code included) are renamed, so closures keep working.  Keyword-argument
names and attribute names are strings in the ast, not Name nodes: they are untouched.

Two more whole-module transformations of the same kind (`--kind`): `swap` turns every `if c: A else: B` into
`if not (c): B else: A`; `split-and` turns `if a and b: X` into `if a: if b: X`.

`else-after-jump` / `flatten-else` move the code behind an `if` that ends in return/continue/break/raise into its else branch
and back.

usage: selftest/rename_sweep.py [--kind rename|swap|split-and|else-after-jump|flatten-else] [--repo /repo] [--jobs 8] [--only <module.py>]
"""
import argparse, ast, glob, json, os, shutil, subprocess, sys, tempfile
from concurrent.futures import ThreadPoolExecutor

HERE = os.path.dirname(os.path.abspath(__file__))
VERIF = os.path.dirname(HERE)
PKG = "src/inline_snapshot"
SUFFIX = "_rn"


def _bound_names(fn):
    """names bound directly in fn's own scope (comprehension variables count: renaming them too is harmless)"""
    out = set()
    stack = list(fn.body)
    while stack:
        x = stack.pop()
        if isinstance(x, (ast.FunctionDef, ast.AsyncFunctionDef, ast.ClassDef, ast.Lambda)):
            continue
        if isinstance(x, ast.Name) and isinstance(x.ctx, (ast.Store, ast.Del)):
            out.add(x.id)
        if isinstance(x, ast.ExceptHandler) and x.name:
            out.add(x.name)
        stack.extend(ast.iter_child_nodes(x))
    return out


def _params(fn):
    a = fn.args
    ps = [p.arg for p in a.posonlyargs + a.args + a.kwonlyargs]
    if a.vararg:
        ps.append(a.vararg.arg)
    if a.kwarg:
        ps.append(a.kwarg.arg)
    return set(ps)


def rename_module(src: str):
    tree = ast.parse(src)
    all_names = {x.id for x in ast.walk(tree) if isinstance(x, ast.Name)} | {x.arg for x in ast.walk(tree) if isinstance(x, ast.arg)}
    renamed = 0

    def top_functions(body):
        for st in body:
            if isinstance(st, (ast.FunctionDef, ast.AsyncFunctionDef)):
                yield st
            elif isinstance(st, ast.ClassDef):
                yield from top_functions(st.body)
            elif isinstance(st, (ast.If, ast.Try, ast.With)):
                for fld in ("body", "orelse", "finalbody"):
                    yield from top_functions(getattr(st, fld, []) or [])
                for h in getattr(st, "handlers", []) or []:
                    yield from top_functions(h.body)

    for fn in top_functions(tree.body):
        own = _bound_names(fn)
        banned = set(_params(fn))
        for x in ast.walk(fn):
            if x is fn:
                continue
            if isinstance(x, (ast.FunctionDef, ast.AsyncFunctionDef)):
                banned |= _params(x) | _bound_names(x) | {x.name}
            elif isinstance(x, ast.Lambda):
                banned |= _params(x)
            elif isinstance(x, ast.ClassDef):
                banned |= {x.name} | {y.id for y in ast.walk(x) if isinstance(y, ast.Name) and isinstance(y.ctx, ast.Store)}
            elif isinstance(x, (ast.Global, ast.Nonlocal)):
                banned |= set(x.names)
            elif isinstance(x, (ast.Import, ast.ImportFrom)):
                banned |= {(a.asname or a.name).split(".")[0] for a in x.names}
        todo = {n for n in own - banned if not n.startswith("__") and n != "_" and (n + SUFFIX) not in all_names}
        if not todo:
            continue
        for x in ast.walk(fn):
            if isinstance(x, ast.Name) and x.id in todo:
                x.id = x.id + SUFFIX
            elif isinstance(x, ast.ExceptHandler) and x.name in todo:
                x.name = x.name + SUFFIX
        renamed += len(todo)
    return ast.unparse(tree) + "\n", renamed


def swap_module(src: str):
    """`if c: A else: B` -> `if not (c): B else: A` for every if/else that is not an elif chain (same program)"""
    tree = ast.parse(src)
    n = 0
    for x in ast.walk(tree):
        if isinstance(x, ast.If) and x.orelse and not (len(x.orelse) == 1 and isinstance(x.orelse[0], ast.If)):
            x.test = ast.UnaryOp(op=ast.Not(), operand=x.test)
            x.body, x.orelse = x.orelse, x.body
            n += 1
    ast.fix_missing_locations(tree)
    return ast.unparse(tree) + "\n", n


def split_and_module(src: str):
    """`if a and b: X` (no else) -> `if a: if b: X` (same program)"""
    tree = ast.parse(src)
    n = 0
    for x in ast.walk(tree):
        if isinstance(x, ast.If) and not x.orelse and isinstance(x.test, ast.BoolOp) and isinstance(x.test.op, ast.And):
            first, rest = x.test.values[0], x.test.values[1:]
            inner = ast.If(test=rest[0] if len(rest) == 1 else ast.BoolOp(op=ast.And(), values=rest), body=x.body, orelse=[])
            x.test = first
            x.body = [inner]
            n += 1
    ast.fix_missing_locations(tree)
    return ast.unparse(tree) + "\n", n


def _ends_in_jump(body) -> bool:
    return bool(body) and isinstance(body[-1], (ast.Return, ast.Continue, ast.Break, ast.Raise))


def _blocks(tree):
    for x in ast.walk(tree):
        for fld in ("body", "orelse", "finalbody"):
            b = getattr(x, fld, None)
            if isinstance(b, list) and b and isinstance(b[0], ast.stmt):
                yield x, fld, b
        if isinstance(x, ast.ExceptHandler):
            pass


def else_after_jump_module(src: str):
    """`if c: ...; return` followed by REST  ->  `if c: ...; return  else: REST` (same program)"""
    tree = ast.parse(src)
    n = 0
    for owner, fld, b in list(_blocks(tree)):
        for i, st in enumerate(b):
            if isinstance(st, ast.If) and not st.orelse and _ends_in_jump(st.body) and i + 1 < len(b):
                rest = b[i + 1 :]
                if any(isinstance(r, (ast.FunctionDef, ast.AsyncFunctionDef, ast.ClassDef)) for r in rest):
                    continue
                st.orelse = rest
                del b[i + 1 :]
                n += 1
                break
    ast.fix_missing_locations(tree)
    return ast.unparse(tree) + "\n", n


def flatten_else_module(src: str):
    """`if c: ...; return  else: B`  ->  `if c: ...; return` followed by B (same program)"""
    tree = ast.parse(src)
    n = 0
    for owner, fld, b in list(_blocks(tree)):
        for i, st in enumerate(list(b)):
            if isinstance(st, ast.If) and st.orelse and _ends_in_jump(st.body) and not (len(st.orelse) == 1 and isinstance(st.orelse[0], ast.If)):
                j = b.index(st)
                b[j + 1 : j + 1] = st.orelse
                st.orelse = []
                n += 1
    ast.fix_missing_locations(tree)
    return ast.unparse(tree) + "\n", n


TRANSFORMS = {"else-after-jump": else_after_jump_module, "flatten-else": flatten_else_module, "rename": rename_module, "swap": swap_module, "split-and": split_and_module}


def run_checks(root, props):
    out = {}
    for pr in props:
        q = subprocess.run(["/venv/bin/python", os.path.join(VERIF, "checks/run.py"), "--property", pr, "--tier", "quick", "--repo", root, "--evidence-dir", os.path.join(root, "ev")], capture_output=True, text=True, cwd=VERIF)
        if q.returncode != 0:
            out[pr] = (q.returncode, [l[:260] for l in q.stdout.splitlines() if " -- R-" in l or "ANALYSIS-ERROR" in l][:3])
    return out


def one(args):
    repo, rel, props, base, kind = args
    d = tempfile.mkdtemp(prefix="rn-", dir=base)
    try:
        os.makedirs(d + "/src")
        os.makedirs(d + "/tests")
        shutil.copytree(os.path.join(repo, PKG), os.path.join(d, PKG), ignore=shutil.ignore_patterns("__pycache__"))
        shutil.copy(os.path.join(repo, "tests/conftest.py"), d + "/tests/conftest.py")
        n = 0
        files = [rel] if rel != "*" else [os.path.relpath(p, os.path.join(d, PKG)) for p in glob.glob(os.path.join(d, PKG, "**/*.py"), recursive=True)]
        for f in files:
            p = os.path.join(d, PKG, f)
            new, k = TRANSFORMS[kind](open(p, encoding="utf-8").read())
            if k:
                compile(new, p, "exec")
                open(p, "w", encoding="utf-8").write(new)
                n += k
        return rel, n, run_checks(d, props)
    finally:
        shutil.rmtree(d, ignore_errors=True)


def run(repo="/repo", jobs=8, only=None, kind="rename", prop=None):
    props = sorted(os.path.basename(p)[:-3] for p in glob.glob(os.path.join(VERIF, "sa/rules/C[0-9][0-9].py")))
    if prop is not None:
        props = [prop]
    rels = sorted(os.path.relpath(p, os.path.join(repo, PKG)) for p in glob.glob(os.path.join(repo, PKG, "**/*.py"), recursive=True))
    rels = [r for r in rels if only is None or r == only]
    work = rels + (["*"] if only is None else [])
    base = tempfile.mkdtemp(prefix="rename-sweep-")
    try:
        with ThreadPoolExecutor(max_workers=jobs) as ex:
            res = list(ex.map(one, [(repo, r, props, base, kind) for r in work]))
    finally:
        shutil.rmtree(base, ignore_errors=True)
    changed = {r: v for r, n, v in res if v}
    return {"kind": kind, "modules": len(rels), "variants": len(work), "sites_transformed": {r: n for r, n, v in res if n}, "changed_verdicts": changed}


def run_all_kinds(prop, repo="/repo", jobs=8):
    """every transformation, whole package at once and module by module, against one property's check"""
    out = {"kinds": {}, "changed_verdicts": []}
    for kind in sorted(TRANSFORMS):
        r = run(repo, jobs, None, kind, prop)
        out["kinds"][kind] = {"variants": r["variants"], "sites_transformed": r["sites_transformed"].get("*", 0)}
        for rel, v in r["changed_verdicts"].items():
            for pr, (rc, lines) in v.items():
                out["changed_verdicts"].append(f"{kind}/{rel}/{pr}: exit {rc} " + (lines[0] if lines else ""))
    return out


if __name__ == "__main__":
    ap = argparse.ArgumentParser()
    ap.add_argument("--repo", default="/repo")
    ap.add_argument("--jobs", type=int, default=8)
    ap.add_argument("--only")
    ap.add_argument("--kind", default="rename", choices=sorted(TRANSFORMS))
    ap.add_argument("--property")
    a = ap.parse_args()
    r = run(a.repo, a.jobs, a.only, a.kind, a.property)
    print(json.dumps(r, indent=1))
    sys.exit(1 if r["changed_verdicts"] else 0)
