"""Mutation self-test of the checker (thorough tier).

Every variant is a small text edit of a *scratch copy* of /repo's current
package source (never of /repo).  `expect="violation"`: the check of that
property must exit 1 and name the rule; `expect="silent"`: a behaviour
preserving refactoring, the check must exit 0.  A variant whose anchor text is
no longer present in the current source is skipped (reported, not failed).
The corpus tests the checker; the verdict on /repo never depends on it.
"""
from __future__ import annotations

import ast
import importlib
import json
import os
import shutil
import subprocess
import sys
import tempfile
from concurrent.futures import ThreadPoolExecutor

HERE = os.path.dirname(os.path.abspath(__file__))
VERIF = os.path.dirname(HERE)
PKG = "src/inline_snapshot"


def load_variants(prop=None):
    out = []
    for fn in sorted(os.listdir(HERE)):
        if fn.startswith("variants_") and fn.endswith(".py"):
            mod = importlib.import_module("selftest." + fn[:-3])
            for v in mod.VARIANTS:
                if prop is None or v["prop"] == prop:
                    out.append(v)
    return out


def _apply(root, v):
    """-> None if applied, else reason."""
    edits = v.get("edits") or [(v["file"], v["old"], v["new"])]
    touched = []
    for ed in edits:
        file, old, new = ed[:3]
        every = len(ed) > 3 and ed[3] == "all"
        p = os.path.join(root, PKG, file) if not file.startswith("@") else os.path.join(root, file[1:])
        if not os.path.exists(p):
            return f"file {file} missing"
        s = open(p, encoding="utf-8").read()
        if old not in s:
            return f"anchor text not found in {file}"
        s2 = s.replace(old, new) if every else s.replace(old, new, 1)
        open(p, "w", encoding="utf-8").write(s2)
        touched.append(p)
    # the variant as a whole has to compile (a single edit of a multi-edit variant need not)
    for p in touched:
        try:
            ast.parse(open(p, encoding="utf-8").read())
        except SyntaxError as e:
            return f"variant does not compile: {e}"
    return None


def _run_one(args):
    v, repo, base = args
    d = tempfile.mkdtemp(prefix="v_", dir=base)
    try:
        os.makedirs(os.path.join(d, "src"))
        shutil.copytree(os.path.join(repo, PKG), os.path.join(d, PKG), ignore=shutil.ignore_patterns("__pycache__"))
        os.makedirs(os.path.join(d, "tests"), exist_ok=True)
        cf = os.path.join(repo, "tests", "conftest.py")
        if os.path.exists(cf):
            shutil.copy(cf, os.path.join(d, "tests", "conftest.py"))
        why = _apply(d, v)
        if why:
            return (v, "skipped", why, "")
        p = subprocess.run(
            [sys.executable, os.path.join(VERIF, "checks", "run.py"), "--property", v["prop"], "--tier", "quick", "--repo", d, "--evidence-dir", os.path.join(d, "ev")],
            capture_output=True,
            text=True,
            cwd=VERIF,
        )
        out = p.stdout + p.stderr
        if v["expect"] == "violation":
            good = p.returncode == 1 and "VIOLATION property=" + v["prop"] in out
            if good and v.get("rule"):
                good = v["rule"] in out
            if good and v.get("mention"):
                good = v["mention"] in out
            return (v, "fired" if good else "MISSED", f"exit={p.returncode}", out[-1500:] if not good else "")
        else:
            good = p.returncode == 0
            return (v, "silent" if good else "FALSE-ALARM", f"exit={p.returncode}", out[-1500:] if not good else "")
    finally:
        shutil.rmtree(d, ignore_errors=True)


def run_selftest(prop=None, repo="/repo", verbose=False):
    vs = load_variants(prop)
    base = tempfile.mkdtemp(prefix="verif-selftest-")
    try:
        with ThreadPoolExecutor(max_workers=16) as ex:
            res = list(ex.map(_run_one, [(v, repo, base) for v in vs]))
    finally:
        shutil.rmtree(base, ignore_errors=True)
    summary = {"variants": len(vs), "fired": 0, "silent": 0, "skipped": 0, "failed": [], "skipped_names": []}
    for v, status, info, out in res:
        if status == "fired":
            summary["fired"] += 1
        elif status == "silent":
            summary["silent"] += 1
        elif status == "skipped":
            summary["skipped"] += 1
            summary["skipped_names"].append(f"{v['prop']}/{v['name']}: {info}")
        else:
            summary["failed"].append(f"{v['prop']}/{v['name']}: {status} ({info})")
        if verbose:
            print(f"{v['prop']:4} {v['name']:45} {v['expect']:9} -> {status} {info}")
            if out and status in ("MISSED", "FALSE-ALARM"):
                print("    " + "\n    ".join(out.splitlines()[-12:]))
    return summary


if __name__ == "__main__":
    sys.path.insert(0, VERIF)
    prop = sys.argv[1] if len(sys.argv) > 1 and sys.argv[1] != "all" else None
    repo = sys.argv[2] if len(sys.argv) > 2 else "/repo"
    s = run_selftest(prop, repo, verbose=True)
    print(json.dumps({k: v for k, v in s.items()}, indent=1))
    sys.exit(1 if s["failed"] else 0)
