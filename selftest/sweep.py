"""Generic mutation sweep: how many single-point mutants of the anchored code does a property's
check flag?  (A measure of the checker's sensitivity - not a verdict on /repo; survivors are
either behaviour-preserving, outside the clauses the check decides, or a gap to look at.)

    /venv/bin/python selftest/sweep.py C07 [--limit N] [--seed S] [--list-survivors]

Mutation operators (AST level, result must unparse and compile):
  del   replace a simple statement (Expr / Assign / AugAssign / yield / continue / break) by `pass`
  neg   negate the test of an if / while / assert
  true  / false  replace the test of an `if` by a constant
  cmp   swap a comparison operator (== != , < <= , > >= , in / not in , is / is not)
  flag  replace a category literal by another one ("fix" <-> "trim" <-> "create" <-> "update")
  ret   replace `return <expr>` by `return None` (`return True`/`False` are flipped)
"""
from __future__ import annotations

import ast
import copy
import json
import os
import random
import shutil
import subprocess
import sys
import tempfile
from concurrent.futures import ThreadPoolExecutor

HERE = os.path.dirname(os.path.abspath(__file__))
VERIF = os.path.dirname(HERE)
PKG = "src/inline_snapshot"
CATS = ["fix", "trim", "create", "update"]
SWAP = {ast.Eq: ast.NotEq, ast.NotEq: ast.Eq, ast.Lt: ast.LtE, ast.LtE: ast.Lt, ast.Gt: ast.GtE, ast.GtE: ast.Gt, ast.In: ast.NotIn, ast.NotIn: ast.In, ast.Is: ast.IsNot, ast.IsNot: ast.Is}


def anchor_files(prop: str, repo: str):
    for line in open(os.path.join(VERIF, "properties.jsonl")):
        p = json.loads(line)
        if p["id"] == prop:
            return [f for f in p["anchors"]["files"] if f.startswith(PKG) and os.path.exists(os.path.join(repo, f))]
    return []


def mutants_of(src: str):
    """yield (operator, lineno, description, new_source)"""
    tree = ast.parse(src)
    nodes = list(ast.walk(tree))
    for idx, n in enumerate(nodes):
        def emit(op, desc, mutate):
            t = copy.deepcopy(tree)
            m = list(ast.walk(t))[idx]
            try:
                mutate(m, t)
                ast.fix_missing_locations(t)
                new = ast.unparse(t)
                compile(new, "<mutant>", "exec")
            except Exception:
                return None
            return (op, getattr(n, "lineno", 0), desc, new)

        if isinstance(n, (ast.Expr, ast.Assign, ast.AugAssign, ast.Continue, ast.Break)) and not (isinstance(n, ast.Expr) and isinstance(n.value, ast.Constant)):
            def do(m, t):
                for par in ast.walk(t):
                    for fld, val in ast.iter_fields(par):
                        if isinstance(val, list) and m in val:
                            val[val.index(m)] = ast.Pass()
                            return
                raise ValueError
            r = emit("del", "drop `" + ast.unparse(n)[:60] + "`", do)
            if r:
                yield r
        if isinstance(n, (ast.If, ast.While, ast.Assert)):
            def do(m, t):
                m.test = ast.UnaryOp(op=ast.Not(), operand=m.test)
            r = emit("neg", "negate `" + ast.unparse(n.test)[:60] + "`", do)
            if r:
                yield r
        if isinstance(n, ast.If):
            for const in (True, False):
                def do(m, t, const=const):
                    m.test = ast.Constant(value=const)
                r = emit("true" if const else "false", f"`if {ast.unparse(n.test)[:50]}` -> `if {const}`", do)
                if r:
                    yield r
        if isinstance(n, ast.Compare) and len(n.ops) == 1 and type(n.ops[0]) in SWAP:
            def do(m, t):
                m.ops = [SWAP[type(m.ops[0])]()]
            r = emit("cmp", "swap operator in `" + ast.unparse(n)[:60] + "`", do)
            if r:
                yield r
        if isinstance(n, ast.Constant) and n.value in CATS:
            other = CATS[(CATS.index(n.value) + 1) % 4]
            def do(m, t, other=other):
                m.value = other
            r = emit("flag", f"'{n.value}' -> '{other}'", do)
            if r:
                yield r
        if isinstance(n, ast.Return) and n.value is not None:
            def do(m, t):
                if isinstance(m.value, ast.Constant) and isinstance(m.value.value, bool):
                    m.value = ast.Constant(value=not m.value.value)
                else:
                    m.value = ast.Constant(value=None)
            r = emit("ret", "`return " + ast.unparse(n.value)[:50] + "` -> constant", do)
            if r:
                yield r


def run_one(args):
    prop, repo, base, rel, op, line, desc, new = args
    d = tempfile.mkdtemp(prefix="m_", dir=base)
    try:
        os.makedirs(d + "/src")
        shutil.copytree(os.path.join(repo, PKG), os.path.join(d, PKG), ignore=shutil.ignore_patterns("__pycache__"))
        os.makedirs(d + "/tests")
        cf = os.path.join(repo, "tests/conftest.py")
        if os.path.exists(cf):
            shutil.copy(cf, d + "/tests/conftest.py")
        open(os.path.join(d, rel), "w").write(new)
        p = subprocess.run([sys.executable, os.path.join(VERIF, "checks/run.py"), "--property", prop, "--tier", "quick", "--repo", d, "--evidence-dir", d + "/ev"], capture_output=True, text=True, cwd=VERIF)
        rules = sorted({l.split(" -- ")[1] for l in p.stdout.splitlines() if " -- R-" in l})
        return (rel, op, line, desc, p.returncode, rules)
    finally:
        shutil.rmtree(d, ignore_errors=True)


def obligation_functions(prop: str, repo: str):
    """{relative file: [(first line, last line, qualname)]} of the functions that carry at least
    one obligation of this property's check on the unmutated tree."""
    sys.path.insert(0, VERIF)
    import importlib

    from sa.model import Repo
    from sa.report import Report

    r = Repo(repo, extra_files=("tests/conftest.py",))
    rep = Report(prop, "quick", repo, tempfile.mkdtemp())
    importlib.import_module(f"sa.rules.{prop}").check(r, rep, "quick")
    quals = set()
    for o in rep.obl:
        parts = o.site.split(" ")
        if len(parts) >= 2 and ":" in parts[0]:
            quals.add((parts[0].split(":")[0], parts[1]))
    out = {}
    for f in r.pkg_funcs():
        rel = f"{PKG}/{f.module.rel}"
        top = f
        while top.parent is not None:
            top = top.parent
        if (rel, f.qualname) in quals or (rel, top.qualname) in quals:
            out.setdefault(rel, []).append((f.node.lineno, f.node.end_lineno, f.qualname))
    return out


def sweep(prop: str, repo="/repo", limit=None, seed=0, jobs=16, scope="obligations"):
    files = anchor_files(prop, repo)
    ranges = obligation_functions(prop, repo) if scope == "obligations" else None
    if ranges is not None:
        files = sorted(ranges)
    todo = []
    for rel in files:
        src = open(os.path.join(repo, rel)).read()
        for op, line, desc, new in mutants_of(src):
            if ranges is not None and not any(a <= line <= b for a, b, _ in ranges.get(rel, [])):
                continue
            todo.append((rel, op, line, desc, new))
    total = len(todo)
    if limit and total > limit:
        random.Random(seed).shuffle(todo)
        todo = todo[:limit]
    base = tempfile.mkdtemp(prefix="verif-sweep-")
    try:
        with ThreadPoolExecutor(max_workers=jobs) as ex:
            res = list(ex.map(run_one, [(prop, repo, base) + t for t in todo]))
    finally:
        shutil.rmtree(base, ignore_errors=True)
    killed = [r for r in res if r[4] == 1]
    und = [r for r in res if r[4] == 2]
    surv = [r for r in res if r[4] == 0]
    return {"property": prop, "files": files, "mutants_total": total, "mutants_run": len(todo), "killed": len(killed), "undecided": len(und), "survived": len(surv), "survivors": [f"{r[0]}:{r[2]} {r[1]} {r[3]}" for r in sorted(surv)], "killed_by_rule": _count([x for r in killed for x in r[5]])}


def _count(xs):
    out = {}
    for x in xs:
        out[x] = out.get(x, 0) + 1
    return dict(sorted(out.items(), key=lambda kv: -kv[1]))


def sweep_all(repo="/repo", jobs=12, out=None):
    """Every mutant of every function that carries an obligation of some property is run against
    the checks of exactly those properties; a survivor is flagged by none of them."""
    import glob

    props = sorted(os.path.basename(x)[:-3] for x in glob.glob(os.path.join(VERIF, "sa/rules/C[0-9][0-9].py")))
    fmap = {}  # (rel, first, last, qual) -> set(props)
    for p in props:
        for rel, rs in obligation_functions(p, repo).items():
            for a, b, q in rs:
                fmap.setdefault((rel, a, b, q), set()).add(p)
    todo = []
    srcs = {}
    for (rel, a, b, q), ps in sorted(fmap.items()):
        srcs.setdefault(rel, open(os.path.join(repo, rel)).read())
    muts = {rel: list(mutants_of(src)) for rel, src in srcs.items()}
    seen = set()
    for (rel, a, b, q), ps in sorted(fmap.items()):
        for op, line, desc, new in muts[rel]:
            if a <= line <= b and (rel, op, line, desc) not in seen:
                seen.add((rel, op, line, desc))
                owners = set()
                for (rel2, a2, b2, q2), ps2 in fmap.items():
                    if rel2 == rel and a2 <= line <= b2:
                        owners |= ps2
                todo.append((rel, q, op, line, desc, new, sorted(owners)))
    base = tempfile.mkdtemp(prefix="verif-sweepall-")

    def one(t):
        rel, q, op, line, desc, new, owners = t
        res = {}
        for p in owners:
            r = run_one((p, repo, base, rel, op, line, desc, new))
            res[p] = (r[4], r[5])
        return (rel, q, op, line, desc, res)

    try:
        with ThreadPoolExecutor(max_workers=jobs) as ex:
            results = list(ex.map(one, todo))
    finally:
        shutil.rmtree(base, ignore_errors=True)
    killed = [r for r in results if any(v[0] == 1 for v in r[5].values())]
    und = [r for r in results if r not in killed and any(v[0] == 2 for v in r[5].values())]
    surv = [r for r in results if r not in killed and r not in und]
    summary = {"functions": len(fmap), "mutants": len(results), "killed": len(killed), "undecided_only": len(und), "survived": len(surv)}
    print(json.dumps(summary))
    if out:
        with open(out, "w") as fh:
            json.dump({"summary": summary, "survivors": [f"{r[0]}:{r[3]} [{r[1]}] {r[2]} {r[4]}  (checked by {','.join(sorted(r[5]))})" for r in sorted(surv)], "undecided": [f"{r[0]}:{r[3]} [{r[1]}] {r[2]} {r[4]}" for r in sorted(und)]}, fh, indent=1)
    return summary


if __name__ == "__main__":
    sys.path.insert(0, VERIF)
    a = sys.argv[1:]
    if a[0] == "all":
        sweep_all(repo=a[a.index("--repo") + 1] if "--repo" in a else "/repo", jobs=int(a[a.index("--jobs") + 1]) if "--jobs" in a else 12, out=a[a.index("--out") + 1] if "--out" in a else None)
        sys.exit(0)
    prop = a[0]
    limit = int(a[a.index("--limit") + 1]) if "--limit" in a else None
    seed = int(a[a.index("--seed") + 1]) if "--seed" in a else 0
    repo = a[a.index("--repo") + 1] if "--repo" in a else "/repo"
    r = sweep(prop, repo=repo, limit=limit, seed=seed, scope="anchors" if "--anchors" in a else "obligations")
    surv = r.pop("survivors")
    print(json.dumps(r, indent=1))
    if "--list-survivors" in a:
        for s in surv:
            print("  SURVIVED", s)
