P = "C16"
CR = "_code_repr.py"
VARIANTS = [
    dict(prop=P, name="set-repr-unsorted", expect="violation", rule="R-SET-ORDER", file=CR,
         old="    return \"{\" + \", \".join(sort_set_values(value)) + \"}\"\n", new="    return \"{\" + \", \".join(map(repr, value)) + \"}\"\n"),
    dict(prop=P, name="sort_set_values-no-presort (F14 regression)", expect="violation", rule="R-SET-ORDER", file=CR,
         old="    set_values = sorted(set_values, key=repr)\n", new="    set_values = list(set_values)\n"),
    dict(prop=P, name="sort_set_values-no-sort", expect="violation", rule="R-SET-ORDER", file=CR,
         old="    set_values = sorted(set_values, key=repr)\n    try:\n        set_values = sorted(set_values)\n    except TypeError:\n        pass\n\n", new=""),
    dict(prop=P, name="hash-in-repr", expect="violation", rule="R-NO-NONDET", file=CR,
         old="def _(value: type):\n    return value.__qualname__\n", new="def _(value: type):\n    return value.__qualname__ if value.__module__ != \"__main__\" else f\"{value.__qualname__}_{hash(value) % 7}\"\n"),
    dict(prop=P, name="environ-in-value_to_token", expect="violation", rule="R-NO-NONDET", file="_utils.py",
         old="def value_to_token(value):\n    input = io.StringIO(code_repr(value))\n", new="def value_to_token(value):\n    import os\n\n    input = io.StringIO(code_repr(value) if not os.environ.get(\"X\") else repr(value))\n"),
    dict(prop=P, name="id-in-hasrepr", expect="violation", rule="R-NO-NONDET", file=CR,
         old="        return f\"HasRepr({self._type.__qualname__}, {self._str_repr!r})\"\n", new="        return f\"HasRepr({self._type.__qualname__}, {self._str_repr!r})\" if self._str_repr else f\"HasRepr({self._type.__qualname__}, '{id(self)}')\"\n"),
    dict(prop=P, name="update-compares-formatted-code", expect="violation", rule="R-FMT-OPTIONAL", file="_snapshot/min_max_value.py",
         old="        new_token = value_to_token(self._new_value)\n", new="        new_token = list(self._file._value_to_code(self._new_value))\n"),
    dict(prop=P, name="value_to_token-formats", expect="violation", rule="R-FMT-OPTIONAL", file="_utils.py",
         old="def value_to_token(value):\n    input = io.StringIO(code_repr(value))\n", new="def value_to_token(value):\n    from ._format import format_code\n\n    input = io.StringIO(format_code(code_repr(value), \"x.py\"))\n"),
    dict(prop=P, name="twin-key-lambda", expect="silent", file=CR,
         old="    set_values = sorted(set_values, key=repr)\n", new="    set_values = sorted(set_values, key=lambda v: repr(v))\n"),
]
