P = "C20"
FM = "_format.py"
RW = "_rewrite_code.py"
VARIANTS = [
    dict(prop=P, name="format-outside-gate", expect="violation", rule="R-WHOLEFILE-GATE", file=RW,
         old="        if format_whole_file:\n            new_code = format_code(new_code, self.filename)\n", new="        new_code = format_code(new_code, self.filename)\n"),
    dict(prop=P, name="strip-after-format", expect="violation", rule="R-FORMAT-RESULT", file=RW,
         old="        return new_code\n\n    def diff(self):", new="        return new_code.strip() + \"\\n\"\n\n    def diff(self):"),
    dict(prop=P, name="format-other-text", expect="violation", rule="R-FORMAT-RESULT", file=RW,
         old="            new_code = format_code(new_code, self.filename)\n", new="            new_code = format_code(code, self.filename)\n"),
    dict(prop=P, name="fragment-other-path", expect="violation", rule="R-ONE-MODE", file="_source_file.py",
         old="            formatted = format_code(text, Path(self._source.filename))\n", new="            formatted = format_code(text, Path(\"snippet.py\"))\n"),
    dict(prop=P, name="default-mode", expect="violation", rule="R-ONE-MODE", file=FM,
         old="            return format_str(text, mode=mode)\n", new="            from black import FileMode\n\n            return format_str(text, mode=FileMode())\n"),
    dict(prop=P, name="magic-trailing-comma-polarity", expect="violation", rule="R-MODE-TABLE", file=FM,
         old="            mode.magic_trailing_comma = not config[\"skip_magic_trailing_comma\"]\n", new="            mode.magic_trailing_comma = config[\"skip_magic_trailing_comma\"]\n"),
    dict(prop=P, name="line-length-key-misspelt", expect="violation", rule="R-MODE-TABLE", file=FM,
         old="        if \"line_length\" in config:\n            mode.line_length = int(config[\"line_length\"])\n", new="        if \"line-length\" in config:\n            mode.line_length = int(config[\"line-length\"])\n"),
    dict(prop=P, name="preview-always-true", expect="violation", rule="R-MODE-TABLE", file=FM,
         old="            mode.preview = config[\"preview\"]\n", new="            mode.preview = True\n"),
    dict(prop=P, name="twin-mode-local-config", expect="silent", file=FM,
         old="        if \"preview\" in config:\n            mode.preview = config[\"preview\"]\n", new="        if \"preview\" in config:\n            mode.preview = bool(config[\"preview\"])\n"),
    dict(prop=P, name="pyproject-searched-from-cwd (F30 regression)", expect="violation", rule="R-MODE-TABLE", file="_format.py",
         old="    pyproject_path = find_pyproject_toml((str(path),))\n", new="    pyproject_path = find_pyproject_toml((), path)\n"),
    dict(prop=P, name="twin-pyproject-via-dash-source", expect="silent", file="_format.py",
         old="    pyproject_path = find_pyproject_toml((str(path),))\n", new="    pyproject_path = find_pyproject_toml((\"-\",), str(path))\n"),
]
