P = "C19"
EX = "testing/_example.py"
VARIANTS = [
    dict(prop=P, name="run_inline-skips-report_problems", expect="violation", rule="R-DRIVER-STEPS", file=EX,
         old="                report_problems(lambda: console)\n", new="                pass\n"),
    dict(prop=P, name="run_inline-drops-import-step (F9 regression)", expect="violation", rule="R-DRIVER-STEPS", file=EX,
         old="                    if required_imports:\n                        ensure_import(\n                            test_file.filename,\n                            {\"inline_snapshot\": required_imports},\n                            recorder,\n                        )\n", new=""),
    dict(prop=P, name="run_inline-applies-all-flags", expect="violation", rule="R-DRIVER-FILTER", file=EX,
         old="                        if change.flag in state.update_flags.to_set()\n", new=""),
    dict(prop=P, name="ci-table-13th-variable", expect="violation", rule="R-CI-TABLE", file="pytest_plugin.py",
         old="        \"TRAVIS\",\n    )\n    for var in ci_env_vars:", new="        \"TRAVIS\",\n        \"GITLAB_CI\",\n    )\n    for var in ci_env_vars:"),
    dict(prop=P, name="run_pytest-pops-two-only (F16 regression)", expect="violation", rule="R-CI-TABLE", file=EX,
         old="                \"TEAMCITY_VERSION\",\n                \"TRAVIS\",\n            ):", new="            ):"),
    dict(prop=P, name="run_inline-glob-narrowed", expect="violation", rule="R-DRIVER-COLLECT", file=EX,
         old="                    for filename in tmp_path.glob(\"*.py\"):", new="                    for filename in tmp_path.glob(\"test_*.py\"):"),
    dict(prop=P, name="run_inline-inactive-before-tests", expect="violation", rule="R-DRIVER-STATE", file=EX,
         old="                state.storage = DiscStorage(tmp_path / \".storage\")\n", new="                state.storage = DiscStorage(tmp_path / \".storage\")\n                state.active = False\n"),
    dict(prop=P, name="run_inline-reports-applied-only", expect="violation", rule="R-DRIVER-STATE", file=EX,
         old="                snapshot_flags = {change.flag for change in changes}\n", new="                snapshot_flags = {change.flag for change in changes if change.flag in state.update_flags.to_set()}\n"),
    dict(prop=P, name="hook-reuses-preview-recorder", expect="violation", rule="R-WRITE-FRESH", file="pytest_plugin.py",
         old="            if used_changes:\n                cr = ChangeRecorder()\n                apply_all(used_changes, cr)\n", new="            if used_changes:\n                pass\n"),
    dict(prop=P, name="twin-run_inline-local-flags", expect="silent", file=EX,
         old="                snapshot_flags = {change.flag for change in changes}\n", new="                all_changes = changes\n                snapshot_flags = {change.flag for change in all_changes}\n"),
]
