"""Behaviour-preserving refactorings written by independent sub-agents (each confirmed against the
pinned suite): every check must stay silent (exit 0) on every one of them.  A patch that no longer
applies to the current tree is skipped.

    /venv/bin/python selftest/refactors.py [C07]      # one property, or all
"""
from __future__ import annotations

import glob
import json
import os
import shutil
import subprocess
import sys
import tempfile
from concurrent.futures import ThreadPoolExecutor

HERE = os.path.dirname(os.path.abspath(__file__))
VERIF = os.path.dirname(HERE)
PKG = "src/inline_snapshot"


def _one(args):
    patch, props, repo, base = args
    name = os.path.basename(patch)[:-5]
    d = tempfile.mkdtemp(prefix="r_", dir=base)
    try:
        os.makedirs(d + "/src")
        shutil.copytree(os.path.join(repo, PKG), os.path.join(d, PKG), ignore=shutil.ignore_patterns("__pycache__"))
        os.makedirs(d + "/tests")
        cf = os.path.join(repo, "tests/conftest.py")
        if os.path.exists(cf):
            shutil.copy(cf, d + "/tests/conftest.py")
        p = subprocess.run(["patch", "-p1", "--no-backup-if-mismatch", "-s", "-i", patch], cwd=d, capture_output=True, text=True)
        if p.returncode != 0:
            return (name, "skipped", {})
        res = {}
        for pr in props:
            q = subprocess.run([sys.executable, os.path.join(VERIF, "checks/run.py"), "--property", pr, "--tier", "quick", "--repo", d, "--evidence-dir", d + "/ev"], capture_output=True, text=True, cwd=VERIF)
            if q.returncode != 0:
                res[pr] = (q.returncode, [l for l in q.stdout.splitlines() if " -- R-" in l or "ANALYSIS-ERROR" in l][:3])
        return (name, "ran", res)
    finally:
        shutil.rmtree(d, ignore_errors=True)


def run_refactors(prop=None, repo="/repo"):
    props = [prop] if prop else sorted(os.path.basename(x)[:-3] for x in glob.glob(os.path.join(VERIF, "sa/rules/C[0-9][0-9].py")))
    patches = sorted(glob.glob(os.path.join(HERE, "refactors", "*.diff")))
    base = tempfile.mkdtemp(prefix="verif-refac-")
    try:
        with ThreadPoolExecutor(max_workers=16) as ex:
            res = list(ex.map(_one, [(p, props, repo, base) for p in patches]))
    finally:
        shutil.rmtree(base, ignore_errors=True)
    out = {"refactorings": len(patches), "applied": 0, "skipped": 0, "silent": 0, "false_alarms": [], "undecided": []}
    for name, st, r in res:
        if st == "skipped":
            out["skipped"] += 1
            continue
        out["applied"] += 1
        fa = {k: v for k, v in r.items() if v[0] == 1}
        un = {k: v for k, v in r.items() if v[0] == 2}
        if not fa and not un:
            out["silent"] += 1
        for k, v in fa.items():
            out["false_alarms"].append(f"{name}/{k}: " + " | ".join(x[:160] for x in v[1]))
        for k, v in un.items():
            out["undecided"].append(f"{name}/{k}: " + " | ".join(x[:160] for x in v[1]))
    return out


if __name__ == "__main__":
    sys.path.insert(0, VERIF)
    r = run_refactors(sys.argv[1] if len(sys.argv) > 1 and sys.argv[1] != "all" else None)
    print(json.dumps(r, indent=1))
    sys.exit(1 if r["false_alarms"] else 0)
