P = "C12"
UT = "_utils.py"
VARIANTS = [
    dict(prop=P, name="drop-literal_eval-assert", expect="violation", rule="R-STRING-TOKENS", file=UT,
         old="                assert ast.literal_eval(triple_quoted_string) == s\n\n", new=""),
    dict(prop=P, name="assert-compares-with-itself", expect="violation", rule="R-STRING-TOKENS", file=UT,
         old="                assert ast.literal_eval(triple_quoted_string) == s\n", new="                assert ast.literal_eval(triple_quoted_string) == ast.literal_eval(triple_quoted_string)\n"),
    dict(prop=P, name="triple-quote-for-bytes", expect="violation", rule="R-STRING-TOKENS", file=UT,
         old="            if isinstance(s, str) and (\n", new="            if isinstance(s, (str, bytes)) and (\n"),
    dict(prop=P, name="postprocess-after-assert", expect="violation", rule="R-STRING-TOKENS", file=UT,
         old="                return simple_token(tok.type, triple_quoted_string)\n", new="                return simple_token(tok.type, triple_quoted_string.replace(\"\\t\", \"    \"))\n"),
    dict(prop=P, name="tokens-bypass-mapper", expect="violation", rule="R-STRING-TOKENS", file=UT,
         old="    return [\n        map_string(t)\n        for t in tokenize.generate_tokens(input.readline)", new="    return [\n        simple_token(t.type, t.string)\n        for t in tokenize.generate_tokens(input.readline)"),
    dict(prop=P, name="fragment-sanitiser-removed (F10 regression)", expect="violation", rule="R-FMT-TAINT/fragment", file="_source_file.py",
         old="            if not _same_ast(text, formatted):\n                # the formatter works on modules, a lone string is handled\n                # like a docstring there and its whitespace gets stripped\n                return text\n            return formatted\n", new="            return formatted\n"),
    dict(prop=P, name="sanitiser-compares-lengths", expect="violation", rule="R-FMT-TAINT/fragment", file="_source_file.py",
         old="        return ast.dump(ast.parse(code_a)) == ast.dump(ast.parse(code_b))\n", new="        return len(code_a.split()) == len(code_b.split())\n"),
    dict(prop=P, name="token_to_code-formats-directly", expect="violation", rule="R-FMT-TAINT/fragment", file="_source_file.py",
         old="        return self._format(tokenize.untokenize(tokens)).strip()\n", new="        return format_code(tokenize.untokenize(tokens), Path(self._source.filename)).strip()\n"),
    dict(prop=P, name="twin-inline-sanitiser", expect="silent", file="_source_file.py",
         old="            if not _same_ast(text, formatted):\n", new="            if ast.dump(ast.parse(text)) != ast.dump(ast.parse(formatted)):\n"),
]
