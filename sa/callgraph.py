"""Call resolution (imports, MRO, light receiver typing, CHA fallback) and the
effect table (FS_WRITE / PROC / EXEC / NONDET primitives)."""
from __future__ import annotations

import ast
from typing import Dict, List, Optional, Set, Tuple

from .model import AnalysisError, Class, Func, Module, Repo, attr_chain, body_nodes, norm, parent

# ----------------------------------------------------------------- effects

FS_WRITE_METHODS = {
    "write_text",
    "write_bytes",
    "mkdir",
    "rename",
    "unlink",
    "rmdir",
    "touch",
    "symlink_to",
    "hardlink_to",
    "link_to",
    "chmod",
    "rmtree",
}
OS_WRITE_FUNCS = {
    "os.remove",
    "os.unlink",
    "os.rename",
    "os.replace",
    "os.rmdir",
    "os.mkdir",
    "os.makedirs",
    "os.truncate",
    "os.removedirs",
    "os.renames",
    "os.symlink",
    "os.link",
}
PROC_FUNCS_PREFIX = ("subprocess.", "sp.")
PROC_FUNCS = {"os.system", "os.popen", "os.execv", "os.spawnv"}
EXEC_FUNCS = {"exec", "eval"}


def open_mode(c: ast.Call) -> Optional[str]:
    """Mode string of an open()/Path.open() call, '?' if not constant."""
    is_builtin = isinstance(c.func, ast.Name) and c.func.id == "open"
    is_meth = isinstance(c.func, ast.Attribute) and c.func.attr == "open"
    if not (is_builtin or is_meth):
        return None
    idx = 1 if is_builtin else 0
    mode = None
    if len(c.args) > idx:
        mode = c.args[idx]
    for k in c.keywords:
        if k.arg == "mode":
            mode = k.value
    if mode is None:
        return "r"
    if isinstance(mode, ast.Constant) and isinstance(mode.value, str):
        return mode.value
    return "?"


def primitive_effect(c: ast.Call, m: Module) -> Optional[Tuple[str, str]]:
    """(effect kind, description) of a call expression that is itself an
    effect primitive."""
    name = norm(c.func)
    mode = open_mode(c)
    if mode is not None:
        if any(ch in mode for ch in "wax+?"):
            return ("FS_WRITE", f"open(mode={mode!r})")
        return None
    if isinstance(c.func, ast.Attribute):
        a = c.func.attr
        if a in FS_WRITE_METHODS:
            return ("FS_WRITE", "." + a)
        if a == "replace" and len(c.args) == 1 and not c.keywords:
            # str.replace has two arguments; Path.replace(target) has one
            return ("FS_WRITE", ".replace(target)")
        if a == "remove" and isinstance(c.func.value, ast.Name) and c.func.value.id == "os":
            return ("FS_WRITE", "os.remove")
    # resolve module aliases: `import subprocess as sp`
    if isinstance(c.func, ast.Attribute):
        ch = attr_chain(c.func)
        if ch:
            head = ch[0]
            imp = m.imports.get(head)
            if imp and imp[1] is None:
                full = ".".join([imp[0]] + ch[1:])
            elif imp:
                full = ".".join([imp[0], imp[1]] + ch[1:])
            else:
                full = ".".join(ch)
            if full in OS_WRITE_FUNCS or full.startswith("shutil."):
                return ("FS_WRITE", full)
            if full.startswith("subprocess.") or full in PROC_FUNCS:
                return ("PROC", full)
    if isinstance(c.func, ast.Name):
        imp = m.imports.get(c.func.id)
        if imp and imp[1] is not None:
            full = f"{imp[0]}.{imp[1]}"
            if full in OS_WRITE_FUNCS or full.startswith("shutil."):
                return ("FS_WRITE", full)
            if full.startswith("subprocess.") or full in PROC_FUNCS:
                return ("PROC", full)
        if c.func.id in EXEC_FUNCS:
            return ("EXEC", c.func.id)
    return None


# ------------------------------------------------------------ type inference


def _ann_classes(repo: Repo, m: Module, ann) -> List[Class]:
    """Package classes mentioned in an annotation (handles strings, Optional, |)."""
    if ann is None:
        return []
    if isinstance(ann, ast.Constant) and isinstance(ann.value, str):
        try:
            ann = ast.parse(ann.value, mode="eval").body
        except SyntaxError:
            return []
    out = []
    for n in ast.walk(ann):
        if isinstance(n, ast.Name):
            r = repo.resolve_name(m, n.id)
            if r and r[0] == "class":
                out.append(r[1])
            elif r is None or r[0] == "ext":
                # TYPE_CHECKING import of a package class
                cands = repo.classes.get(n.id, [])
                if len(cands) == 1:
                    out.append(cands[0])
    return out


class CallGraph:
    def __init__(self, repo: Repo):
        self.repo = repo
        self.edges: Dict[str, List[Tuple[ast.Call, List[Func], str]]] = {}
        self.callers: Dict[str, List[Tuple[Func, ast.Call, str]]] = {}
        self.prims: Dict[str, List[Tuple[ast.Call, str, str]]] = {}
        self.unresolved = 0
        self.total_calls = 0
        for f in repo.funcs.values():
            self._scan(f)
        # module-level code as pseudo functions is not needed: no module-level effect calls
        self._trans: Dict[str, Set[str]] = {}

    # -------------------------------------------------------- local typing
    def local_types(self, f: Func) -> Dict[str, List[Class]]:
        repo, m = self.repo, f.module
        types: Dict[str, List[Class]] = {}
        a = f.node.args
        for arg in a.posonlyargs + a.args + a.kwonlyargs:
            cs = _ann_classes(repo, m, arg.annotation)
            if cs:
                types[arg.arg] = cs
        if f.cls is not None and f.is_method() and f.params and "classmethod" not in f.decorators:
            types[f.params[0]] = [f.cls]
        # enclosing function locals are visible in nested functions
        if f.parent is not None:
            for k, v in self.local_types(f.parent).items():
                types.setdefault(k, v)
        for _ in range(2):
            for n in body_nodes(f.node):
                if isinstance(n, ast.Assign) and len(n.targets) == 1 and isinstance(n.targets[0], ast.Name):
                    cs = self.expr_types(n.value, f, types)
                    if cs:
                        types[n.targets[0].id] = cs
                elif isinstance(n, ast.AnnAssign) and isinstance(n.target, ast.Name):
                    cs = _ann_classes(repo, m, n.annotation)
                    if cs:
                        types[n.target.id] = cs
                elif isinstance(n, (ast.With, ast.AsyncWith)):
                    for it in n.items:
                        if isinstance(it.optional_vars, ast.Name):
                            cs = self.expr_types(it.context_expr, f, types)
                            if cs:
                                types[it.optional_vars.id] = cs
                elif isinstance(n, (ast.For, ast.comprehension)) and isinstance(n.target, ast.Name):
                    cs = self.expr_types(n.iter, f, types, elem=True)
                    if cs:
                        types[n.target.id] = cs
        return types

    def expr_types(self, e, f: Func, types: Dict[str, List[Class]], elem=False) -> List[Class]:
        repo, m = self.repo, f.module
        if isinstance(e, ast.Name):
            return types.get(e.id, [])
        if isinstance(e, ast.Call):
            tg = self.resolve_callee(e, f, types)
            out: List[Class] = []
            for t in tg:
                if isinstance(t, Class):
                    out.append(t)
                elif isinstance(t, Func):
                    if t.name == "__init__" and t.cls is not None:
                        out.append(t.cls)
                    else:
                        out += _ann_classes(repo, t.module, t.node.returns)
            # constructor call of a class without __init__
            if isinstance(e.func, ast.Name):
                r = repo.resolve_name(m, e.func.id)
                if r and r[0] == "class" and r[1] not in out:
                    out.append(r[1])
            return out
        if isinstance(e, ast.Attribute):
            bases = self.expr_types(e.value, f, types)
            out = []
            for b in bases:
                for k in repo.mro(b):
                    if e.attr in k.ann:
                        out += _ann_classes(repo, k.module, k.ann[e.attr])
                        break
                    # attribute assigned in __init__ from an annotated parameter/constructor
                    init = k.methods.get("__init__")
                    if init is not None:
                        for n in body_nodes(init.node):
                            if (
                                isinstance(n, ast.Assign)
                                and isinstance(n.targets[0], ast.Attribute)
                                and n.targets[0].attr == e.attr
                                and isinstance(n.targets[0].value, ast.Name)
                                and n.targets[0].value.id == init.params[0]
                            ):
                                out += self.expr_types(n.value, init, self.local_types_shallow(init))
            return out
        if isinstance(e, ast.Subscript):
            return self.expr_types(e.value, f, types)
        return []

    def local_types_shallow(self, f: Func) -> Dict[str, List[Class]]:
        types: Dict[str, List[Class]] = {}
        a = f.node.args
        for arg in a.posonlyargs + a.args + a.kwonlyargs:
            cs = _ann_classes(self.repo, f.module, arg.annotation)
            if cs:
                types[arg.arg] = cs
        return types

    # ---------------------------------------------------------- resolution
    def resolve_callee(self, c: ast.Call, f: Func, types=None) -> List:
        """-> list of Func/Class targets ([] = external/unknown)."""
        repo, m = self.repo, f.module
        fn = c.func
        if isinstance(fn, ast.Name):
            # nested function of this or an enclosing function
            g: Optional[Func] = f
            while g is not None:
                q = g.qualname + "." + fn.id
                if q in m.funcs:
                    return [m.funcs[q]]
                g = g.parent
            r = repo.resolve_name(m, fn.id)
            if r and r[0] == "func":
                return [r[1]]
            if r and r[0] == "class":
                init = repo.lookup_method(r[1], "__init__")
                return [init] if init else [r[1]]
            return []
        if isinstance(fn, ast.Attribute):
            name = fn.attr
            base = fn.value
            # module attribute
            if isinstance(base, ast.Name):
                r = repo.resolve_name(m, base.id)
                if r and r[0] == "module":
                    r2 = repo.resolve_name(r[1], name)
                    if r2 and r2[0] == "func":
                        return [r2[1]]
                    if r2 and r2[0] == "class":
                        init = repo.lookup_method(r2[1], "__init__")
                        return [init] if init else [r2[1]]
                    return []
                if r and r[0] == "class":
                    t = repo.lookup_method(r[1], name)
                    return [t] if t else []
                if r and r[0] == "ext":
                    return []
            if isinstance(base, ast.Call) and isinstance(base.func, ast.Name) and base.func.id == "super" and f.cls is not None:
                for k in repo.mro(f.cls)[1:]:
                    t = k.methods.get(name)
                    if t:
                        return [t]
                return []
            if types is None:
                types = self.local_types(f)
            cs = self.expr_types(base, f, types)
            if cs:
                out = []
                for k in cs:
                    t = repo.lookup_method(k, name)
                    if t and t not in out:
                        out.append(t)
                    for sub in repo.subclasses(k):
                        t2 = sub.methods.get(name)
                        if t2 and t2 not in out:
                            out.append(t2)
                if out:
                    return out
                return []
            return ["CHA"]
        return []

    def _scan(self, f: Func):
        repo, m = self.repo, f.module
        types = None
        self.edges[f.key] = []
        self.prims[f.key] = []
        for n in body_nodes(f.node):
            if not isinstance(n, ast.Call):
                continue
            self.total_calls += 1
            pe = primitive_effect(n, m)
            if pe:
                self.prims[f.key].append((n, pe[0], pe[1]))
            if types is None:
                types = self.local_types(f)
            tg = self.resolve_callee(n, f, types)
            how = "resolved"
            if tg == ["CHA"]:
                name = n.func.attr  # type: ignore[union-attr]
                tg = [c.methods[name] for c in repo.all_classes() if name in c.methods and not c.module.rel.startswith("@")]
                how = "cha"
                if not tg:
                    self.unresolved += 1
            funcs = [t for t in tg if isinstance(t, Func)]
            self.edges[f.key].append((n, funcs, how))
            for t in funcs:
                self.callers.setdefault(t.key, []).append((f, n, how))

    # -------------------------------------------------------------- queries
    def callees(self, f: Func) -> List[Func]:
        out = []
        for _, fs, _ in self.edges.get(f.key, []):
            for t in fs:
                if t not in out:
                    out.append(t)
        # nested function definitions execute only when called; decorators such as
        # @call_once make them callable later -> treat nested defs as potential callees
        for g in self.repo.funcs.values():
            if g.parent is f and g not in out:
                out.append(g)
        return out

    def reachable(self, roots: List[Func], skip_cha=False) -> Set[str]:
        seen: Set[str] = set()
        stack = list(roots)
        while stack:
            f = stack.pop()
            if f.key in seen:
                continue
            seen.add(f.key)
            for _, fs, how in self.edges.get(f.key, []):
                if skip_cha and how == "cha":
                    continue
                stack.extend(fs)
            for g in self.repo.funcs.values():
                if g.parent is f:
                    stack.append(g)
        return seen

    def call_targets(self, f: Func, c: ast.Call) -> Tuple[List[Func], str]:
        for n, fs, how in self.edges.get(f.key, []):
            if n is c:
                return fs, how
        return [], "none"

    def effects_of(self, f: Func, kinds=("FS_WRITE", "PROC")) -> List[Tuple[Func, ast.Call, str, str]]:
        """Transitive effect primitives reachable from f."""
        out = []
        for k in sorted(self.reachable([f])):
            g = self.repo.funcs[k]
            for c, kind, desc in self.prims.get(k, []):
                if kind in kinds:
                    out.append((g, c, kind, desc))
        return out

    def reaches_effect(self, f: Func, kinds=("FS_WRITE",)) -> bool:
        return bool(self.effects_of(f, kinds))


_cg_cache: Dict[int, CallGraph] = {}


def callgraph(repo: Repo) -> CallGraph:
    if id(repo) not in _cg_cache:
        _cg_cache[id(repo)] = CallGraph(repo)
    return _cg_cache[id(repo)]
