"""Path-sensitive property simulation (ESP style) over the CFG.

Abstract values are small symbolic *tags* (nested tuples), never concrete
values.  The exploration forks only on conditions whose truth is not fixed by
the entry valuation of the tracked predicates; an unknown atom that is
branched on is recorded as a path *assumption* and re-used consistently.
Everything is finite: tags are depth-bounded, effects are a set.
"""
from __future__ import annotations

import ast
import itertools
from typing import Dict, FrozenSet, List, Optional, Tuple

from .cfg import CFG, Node, cfg_of
from .model import AnalysisError, Class, Func, Repo, norm

Tag = tuple

SELF = ("selfobj",)
OLD = ("OLD",)
NEW = ("NEW",)
STATE = ("state",)
UNDEF = ("global", "_sentinels.py", "undefined")
CO_TAG = ("global", "_compare_context.py", "_eq_check_only")
MAX_DEPTH = 3
MAX_TAG_DEPTH = 10

FLAGS = ("create", "fix", "trim", "update")


def tag_depth(t) -> int:
    if not isinstance(t, tuple):
        return 0
    return 1 + max((tag_depth(x) for x in t), default=0)


def clip(t, depth=0):
    """Bound the tag depth; a clipped subtree keeps its identity through a digest,
    so assumptions on distinct deep expressions are never conflated."""
    if not isinstance(t, tuple):
        return t
    if depth >= MAX_TAG_DEPTH:
        if tag_depth(t) <= 1:
            return t
        import hashlib

        return ("deep", hashlib.md5(repr(t).encode()).hexdigest()[:10])
    if tag_depth(t) + depth <= MAX_TAG_DEPTH:
        return t
    return tuple(clip(x, depth + 1) for x in t)


def contains(t, sub) -> bool:
    if t == sub:
        return True
    if isinstance(t, tuple):
        return any(contains(x, sub) for x in t)
    return False


def subtags(t):
    yield t
    if isinstance(t, tuple):
        for x in t:
            yield from subtags(x)


def raw_params(t, inside_clone=False) -> List[str]:
    """Names of parameters occurring in t outside a ('clone', ...) wrapper."""
    out = []
    if isinstance(t, tuple):
        if t and t[0] == "clone":
            return out
        if t and t[0] == "cmp":
            return out  # a comparison result does not alias its operands
        if len(t) == 2 and t[0] == "param":
            return [t[1]]
        for x in t:
            out += raw_params(x)
    return out


class P:
    """Path state (immutable)."""

    __slots__ = ("attrs", "eff", "assume", "_k")

    def __init__(self, attrs=(), eff=frozenset(), assume=()):
        self.attrs = attrs  # tuple of (name, tag) sorted
        self.eff = eff
        self.assume = assume  # tuple of (tag, bool) sorted by repr

    def key(self):
        return (self.attrs, self.eff, self.assume)

    def attr(self, name):
        for k, v in self.attrs:
            if k == name:
                return v
        return None

    def with_attr(self, name, tag):
        d = dict(self.attrs)
        d[name] = tag
        return P(tuple(sorted(d.items(), key=lambda kv: kv[0])), self.eff, self.assume)

    def with_eff(self, *atoms):
        return P(self.attrs, self.eff | frozenset(atoms), self.assume)

    def with_assume(self, tag, val):
        d = dict(self.assume)
        d[tag] = val
        return P(self.attrs, self.eff, tuple(sorted(d.items(), key=lambda kv: repr(kv[0]))))

    def assumed(self, tag):
        for k, v in self.assume:
            if k == tag:
                return v
        return None


class Outcome:
    __slots__ = ("kind", "ret", "p", "trace")

    def __init__(self, kind, ret, p, trace):
        self.kind, self.ret, self.p, self.trace = kind, ret, p, trace

    def __repr__(self):
        return f"<{self.kind} {self.ret} eff={sorted(map(str, self.p.eff))}>"


_inl_cache: Dict[int, bool] = {}


class Engine:
    def __init__(self, repo: Repo, valuation: Dict[str, bool]):
        self.repo = repo
        self.val = valuation  # F.create F.fix F.trim F.update OU NU CO
        self.preds_seen: set = set()
        self.inlined: set = set()
        self.fork_count = 0
        self.f_state = repo.find_func("_global_state.py", "state")
        # the compare-only flag: the module global that compare_context() re-binds
        self.co_tag = CO_TAG
        cc = repo.find_func("_compare_context.py", "compare_context")
        if cc is not None:
            gl = [nm for st in ast.walk(cc.node) if isinstance(st, ast.Global) for nm in st.names]
            if len(gl) == 1:
                self.co_tag = ("global", "_compare_context.py", gl[0])
        self.f_clone = repo.find_func("_snapshot/generic_value.py", "clone")

    # ------------------------------------------------------------ predicates
    def truth(self, t: Tag, p: P) -> Optional[bool]:
        if not isinstance(t, tuple) or not t:
            return None
        k = t[0]
        if k == "const":
            try:
                return bool(t[1])
            except Exception:
                return None
        if k == "not":
            v = self.truth(t[1], p)
            return None if v is None else (not v)
        if k in ("list", "tuple", "dict", "set"):
            return len(t[1]) > 0
        if k == "attr" and t[1] == ("attr", STATE, "update_flags") and t[2] in FLAGS:
            self.preds_seen.add("F." + t[2])
            if self.val["F." + t[2]] is None:
                return p.assumed(t)
            return self.val["F." + t[2]]
        if t == self.co_tag:
            self.preds_seen.add("CO")
            if self.val["CO"] is None:
                return p.assumed(t)
            return self.val["CO"]
        if k == "cmp" and t[1] in ("is", "is not", "==", "!=") and isinstance(t[2], tuple) and isinstance(t[3], tuple) and t[2][:1] == ("const",) and t[3][:1] == ("const",):
            # two literals (a label helper that returned "fix" / None, tested with `flag is None`)
            same = t[2][1] is t[3][1] if t[1] in ("is", "is not") and (t[2][1] is None or t[3][1] is None or isinstance(t[2][1], bool)) else t[2][1] == t[3][1]
            return same if t[1] in ("is", "==") else (not same)
        if k == "cmp" and t[1] in ("is", "is not") and (t[3] == UNDEF or t[2] == UNDEF):
            x = t[2] if t[3] == UNDEF else t[3]
            r = None
            if x == OLD:
                self.preds_seen.add("OU")
                r = self.val["OU"]
                if r is None:
                    return p.assumed(t)
            elif x == NEW:
                self.preds_seen.add("NU")
                r = self.val["NU"]
                if r is None:
                    return p.assumed(t)
            elif x == UNDEF:
                r = True
            elif isinstance(x, tuple) and x and x[0] in ("clone", "list", "dict", "tuple", "new", "attr", "const", "call", "mcall", "listcomp"):
                r = False
            if r is not None:
                return r if t[1] == "is" else (not r)
        a = p.assumed(t)
        return a

    def branch(self, t: Tag, p: P) -> List[Tuple[bool, P]]:
        v = self.truth(t, p)
        if v is not None:
            return [(v, p)]
        if isinstance(t, tuple) and len(t) == 2 and t[0] == "not":
            # `flag = not a == b; if flag:` - the assumption is recorded on the atom, not on its negation
            return [(not tv, q) for tv, q in self.branch(t[1], p)]
        self.fork_count += 1
        return [(True, p.with_assume(t, True)), (False, p.with_assume(t, False))]

    # ------------------------------------------------------------ evaluation
    def ev(self, e: ast.expr, fr: "Frame", p: P) -> List[Tuple[Tag, P]]:
        r = self._ev(e, fr, p)
        return [(clip(t), q) for t, q in r]

    def _ev_list(self, es, fr, p) -> List[Tuple[tuple, P]]:
        res: List[Tuple[tuple, P]] = [((), p)]
        for e in es:
            nxt = []
            for ts, q in res:
                for t, q2 in self.ev(e, fr, q):
                    nxt.append((ts + (t,), q2))
            res = nxt
        return res

    def _ev(self, e, fr: "Frame", p: P):
        rp = self.repo
        if isinstance(e, ast.Constant):
            return [(("const", e.value), p)]
        if isinstance(e, ast.Name):
            if e.id in fr.env:
                return [(fr.env[e.id], p)]
            if e.id in ("True", "False", "None"):
                return [(("const", {"True": True, "False": False, "None": None}[e.id]), p)]
            r = rp.resolve_name(fr.func.module, e.id)
            if r is None:
                # enclosing function scope / builtin
                return [(("name", e.id), p)]
            if r[0] == "global":
                return [(("global", r[1][0].rel, r[1][1]), p)]
            if r[0] == "func":
                return [(("func", r[1].key), p)]
            if r[0] == "class":
                return [(("class", r[1].name), p)]
            if r[0] == "module":
                return [(("module", r[1].rel), p)]
            return [(("ext", r[1]), p)]
        if isinstance(e, ast.Attribute):
            out = []
            for b, q in self.ev(e.value, fr, p):
                if b == SELF:
                    v = q.attr(e.attr)
                    if v is None:
                        v = OLD if e.attr == "_old_value" else NEW if e.attr == "_new_value" else ("self", e.attr)
                    out.append((v, q))
                elif b[0] == "module":
                    m = rp.modules.get(b[1])
                    if m is not None:
                        r = rp.resolve_name(m, e.attr)
                        if r and r[0] == "func":
                            out.append((("func", r[1].key), q))
                            continue
                        if r and r[0] == "class":
                            out.append((("class", r[1].name), q))
                            continue
                        if r and r[0] == "global":
                            out.append((("global", r[1][0].rel, r[1][1]), q))
                            continue
                    out.append((("attr", b, e.attr), q))
                else:
                    out.append((("attr", b, e.attr), q))
            return out
        if isinstance(e, ast.Compare):
            if len(e.ops) != 1:
                out = []
                for ts, q in self._ev_list([e.left] + list(e.comparators), fr, p):
                    out.append((("cmpchain", tuple(type(o).__name__ for o in e.ops), ts), q))
                return out
            opn = {ast.Eq: "==", ast.NotEq: "!=", ast.Lt: "<", ast.LtE: "<=", ast.Gt: ">", ast.GtE: ">=", ast.Is: "is", ast.IsNot: "is not", ast.In: "in", ast.NotIn: "not in"}[type(e.ops[0])]
            out = []
            for (l, r), q in self._ev_list([e.left, e.comparators[0]], fr, p):
                out.append((("cmp", opn, l, r), q))
            return out
        if isinstance(e, ast.BoolOp):
            is_and = isinstance(e.op, ast.And)
            res = []
            pend = [(None, p)]
            for i, v in enumerate(e.values):
                nxt = []
                for _, q in pend:
                    for t, q2 in self.ev(v, fr, q):
                        if i == len(e.values) - 1:
                            res.append((t, q2))
                            continue
                        for tv, q3 in self.branch(t, q2):
                            if tv != is_and:  # short-circuit: value is this operand
                                res.append((t, q3))
                            else:
                                nxt.append((t, q3))
                pend = nxt
            return res
        if isinstance(e, ast.UnaryOp):
            out = []
            for t, q in self.ev(e.operand, fr, p):
                if isinstance(e.op, ast.Not):
                    out.append((("not", t), q))
                else:
                    out.append((("unop", type(e.op).__name__, t), q))
            return out
        if isinstance(e, ast.IfExp):
            out = []
            for t, q in self.ev(e.test, fr, p):
                for tv, q2 in self.branch(t, q):
                    out += self.ev(e.body if tv else e.orelse, fr, q2)
            return out
        if isinstance(e, ast.Call):
            return self._call(e, fr, p)
        if isinstance(e, ast.Subscript):
            out = []
            for (b, i), q in self._ev_list([e.value, e.slice], fr, p):
                out.append((("item", b, i), q))
            return out
        if isinstance(e, (ast.List, ast.Tuple, ast.Set)):
            kind = {ast.List: "list", ast.Tuple: "tuple", ast.Set: "set"}[type(e)]
            return [((kind, ts), q) for ts, q in self._ev_list(e.elts, fr, p)]
        if isinstance(e, ast.Dict):
            ks = [k for k in e.keys if k is not None]
            out = []
            for ts, q in self._ev_list(ks + list(e.values), fr, p):
                out.append((("dict", ts), q))
            return out
        if isinstance(e, (ast.ListComp, ast.SetComp, ast.GeneratorExp, ast.DictComp)):
            env2 = dict(fr.env)
            q = p
            fr2 = Frame(fr.func, fr.cls, env2, fr.depth)
            for g in e.generators:
                its = self.ev(g.iter, fr2, q)
                it, q = its[0]
                self._bind(g.target, ("elem", it), fr2)
            elts = [e.key, e.value] if isinstance(e, ast.DictComp) else [e.elt]
            res = self._ev_list(elts, fr2, q)
            return [(("comp", type(e).__name__, ts), q2) for ts, q2 in res]
        if isinstance(e, ast.NamedExpr):
            out = []
            for t, q in self.ev(e.value, fr, p):
                fr.env[e.target.id] = t
                out.append((t, q))
            return out
        if isinstance(e, ast.Starred):
            return [(("star", t), q) for t, q in self.ev(e.value, fr, p)]
        if isinstance(e, ast.BinOp):
            return [(("binop", type(e.op).__name__, l, r), q) for (l, r), q in self._ev_list([e.left, e.right], fr, p)]
        if isinstance(e, ast.JoinedStr):
            return [(("fstr",), p)]
        if isinstance(e, (ast.Yield, ast.YieldFrom)):
            if e.value is None:
                return [(("yielded",), p.with_eff(("yield", ("const", None))))]
            out = []
            for t, q in self.ev(e.value, fr, p):
                out.append((("yielded", t) if isinstance(e, ast.YieldFrom) else ("sent",), q.with_eff(("yield", t))))
            return out
        if isinstance(e, ast.Lambda):
            return [(("lambda",), p)]
        if isinstance(e, ast.Slice):
            return [(("slice",), p)]
        return [(("other", type(e).__name__), p)]

    def _bind(self, target, tag, fr: "Frame"):
        if isinstance(target, ast.Name):
            fr.env[target.id] = tag
        elif isinstance(target, (ast.Tuple, ast.List)):
            for i, t in enumerate(target.elts):
                if isinstance(tag, tuple) and tag and tag[0] in ("tuple", "list") and i < len(tag[1]):
                    self._bind(t, tag[1][i], fr)
                else:
                    self._bind(t, ("unpack", tag, i), fr)
        elif isinstance(target, ast.Starred):
            self._bind(target.value, ("unpack", tag, "*"), fr)

    # ----------------------------------------------------------------- calls
    def _inlineable(self, f: Func, fr: "Frame") -> bool:
        if f.module.rel.startswith("@") or fr.depth >= MAX_DEPTH:
            return False
        k = id(f.node)
        if k not in _inl_cache:
            _inl_cache[k] = self._inlineable_shape(f)
        return _inl_cache[k]

    def _inlineable_shape(self, f: Func) -> bool:
        if any(isinstance(n, (ast.For, ast.While, ast.Try, ast.With, ast.Yield, ast.YieldFrom)) for n in ast.walk(f.node)):
            return False
        body = [s for s in f.node.body if not (isinstance(s, ast.Expr) and isinstance(s.value, ast.Constant))]
        return len(body) <= 8 and f.node.args.vararg is None and f.node.args.kwarg is None

    def _call(self, e: ast.Call, fr: "Frame", p: P):
        rp = self.repo
        out = []
        argexprs = list(e.args) + [k.value for k in e.keywords]
        kwnames = [k.arg for k in e.keywords]
        # evaluate callee base first (for method calls), then arguments
        if isinstance(e.func, ast.Attribute):
            bases = self.ev(e.func.value, fr, p)
        else:
            bases = [(None, p)]
        for base, q0 in bases:
            for args, q in self._ev_list(argexprs, fr, q0):
                pos = args[: len(e.args)]
                kws = dict(zip(kwnames, args[len(e.args):]))
                target: Optional[Func] = None
                selfcall = False
                name = norm(e.func)
                if isinstance(e.func, ast.Name):
                    ft = self._ev(e.func, fr, q)[0][0]
                    if ft[0] == "func":
                        target = rp.funcs.get(ft[1])
                    elif ft[0] == "class":
                        t = ("new", ft[1], pos, tuple(sorted(kws.items())))
                        out.append((t, q.with_eff(("new", ft[1], pos))))
                        continue
                    elif ft[0] == "name" and e.func.id in fr.env:
                        pass
                elif isinstance(e.func, ast.Attribute):
                    mname = e.func.attr
                    if base == SELF and fr.cls is not None:
                        target = rp.lookup_method(fr.cls, mname)
                        selfcall = target is not None and "staticmethod" not in target.decorators
                    elif base is not None and base[0] == "module":
                        m = rp.modules.get(base[1])
                        r = rp.resolve_name(m, mname) if m else None
                        if r and r[0] == "func":
                            target = r[1]
                    elif base is not None and base[0] == "class":
                        cl = rp.classes.get(base[1], [None])[0]
                        if cl is not None:
                            target = rp.lookup_method(cl, mname)
                            if target is not None and "staticmethod" not in target.decorators and "classmethod" not in target.decorators:
                                # unbound call C.m(self, ...)
                                pass
                    elif base is not None and base[0] == "call" and base[1] == "super":
                        if fr.cls is not None:
                            mro = rp.mro(fr.cls)
                            own = fr.func.cls
                            idx = mro.index(own) if own in mro else 0
                            for k in mro[idx + 1:]:
                                if mname in k.methods:
                                    target = k.methods[mname]
                                    selfcall = True
                                    break
                if target is not None and self.f_state is not None and target.key == self.f_state.key:
                    out.append((STATE, q))
                    continue
                if target is not None and self.f_clone is not None and target.key == self.f_clone.key and pos:
                    out.append((("clone", pos[0]), q.with_eff(("clone", pos[0]))))
                    continue
                if target is not None and self._inlineable(target, fr):
                    params = list(target.params)
                    bind: Dict[str, Tag] = {}
                    if selfcall or (target.cls is not None and "classmethod" in target.decorators):
                        if params:
                            bind[params[0]] = SELF if selfcall else ("class", target.cls.name)
                            params = params[1:]
                    for nm, t in zip(params, pos):
                        bind[nm] = t
                    for nm, t in kws.items():
                        bind[nm] = t
                    # defaults
                    a = target.node.args
                    defaults = dict(zip([x.arg for x in (a.posonlyargs + a.args)][-len(a.defaults):] if a.defaults else [], a.defaults))
                    for x, d in zip(a.kwonlyargs, a.kw_defaults):
                        if d is not None:
                            defaults[x.arg] = d
                    for nm in params:
                        if nm not in bind and nm in defaults:
                            dv = defaults[nm]
                            bind[nm] = ("const", dv.value) if isinstance(dv, ast.Constant) else ("default", norm(dv))
                    self.inlined.add(target.key)
                    sub = self.run(target, fr.cls if selfcall else target.cls, bind, q, fr.depth + 1)
                    for o in sub:
                        if o.kind == "ret":
                            out.append((o.ret, o.p))
                        else:
                            fr.raised.append((o.ret, o.p))
                    continue
                # not inlined: symbolic call + effect
                if isinstance(e.func, ast.Attribute):
                    mname = e.func.attr
                    t = ("mcall", base, mname, pos, tuple(sorted(kws.items())))
                    q = q.with_eff(("mcall", base, mname, pos, tuple(sorted(kws.items()))))
                    if target is not None:
                        q = q.with_eff(("callee", target.key))
                    out.append((t, q))
                else:
                    t = ("call", name, pos, tuple(sorted(kws.items())))
                    q = q.with_eff(("call", name, pos))
                    if target is not None:
                        q = q.with_eff(("callee", target.key))
                    out.append((t, q))
        return out

    # ------------------------------------------------------------------ walk
    def run(self, func: Func, cls: Optional[Class], bind: Dict[str, Tag], p0: P, depth=0) -> List[Outcome]:
        cfg = cfg_of(func)
        outcomes: Dict[tuple, Outcome] = {}
        seen = set()
        env0 = dict(bind)
        work = [(cfg.entry, env0, p0, None, ())]
        steps = 0
        while work:
            node, env, p, retv, trace = work.pop()
            key = (node.id, tuple(sorted(env.items(), key=lambda kv: kv[0])), p.key(), retv)
            if key in seen:
                continue
            seen.add(key)
            steps += 1
            if steps > 20000:
                raise AnalysisError(f"ESP: state explosion in {func.key}")
            if node is cfg.ret:
                o = Outcome("ret", retv if retv is not None else ("const", None), p, trace)
                outcomes[(o.kind, o.ret, p.key())] = o
                continue
            if node is cfg.exc:
                o = Outcome("exc", retv if retv is not None else ("exc",), p, trace)
                outcomes[(o.kind, o.ret, p.key())] = o
                continue
            fr = Frame(func, cls, dict(env), depth)
            succ_plain = [(b, l) for b, l in node.succ if l != "exc"]
            succ_exc = [b for b, l in node.succ if l == "exc"]

            def go(b, fr_env, q, rv=retv, note=None):
                work.append((b, dict(fr_env), q, rv, trace + ((note,) if note else ())))

            def raise_to(q, t):
                if succ_exc:
                    for b in succ_exc:
                        go(b, fr.env, q, t)
                else:
                    o = Outcome("exc", t, q, trace)
                    outcomes[(o.kind, o.ret, q.key())] = o

            if node.kind in ("entry", "join"):
                for b, l in node.succ:
                    go(b, fr.env, p)
                continue
            if node.kind == "handler":
                if node.ast.name:
                    fr.env[node.ast.name] = ("excvar", norm(node.ast.type) if node.ast.type else "")
                for b, l in succ_plain:
                    go(b, fr.env, p, None)
                continue
            if node.kind == "assertfail":
                raise_to(p, ("AssertionError",))
                continue
            if node.kind == "cond":
                for t, q in self.ev(node.ast, fr, p):
                    for tv, q2 in self.branch(t, q):
                        lab = "T" if tv else "F"
                        for b, l in succ_plain:
                            if l == lab:
                                go(b, fr.env, q2, note=f"L{node.line} {node.text()[:50]} -> {lab}")
                for et, eq in fr.raised:
                    raise_to(eq, et)
                continue
            if node.kind == "for":
                for t, q in self.ev(node.ast.iter, fr, p):
                    for b, l in succ_plain:
                        if l == "iter":
                            fr2 = Frame(func, cls, dict(fr.env), depth)
                            self._bind(node.ast.target, ("elem", t), fr2)
                            go(b, fr2.env, q)
                        else:
                            go(b, fr.env, q)
                for et, eq in fr.raised:
                    raise_to(eq, et)
                continue
            if node.kind == "with":
                q = p
                results = [(fr.env, q)]
                for item in node.ast.items:
                    nxt = []
                    for env_i, q_i in results:
                        fr_i = Frame(func, cls, dict(env_i), depth)
                        for t, q2 in self.ev(item.context_expr, fr_i, q_i):
                            if item.optional_vars is not None:
                                self._bind(item.optional_vars, ("with", t), fr_i)
                            nxt.append((dict(fr_i.env), q2.with_eff(("with", t))))
                    results = nxt
                for env_i, q_i in results:
                    for b, l in succ_plain:
                        go(b, env_i, q_i)
                continue
            # plain statements
            st = node.ast
            posts: List[Tuple[dict, P, Optional[Tag]]] = []
            if isinstance(st, ast.Return):
                if st.value is None:
                    posts = [(fr.env, p, ("const", None))]
                else:
                    posts = [(fr.env, q, t) for t, q in self.ev(st.value, fr, p)]
                for env_i, q, t in posts:
                    for b, l in succ_plain:
                        go(b, env_i, q, t)
                for et, eq in fr.raised:
                    raise_to(eq, et)
                continue
            if isinstance(st, ast.Raise):
                if st.exc is not None:
                    for t, q in self.ev(st.exc, fr, p):
                        raise_to(q, ("raise", t))
                else:
                    raise_to(p, ("reraise",))
                continue
            if isinstance(st, ast.Assign) and len(st.targets) == 1 and isinstance(st.targets[0], ast.Attribute) and isinstance(st.value, ast.BinOp) and norm(st.value.left) == norm(st.targets[0]) and self.ev(st.targets[0].value, fr, p)[0][0] == STATE:
                # `s.counter = s.counter + 1` is the augmented assignment written out
                for t, q in self.ev(st.value.right, fr, p):
                    posts.append((fr.env, q.with_eff(("inc", st.targets[0].attr, type(st.value.op).__name__, t)), None))
            elif isinstance(st, ast.Assign):
                for t, q in self.ev(st.value, fr, p):
                    fr_i = Frame(func, cls, dict(fr.env), depth)
                    for tg in st.targets:
                        q = self._assign(tg, t, fr_i, q)
                    posts.append((fr_i.env, q, None))
            elif isinstance(st, ast.AnnAssign):
                if st.value is not None:
                    for t, q in self.ev(st.value, fr, p):
                        fr_i = Frame(func, cls, dict(fr.env), depth)
                        q = self._assign(st.target, t, fr_i, q)
                        posts.append((fr_i.env, q, None))
                else:
                    posts = [(fr.env, p, None)]
            elif isinstance(st, ast.AugAssign):
                for t, q in self.ev(st.value, fr, p):
                    fr_i = Frame(func, cls, dict(fr.env), depth)
                    for tt, q2 in self.ev(st.target, fr_i, q):
                        q3 = self._aug(st, tt, t, fr_i, q2)
                        posts.append((fr_i.env, q3, None))
            elif isinstance(st, ast.Expr):
                for t, q in self.ev(st.value, fr, p):
                    posts.append((fr.env, q, None))
            elif isinstance(st, (ast.FunctionDef, ast.AsyncFunctionDef)):
                fr.env[st.name] = ("localfunc", st.name)
                posts = [(fr.env, p, None)]
            else:
                posts = [(fr.env, p, None)]
            for env_i, q, _ in posts:
                for b, l in succ_plain:
                    go(b, env_i, q)
                for b in succ_exc:
                    go(b, env_i, q, ("exc-in-try",))
            for et, eq in fr.raised:
                raise_to(eq, et)
        return list(outcomes.values())

    def _assign(self, tg, t, fr: "Frame", q: P) -> P:
        if isinstance(tg, ast.Name):
            fr.env[tg.id] = t
            if tg.id in fr.globals_declared:
                q = q.with_eff(("gstore", tg.id, t))
            return q
        if isinstance(tg, (ast.Tuple, ast.List)):
            self._bind(tg, t, fr)
            return q
        if isinstance(tg, ast.Attribute):
            bs = self.ev(tg.value, fr, q)
            b, q = bs[0]
            if b == SELF:
                return q.with_attr(tg.attr, t).with_eff(("store", tg.attr, t))
            return q.with_eff(("attrstore", b, tg.attr, t))
        if isinstance(tg, ast.Subscript):
            (b, i), q = self._ev_list([tg.value, tg.slice], fr, q)[0]
            return q.with_eff(("setitem", b, i, t))
        return q

    def _aug(self, st: ast.AugAssign, cur: Tag, val: Tag, fr: "Frame", q: P) -> P:
        tg = st.target
        opn = type(st.op).__name__
        if isinstance(tg, ast.Name):
            fr.env[tg.id] = ("binop", opn, cur, val)
            return q
        if isinstance(tg, ast.Attribute):
            b, q = self.ev(tg.value, fr, q)[0]
            if b == STATE:
                return q.with_eff(("inc", tg.attr, opn, val))
            if b == SELF:
                return q.with_attr(tg.attr, ("binop", opn, cur, val)).with_eff(("store", tg.attr, ("binop", opn, cur, val)))
            return q.with_eff(("attraug", b, tg.attr, opn, val))
        return q.with_eff(("aug", norm(tg)))


_globals_cache: Dict[int, frozenset] = {}


def _globals_declared(func: Func) -> frozenset:
    k = id(func.node)
    if k not in _globals_cache:
        _globals_cache[k] = frozenset(n for s in ast.walk(func.node) if isinstance(s, ast.Global) for n in s.names)
    return _globals_cache[k]


class Frame:
    def __init__(self, func: Func, cls: Optional[Class], env: Dict[str, Tag], depth: int):
        self.func = func
        self.cls = cls
        self.env = env
        self.depth = depth
        self.raised: List[Tuple[Tag, P]] = []
        self.globals_declared = _globals_declared(func)


def valuations():
    names = ["F.create", "F.fix", "F.trim", "F.update", "OU", "NU", "CO"]
    for bits in itertools.product([False, True], repeat=len(names)):
        yield dict(zip(names, bits))


UNKNOWN = {"F.create": None, "F.fix": None, "F.trim": None, "F.update": None, "OU": None, "NU": None, "CO": None}
"""Valuation that fixes nothing: every tracked predicate is forked on (and recorded
as a path assumption) - used for functions outside the operation methods."""


def val_str(v: Dict[str, bool]) -> str:
    fl = ",".join(k[2:] for k in ("F.create", "F.fix", "F.trim", "F.update") if v[k]) or "-"
    return f"flags={{{fl}}} OU={int(v['OU'])} NU={int(v['NU'])} CO={int(v['CO'])}"


def run_method(repo: Repo, func: Func, cls: Class, valuation: Dict[str, bool]) -> Tuple[List[Outcome], Engine]:
    eng = Engine(repo, valuation)
    params = func.params
    bind: Dict[str, Tag] = {}
    if params:
        bind[params[0]] = SELF
        for nm in params[1:]:
            bind[nm] = ("param", nm)
    outs = eng.run(func, cls, bind, P())
    return outs, eng


def run_function(repo: Repo, func: Func, valuation: Dict[str, bool], bind: Optional[Dict[str, Tag]] = None, cls=None) -> Tuple[List[Outcome], Engine]:
    eng = Engine(repo, valuation)
    b = {nm: ("param", nm) for nm in func.params}
    if bind:
        b.update(bind)
    outs = eng.run(func, cls, b, P())
    return outs, eng
