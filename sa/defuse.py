"""Reaching definitions of local names on the CFG, copy propagation helpers."""
from __future__ import annotations

import ast
from typing import Dict, List, Optional, Set, Tuple

from .cfg import CFG, Node, own_exprs, reach
from .model import norm


def _targets(t) -> List[str]:
    if isinstance(t, ast.Name):
        return [t.id]
    if isinstance(t, (ast.Tuple, ast.List)):
        return [x for e in t.elts for x in _targets(e)]
    if isinstance(t, ast.Starred):
        return _targets(t.value)
    return []


def node_defs(n: Node) -> List[str]:
    """Local names (re)bound by this CFG node."""
    a = n.ast
    out: List[str] = []
    if n.kind == "stmt":
        if isinstance(a, ast.Assign):
            for t in a.targets:
                out += _targets(t)
        elif isinstance(a, (ast.AugAssign, ast.AnnAssign)):
            out += _targets(a.target)
        elif isinstance(a, (ast.FunctionDef, ast.AsyncFunctionDef, ast.ClassDef)):
            out.append(a.name)
        elif isinstance(a, (ast.Import, ast.ImportFrom)):
            out += [(x.asname or x.name).split(".")[0] for x in a.names]
    elif n.kind == "for":
        out += _targets(a.target)
    elif n.kind == "with":
        for it in a.items:
            if it.optional_vars is not None:
                out += _targets(it.optional_vars)
    elif n.kind == "handler":
        if a.name:
            out.append(a.name)
    # walrus anywhere in the node's own expressions
    for r in own_exprs(n):
        for x in ast.walk(r):
            if isinstance(x, ast.NamedExpr) and isinstance(x.target, ast.Name):
                out.append(x.target.id)
    return out


def defs_of(cfg: CFG, name: str) -> List[Node]:
    return [n for n in cfg.live if name in node_defs(n)]


def correlated_edges(cfg: CFG, use: Node):
    """Edges that cannot be on a path to `use`: `use` is dominated by edge (C, L) of a
    condition with text X; another condition C2 with the same text, evaluated earlier
    with no redefinition of X's variables in between, must have taken L too."""
    from .cfg import dominating_edges

    out = []
    for c, l in dominating_edges(cfg, use):
        if c.kind != "cond" or l not in ("T", "F"):
            continue
        txt = norm(c.ast)
        nms = names_in(c.ast)
        if any(isinstance(x, ast.Call) for x in ast.walk(c.ast)):
            continue  # only pure tests over locals
        for c2 in cfg.conds():
            if c2 is c or norm(c2.ast) != txt:
                continue
            between = reach(cfg, [b for b, _ in c2.succ])
            if c not in between:
                continue
            attrs = {x.attr for x in ast.walk(c.ast) if isinstance(x, ast.Attribute)}

            def stores_attr(n2):
                if n2.kind != "stmt" or not isinstance(n2.ast, (ast.Assign, ast.AugAssign, ast.AnnAssign)):
                    return False
                tg = n2.ast.targets if isinstance(n2.ast, ast.Assign) else [n2.ast.target]
                return any(isinstance(t, ast.Attribute) and t.attr in attrs for t in tg)

            redefined = any(n2 in between and c in reach(cfg, [n2]) and ((set(node_defs(n2)) & nms) or stores_attr(n2)) for n2 in cfg.live)
            if not redefined:
                out.append((c2, "F" if l == "T" else "T"))
    return out


def reaching_defs(cfg: CFG, use: Node, name: str, correlate: bool = False) -> List[Node]:
    """Definitions of `name` that reach `use` (a def at `use` itself does not count).
    With correlate=True, paths that contradict a condition dominating `use` are ignored."""
    ds = defs_of(cfg, name)
    be = correlated_edges(cfg, use) if correlate else []
    out = []
    for d in ds:
        others = [x for x in ds if x is not d]
        starts = [b for b, _ in d.succ]
        r = reach(cfg, starts, blocked_nodes=[x for x in others if x is not use], blocked_edges=be)
        if use in r or (use in starts):
            out.append(d)
    return out


def def_value(n: Node, name: str) -> Optional[ast.AST]:
    """The expression assigned to `name` by def node n (None if not a plain binding)."""
    a = n.ast
    if n.kind == "stmt" and isinstance(a, ast.Assign):
        for t in a.targets:
            if isinstance(t, ast.Name) and t.id == name:
                return a.value
    if n.kind == "stmt" and isinstance(a, ast.AnnAssign) and isinstance(a.target, ast.Name) and a.target.id == name:
        return a.value
    for r in own_exprs(n):
        for x in ast.walk(r):
            if isinstance(x, ast.NamedExpr) and isinstance(x.target, ast.Name) and x.target.id == name:
                return x.value
    if n.kind == "with":
        for it in a.items:
            if isinstance(it.optional_vars, ast.Name) and it.optional_vars.id == name:
                return it.context_expr
    return None


def names_in(e: ast.AST) -> Set[str]:
    return {x.id for x in ast.walk(e) if isinstance(x, ast.Name)}


def resolve_alias(cfg: CFG, use: Node, e: ast.AST, depth=4) -> ast.AST:
    """Follow `x = <expr>` single reaching definitions of a Name."""
    while depth > 0 and isinstance(e, ast.Name):
        ds = reaching_defs(cfg, use, e.id)
        if len(ds) != 1:
            break
        v = def_value(ds[0], e.id)
        if v is None:
            break
        e, use = v, ds[0]
        depth -= 1
    return e


def derives_from(cfg: CFG, use: Node, e: ast.AST, pred, depth=5, _seen=None) -> bool:
    """Does expression e (transitively through local definitions) contain a sub
    expression for which pred(ast node) holds?"""
    if _seen is None:
        _seen = set()
    for x in ast.walk(e):
        if pred(x):
            return True
    if depth == 0:
        return False
    for nm in names_in(e):
        for d in reaching_defs(cfg, use, nm):
            if (d.id, nm) in _seen:
                continue
            _seen.add((d.id, nm))
            v = def_value(d, nm)
            if v is None and d.kind == "for":
                v = d.ast.iter
            if v is None and d.kind == "stmt" and isinstance(d.ast, ast.AugAssign):
                v = d.ast.value
            if v is not None and derives_from(cfg, d, v, pred, depth - 1, _seen):
                return True
    return False
