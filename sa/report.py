"""Verdict collection, known-findings matching, evidence and replay files."""
from __future__ import annotations

import json
import os
import shutil
import time
from typing import Any, Dict, List, Optional

from .model import AnalysisError, Func, Module, PKG, norm, short

VERIF = os.path.dirname(os.path.dirname(os.path.abspath(__file__)))


class Obligation:
    def __init__(self, rule, site, verdict, witness, key=None, line=0, what=""):
        self.rule, self.site, self.verdict, self.witness = rule, site, verdict, witness
        self.key, self.line, self.what = key, line, what

    def as_json(self):
        d = {"rule": self.rule, "site": self.site, "verdict": self.verdict}
        if self.witness:
            d["witness"] = self.witness
        if self.key:
            d["key"] = self.key
        if self.what:
            d["what"] = self.what
        return d


def _rel(m: Module) -> str:
    return m.rel[1:] if m.rel.startswith("@") else m.rel


def make_key(rule: str, where, construct) -> str:
    """rule | file | qualname | normalised construct text  (no line numbers)."""
    if isinstance(where, Func):
        f, q = _rel(where.module), where.qualname
    elif isinstance(where, Module):
        f, q = _rel(where), "<module>"
    else:
        f, q = str(where), ""
    c = construct if isinstance(construct, str) else " ".join(norm(construct).split())
    if len(c) > 160:
        c = c[:160]
    return f"{rule}|{f}|{q}|{c}"


class Report:
    def __init__(self, prop: str, tier: str, repo_root: str, evidence_dir: Optional[str] = None):
        self.prop, self.tier, self.repo_root = prop, tier, repo_root
        self.obl: List[Obligation] = []
        self.undecided_msgs: List[str] = []
        self.rules: Dict[str, str] = {}
        self.analysed: Dict[str, Any] = {}
        self.floors: Dict[str, Dict[str, int]] = {}
        self.assumptions: List[str] = []
        self.extra: Dict[str, Any] = {}
        self.t0 = time.time()
        self.evidence_dir = evidence_dir or os.path.join(VERIF, "evidence")
        self.exhaustive = True
        self.not_decided = ""
        self.floor_misses: List[tuple] = []

    # ------------------------------------------------------------ recording
    def rule(self, rid: str, text: str):
        self.rules[rid] = " ".join(text.split())

    def ok(self, rule: str, where, node=None, witness: str = "", site: Optional[str] = None):
        self.obl.append(Obligation(rule, site or self._site(where, node), "ok", witness, line=getattr(node, "lineno", 0)))

    def violation(self, rule: str, where, node, what: str, witness: Any = "", construct=None):
        key = make_key(rule, where, construct if construct is not None else node)
        site = self._site(where, node)
        if isinstance(witness, (list, tuple)):
            witness = " ; ".join(str(w) for w in witness)
        for o in self.obl:
            if o.verdict == "violation" and o.key == key:
                # same construct, further witness (e.g. another valuation): merge
                if witness and witness not in o.witness and len(o.witness) < 1500:
                    o.witness += " || " + witness
                return
        self.obl.append(Obligation(rule, site, "violation", witness, key=key, line=getattr(node, "lineno", 0), what=what))

    def undecided(self, rule: str, msg: str):
        self.undecided_msgs.append(f"{rule}: {msg}")

    def floor(self, rule: str, what: str, count: int, minimum: int):
        self.floors.setdefault(rule, {})[what] = count
        if count < minimum:
            self.floor_misses.append((rule, f"instance floor: found {count} {what}, expected at least {minimum} (anchor vanished or idiom not recognised)"))

    def count(self, name: str, n):
        self.analysed[name] = self.analysed.get(name, 0) + n if isinstance(n, int) else n

    def _site(self, where, node) -> str:
        if isinstance(where, Func):
            return f"{PKG}/{_rel(where.module)}:{getattr(node, 'lineno', where.node.lineno)} {where.qualname}" if not where.module.rel.startswith("@") else f"{_rel(where.module)}:{getattr(node, 'lineno', 0)} {where.qualname}"
        if isinstance(where, Module):
            return f"{PKG}/{_rel(where)}:{getattr(node, 'lineno', 0)}"
        return str(where)

    def has_fresh_violation(self) -> bool:
        known, _ = load_known()
        ks = {(k["property"], k["key"]) for k in known}
        return any(o.verdict == "violation" and (self.prop, o.key) not in ks for o in self.obl)

    def preview(self) -> int:
        """the exit status finish() would give, without printing or writing anything"""
        known, _ = load_known()
        ks = {(k["property"], k["key"]) for k in known}
        fresh = [o for o in self.obl if o.verdict == "violation" and (self.prop, o.key) not in ks]
        if self.undecided_msgs or (self.floor_misses and not fresh):
            return 2
        return 1 if fresh else 0

    # ------------------------------------------------------------ finishing
    def finish(self, selftest: Optional[dict] = None) -> int:
        known, fixed = load_known()
        viol = [o for o in self.obl if o.verdict == "violation"]
        matched, fresh = [], []
        kmap = {(k["property"], k["key"]): k for k in known}
        for o in viol:
            k = kmap.get((self.prop, o.key))
            if k is not None:
                matched.append((o, k))
            else:
                fresh.append(o)
        for rule, msg in self.floor_misses:
            # a missing instance that is itself reported as a (new) violation is explained; otherwise the rule
            # lost its anchor.  Violations that are listed as known findings explain nothing: they are there on
            # every run, so a floor missed beside them must still make the run UNDECIDED
            if not fresh:
                self.undecided(rule, msg)
            elif not any(o.rule == rule for o in fresh):
                self.extra.setdefault("floor_misses_beside_violations", []).append(f"{rule}: {msg}")
        vdir = os.path.join(self.evidence_dir, f"{self.prop}.violations")
        if os.path.isdir(vdir):
            shutil.rmtree(vdir)
        lines = []
        for o, k in matched:
            lines.append(f"KNOWN-FINDING: property={self.prop} {k['what']} [{o.rule} at {o.site}]")
        if self.undecided_msgs:
            for m in self.undecided_msgs:
                lines.append(f"ANALYSIS-ERROR property={self.prop} UNDECIDED {m}")
        replay_paths = []
        if fresh and not self.undecided_msgs:
            os.makedirs(vdir, exist_ok=True)
            for i, o in enumerate(fresh):
                pth = os.path.join(vdir, f"{i}.json")
                with open(pth, "w") as fh:
                    json.dump(
                        {"property": self.prop, "rule": o.rule, "key": o.key, "site": o.site, "what": o.what, "witness": o.witness, "rule_text": self.rules.get(o.rule, ""), "repo": self.repo_root},
                        fh,
                        indent=1,
                    )
                replay_paths.append(pth)
                lines.append(f"{o.site} -- {o.rule} -- {o.what}" + (f" -- witness: {o.witness[:400]}" if o.witness else ""))
                lines.append(f"VIOLATION property={self.prop} replay={pth}")
        elif fresh:
            # undecided run: report what was seen, but not as a verdict
            for o in fresh:
                lines.append(f"(unverdicted while UNDECIDED) {o.site} -- {o.rule} -- {o.what}")
        for ln in lines:
            print(ln)
        n_ok = sum(1 for o in self.obl if o.verdict == "ok")
        distinct = len({(o.rule, o.site) for o in self.obl})
        samples = [o.as_json() for o in viol[:6]] + [o.as_json() for o in self.obl if o.verdict == "ok"][:14]
        cov = {
            "explanation": "Static analysis of /repo's current source (parsed on this run; nothing executed). Rules: "
            + " | ".join(f"{k}: {v}" for k, v in self.rules.items())
            + (" || NOT decided (value-level behaviour): " + self.not_decided if self.not_decided else ""),
            "obligations": len(self.obl),
            "discharged": n_ok + len(matched),
            "evaluations": len(self.obl) + int(self.analysed.get("valuations", 0)),
            "distinct_nontrivial": distinct,
            "rule": "one obligation per (rule, construct) discovered in the source; distinct = distinct (rule, site) pairs; every construct carries at least one proof obligation, so all are non-trivial",
            "samples": samples,
            "exhaustive": self.exhaustive and not self.undecided_msgs,
            "analysed": self.analysed,
            "instance_floor": self.floors,
            "known_findings_matched": [k["key"] for _, k in matched],
            "fixed_findings_on_record": [k["key"] for k in fixed if k["property"] == self.prop],
            "undecided": self.undecided_msgs,
            "checker_cmd": f"/venv/bin/python checks/run.py --property {self.prop} --tier {self.tier}",
            "trusted_base": ["CPython ast", "sa/ analysis library", "library contracts A2/A3 in DESIGN.md section 5"],
        }
        cov.update(self.extra)
        if selftest is not None:
            cov["selftest"] = selftest
        ev = {
            "property_id": self.prop,
            "tier": self.tier,
            "seed": int(os.environ.get("VERIF_SEED", "0") or 0),
            "level": "other",
            "coverage": cov,
            "assumptions": self.assumptions
            or ["A1 ast parses the package as the interpreter does", "A6 assert statements execute (no -O)"],
            "wall_s": round(time.time() - self.t0, 3),
            "violations": len(fresh),
        }
        os.makedirs(self.evidence_dir, exist_ok=True)
        with open(os.path.join(self.evidence_dir, f"{self.prop}.json"), "w") as fh:
            json.dump(ev, fh, indent=1, default=str)
        status = 2 if self.undecided_msgs else (1 if fresh else 0)
        print(
            f"[{self.prop}/{self.tier}] obligations={len(self.obl)} ok={n_ok} known={len(matched)} new_violations={len(fresh)} undecided={len(self.undecided_msgs)} "
            f"analysed={json.dumps(self.analysed, default=str)} wall={ev['wall_s']}s -> exit {status}"
        )
        return status


def load_known():
    p = os.path.join(VERIF, "known_findings.json")
    if not os.path.exists(p):
        return [], []
    with open(p) as fh:
        d = json.load(fh)
    return d.get("known", []), d.get("fixed", [])
