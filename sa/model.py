"""Source model of the analysed package: modules, imports, classes, MRO, functions.

Pure `ast`; nothing of the analysed repository is imported or executed.
"""
from __future__ import annotations

import ast
import os
from dataclasses import dataclass, field
from typing import Dict, Iterator, List, Optional, Tuple


class AnalysisError(Exception):
    """The analysis cannot decide (anchor vanished, idiom unknown, ...): exit 2."""


PKG = "src/inline_snapshot"


def norm(node) -> str:
    """Whitespace/quote-normalised text of an AST node (used in finding keys)."""
    if node is None:
        return ""
    if isinstance(node, str):
        return node
    try:
        return ast.unparse(node)
    except Exception:  # pragma: no cover
        return ast.dump(node)


def short(node, n=90) -> str:
    s = " ".join(norm(node).split())
    return s if len(s) <= n else s[: n - 3] + "..."


@dataclass
class Module:
    rel: str  # path relative to the package dir, e.g. "_snapshot/eq_value.py"
    path: str
    dotted: str  # inline_snapshot._snapshot.eq_value
    tree: ast.Module
    source: str
    imports: Dict[str, Tuple[str, Optional[str]]] = field(default_factory=dict)
    # local name -> (dotted module, attribute or None)
    funcs: Dict[str, "Func"] = field(default_factory=dict)  # qualname -> Func
    classes: Dict[str, "Class"] = field(default_factory=dict)
    globals_assigned: Dict[str, List[ast.AST]] = field(default_factory=dict)


@dataclass
class Class:
    name: str
    module: Module
    node: ast.ClassDef
    base_exprs: List[ast.expr]
    methods: Dict[str, "Func"] = field(default_factory=dict)
    attrs: Dict[str, ast.AST] = field(default_factory=dict)  # class-level assignments (value node)
    ann: Dict[str, ast.expr] = field(default_factory=dict)  # class-level annotations
    bases: List["Class"] = field(default_factory=list)

    @property
    def key(self):
        return f"{self.module.rel}::{self.name}"

    def __hash__(self):
        return hash(self.key)

    def __eq__(self, o):
        return isinstance(o, Class) and o.key == self.key


@dataclass
class Func:
    name: str
    qualname: str  # Class.meth / outer.inner / func
    module: Module
    node: ast.FunctionDef
    cls: Optional[Class] = None
    parent: Optional["Func"] = None
    decorators: List[str] = field(default_factory=list)

    @property
    def key(self):
        return f"{self.module.rel}::{self.qualname}"

    @property
    def params(self) -> List[str]:
        a = self.node.args
        return [x.arg for x in a.posonlyargs + a.args] + (
            [a.vararg.arg] if a.vararg else []
        ) + [x.arg for x in a.kwonlyargs] + ([a.kwarg.arg] if a.kwarg else [])

    def is_method(self):
        return self.cls is not None and "staticmethod" not in self.decorators

    def __hash__(self):
        return hash(self.key)

    def __eq__(self, o):
        return isinstance(o, Func) and o.key == self.key

    def __repr__(self):
        return f"<Func {self.key}>"


def _dec_name(d: ast.expr) -> str:
    if isinstance(d, ast.Call):
        d = d.func
    return norm(d)


def set_parents(tree: ast.AST):
    for n in ast.walk(tree):
        for c in ast.iter_child_nodes(n):
            c._parent = n  # type: ignore[attr-defined]
    tree._parent = None  # type: ignore[attr-defined]


def parent(n):
    return getattr(n, "_parent", None)


def ancestors(n) -> Iterator[ast.AST]:
    n = parent(n)
    while n is not None:
        yield n
        n = parent(n)


def enclosing_stmt(n):
    while n is not None and not isinstance(n, ast.stmt):
        n = parent(n)
    return n


class Repo:
    def __init__(self, root: str, extra_files: Tuple[str, ...] = (), inline: bool = False):
        """inline=True: the second representation of the program - private helpers put back at their call sites (sa/inline.py)"""
        self.inline = inline
        self.inlined: List[str] = []
        self._repo0 = Repo(root, extra_files) if inline else None
        self.root = os.path.abspath(root)
        self.pkgdir = os.path.join(self.root, PKG)
        if not os.path.isdir(self.pkgdir):
            raise AnalysisError(f"package directory not found: {self.pkgdir}")
        self.modules: Dict[str, Module] = {}
        self.by_dotted: Dict[str, Module] = {}
        for dirpath, dirnames, filenames in os.walk(self.pkgdir):
            dirnames[:] = sorted(d for d in dirnames if d != "__pycache__")
            for fn in sorted(filenames):
                if fn.endswith(".py"):
                    self._load(os.path.join(dirpath, fn))
        for rel in extra_files:
            p = os.path.join(self.root, rel)
            if os.path.exists(p):
                self._load(p, rel_override="@" + rel, dotted_override=rel[:-3].replace("/", "."))
        for m in self.modules.values():
            self._index(m)
        for m in self.modules.values():
            for c in m.classes.values():
                c.bases = [b for b in (self.resolve_class(m, e) for e in c.base_exprs) if b]
        self.classes: Dict[str, List[Class]] = {}
        for m in self.modules.values():
            for c in m.classes.values():
                self.classes.setdefault(c.name, []).append(c)
        self.funcs: Dict[str, Func] = {}
        for m in self.modules.values():
            for f in m.funcs.values():
                self.funcs[f.key] = f

    # ------------------------------------------------------------------ load
    def _load(self, path, rel_override=None, dotted_override=None):
        rel = rel_override or os.path.relpath(path, self.pkgdir)
        with open(path, encoding="utf-8") as fh:
            src = fh.read()
        try:
            tree = ast.parse(src, filename=path)
        except SyntaxError as e:
            raise AnalysisError(f"syntax error in {path}: {e}")
        if self._repo0 is not None and rel_override is None:
            from .inline import inline_tree

            rel_ = rel.replace(os.sep, "/")
            m0 = self._repo0.modules.get(rel_)
            if m0 is not None:
                tree, done = inline_tree(self._repo0, m0)
                self.inlined.extend(done)
        set_parents(tree)
        if dotted_override:
            dotted = dotted_override
        else:
            dotted = "inline_snapshot." + rel[:-3].replace(os.sep, ".")
            if dotted.endswith(".__init__"):
                dotted = dotted[: -len(".__init__")]
        m = Module(rel=rel.replace(os.sep, "/"), path=path, dotted=dotted, tree=tree, source=src)
        self.modules[m.rel] = m
        self.by_dotted[dotted] = m

    def _index(self, m: Module):
        pkg_parts = m.dotted.split(".")
        is_init = m.path.endswith("__init__.py")

        def abs_module(level, module):
            if level == 0:
                return module or ""
            base = pkg_parts if is_init else pkg_parts[:-1]
            if level > 1:
                base = base[: -(level - 1)]
            return ".".join(base + ([module] if module else []))

        for n in ast.walk(m.tree):
            if isinstance(n, ast.Import):
                for a in n.names:
                    m.imports[(a.asname or a.name.split(".")[0])] = (
                        a.name if a.asname else a.name.split(".")[0],
                        None,
                    )
            elif isinstance(n, ast.ImportFrom):
                mod = abs_module(n.level, n.module)
                for a in n.names:
                    m.imports[a.asname or a.name] = (mod, a.name)

        def visit(body, cls: Optional[Class], pf: Optional[Func], prefix: str):
            for st in body:
                if isinstance(st, (ast.FunctionDef, ast.AsyncFunctionDef)):
                    q = prefix + st.name
                    f = Func(
                        name=st.name,
                        qualname=q,
                        module=m,
                        node=st,
                        cls=cls,
                        parent=pf,
                        decorators=[_dec_name(d) for d in st.decorator_list],
                    )
                    # keep the first definition under its name, later same-name
                    # definitions (singledispatch `_`) get a numeric suffix
                    k = q
                    i = 1
                    while k in m.funcs:
                        i += 1
                        k = f"{q}#{i}"
                    f.qualname = k
                    m.funcs[k] = f
                    if cls is not None and pf is None:
                        cls.methods.setdefault(st.name, f)
                    visit(st.body, None, f, k + ".")
                elif isinstance(st, ast.ClassDef):
                    c = Class(name=st.name, module=m, node=st, base_exprs=list(st.bases))
                    m.classes.setdefault(st.name, c)
                    for s2 in st.body:
                        if isinstance(s2, ast.Assign):
                            for t in s2.targets:
                                if isinstance(t, ast.Name):
                                    c.attrs[t.id] = s2.value
                        elif isinstance(s2, ast.AnnAssign) and isinstance(s2.target, ast.Name):
                            c.ann[s2.target.id] = s2.annotation
                            if s2.value is not None:
                                c.attrs[s2.target.id] = s2.value
                    visit(st.body, c, None, prefix + st.name + ".")
                elif isinstance(st, (ast.If, ast.Try, ast.With, ast.For, ast.While, ast.AsyncFor, ast.AsyncWith)):
                    for fld in ("body", "orelse", "finalbody"):
                        visit(getattr(st, fld, []) or [], cls, pf, prefix)
                    for h in getattr(st, "handlers", []) or []:
                        visit(h.body, cls, pf, prefix)
                elif isinstance(st, (ast.Assign, ast.AnnAssign, ast.AugAssign)) and cls is None and pf is None:
                    tg = st.targets if isinstance(st, ast.Assign) else [st.target]
                    for t in tg:
                        if isinstance(t, ast.Name):
                            m.globals_assigned.setdefault(t.id, []).append(st)

        visit(m.tree.body, None, None, "")

    # --------------------------------------------------------------- resolve
    def module_of(self, dotted: str) -> Optional[Module]:
        return self.by_dotted.get(dotted)

    def resolve_name(self, m: Module, name: str, _depth=0):
        """Resolve a module-level name -> ('func',Func)|('class',Class)|('module',Module)|('ext',dotted)|None"""
        if _depth > 6:
            return None
        if name in m.classes:
            return ("class", m.classes[name])
        if name in m.funcs and m.funcs[name].parent is None and m.funcs[name].cls is None:
            return ("func", m.funcs[name])
        if name in m.imports:
            mod, attr = m.imports[name]
            if attr is None:
                tm = self.module_of(mod)
                return ("module", tm) if tm else ("ext", mod)
            tm = self.module_of(mod)
            if tm is None:
                # `from . import _config` => mod = 'inline_snapshot', attr='_config'
                tm2 = self.module_of(mod + "." + attr) if mod else None
                if tm2:
                    return ("module", tm2)
                return ("ext", f"{mod}.{attr}")
            sub = self.module_of(mod + "." + attr)
            if sub is not None and attr not in tm.classes and attr not in tm.funcs:
                return ("module", sub)
            r = self.resolve_name(tm, attr, _depth + 1)
            if r:
                return r
            if attr in tm.globals_assigned:
                return ("global", (tm, attr))
            return ("ext", f"{mod}.{attr}")
        if name in m.globals_assigned:
            return ("global", (m, name))
        return None

    def resolve_class(self, m: Module, e: ast.expr) -> Optional[Class]:
        if isinstance(e, ast.Subscript):
            e = e.value
        if isinstance(e, ast.Name):
            r = self.resolve_name(m, e.id)
            if r and r[0] == "class":
                return r[1]
        elif isinstance(e, ast.Attribute) and isinstance(e.value, ast.Name):
            r = self.resolve_name(m, e.value.id)
            if r and r[0] == "module" and e.attr in r[1].classes:
                return r[1].classes[e.attr]
        return None

    def mro(self, c: Class) -> List[Class]:
        out: List[Class] = []

        def go(k):
            if k in out:
                return
            out.append(k)
            for b in k.bases:
                go(b)

        go(c)
        return out

    def subclasses(self, c: Class) -> List[Class]:
        out = []
        for cl in self.all_classes():
            if cl != c and c in self.mro(cl):
                out.append(cl)
        return out

    def all_classes(self) -> List[Class]:
        return [c for m in self.modules.values() for c in m.classes.values()]

    def lookup_method(self, c: Class, name: str) -> Optional[Func]:
        """Method `name` as seen from class c (MRO, aliases such as
        `__le__ = MinMaxValue._generic_cmp`)."""
        for k in self.mro(c):
            if name in k.methods:
                return k.methods[name]
            if name in k.attrs:
                v = k.attrs[name]
                if isinstance(v, ast.Attribute) and isinstance(v.value, ast.Name):
                    tc = self.resolve_class(k.module, v.value)
                    if tc is not None:
                        return self.lookup_method(tc, v.attr)
                if isinstance(v, ast.Name):
                    r = self.resolve_name(k.module, v.id)
                    if r and r[0] == "func":
                        return r[1]
                # a class attribute of that name shadows the base classes even
                # when we cannot tell what it is (e.g. `_limit = staticmethod(min)`)
                return None
        return None

    def defining_class(self, c: Class, name: str) -> Optional[Class]:
        for k in self.mro(c):
            if name in k.methods or name in k.attrs:
                return k
        return None

    # ------------------------------------------------------------- accessors
    def func(self, key: str) -> Func:
        f = self.funcs.get(key)
        if f is None:
            raise AnalysisError(f"anchor vanished: function {key} not found")
        return f

    def find_func(self, rel: str, qual: str) -> Optional[Func]:
        return self.funcs.get(f"{rel}::{qual}")

    def cls(self, name: str, rel: Optional[str] = None) -> Class:
        cands = self.classes.get(name, [])
        if rel is not None:
            cands = [c for c in cands if c.module.rel == rel]
        if not cands:
            raise AnalysisError(f"anchor vanished: class {name} ({rel}) not found")
        return cands[0]

    def module(self, rel: str) -> Module:
        m = self.modules.get(rel)
        if m is None:
            raise AnalysisError(f"anchor vanished: module {rel} not found")
        return m

    def pkg_funcs(self) -> List[Func]:
        return [f for f in self.funcs.values() if not f.module.rel.startswith("@")]

    def loc(self, f_or_m, node) -> str:
        m = f_or_m.module if isinstance(f_or_m, Func) else f_or_m
        rel = m.rel[1:] if m.rel.startswith("@") else f"{PKG}/{m.rel}"
        return f"{rel}:{getattr(node, 'lineno', 0)}"


def body_nodes(fn: ast.AST) -> Iterator[ast.AST]:
    """ast.walk restricted to the function's own body (not nested defs/classes/lambdas)."""
    stack = list(ast.iter_child_nodes(fn))
    while stack:
        n = stack.pop()
        yield n
        if isinstance(n, (ast.FunctionDef, ast.AsyncFunctionDef, ast.ClassDef, ast.Lambda)):
            continue
        stack.extend(ast.iter_child_nodes(n))


def calls_in(node: ast.AST, own_body_only=True) -> List[ast.Call]:
    it = body_nodes(node) if own_body_only else ast.walk(node)
    out = [n for n in it if isinstance(n, ast.Call)]
    out.sort(key=lambda c: (c.lineno, c.col_offset))
    return out


def call_name(c: ast.Call) -> str:
    """Dotted text of the callee expression, e.g. 'state().storage.remove'."""
    return norm(c.func)


def _local_call_alias(name: ast.Name):
    """`x` -> the call `g()` when, in the enclosing function, x is stored exactly once and that store is
    `x = g()` (a zero-argument accessor such as state()): `x.flags` then reads like `g().flags`."""
    fn = name
    while fn is not None and not isinstance(fn, (ast.FunctionDef, ast.AsyncFunctionDef, ast.Lambda)):
        fn = parent(fn)
    if fn is None or isinstance(fn, ast.Lambda):
        return None
    if name.id in {a.arg for a in fn.args.posonlyargs + fn.args.args + fn.args.kwonlyargs}:
        return None
    stores = []
    for x in ast.walk(fn):
        if isinstance(x, ast.Name) and x.id == name.id and isinstance(x.ctx, (ast.Store, ast.Del)):
            stores.append(x)
    if not stores:
        return None
    vals = []
    for s0 in stores:
        st = parent(s0)
        if isinstance(st, ast.Assign) and len(st.targets) == 1 and st.targets[0] is s0 and isinstance(st.value, ast.Call) and not st.value.args and not st.value.keywords and isinstance(st.value.func, (ast.Name, ast.Attribute)):
            vals.append(st.value)
        else:
            return None
    # several stores are fine when every one of them re-reads the same accessor (`s = state()` before and after a yield)
    if len({ast.dump(v) for v in vals}) != 1:
        return None
    return vals[0]


def attr_chain(e: ast.expr) -> Optional[List[str]]:
    """['state()', 'update_flags', 'fix'] for state().update_flags.fix; None if not a chain."""
    parts: List[str] = []
    while True:
        if isinstance(e, ast.Attribute):
            parts.append(e.attr)
            e = e.value
        elif isinstance(e, ast.Name):
            al = _local_call_alias(e)
            if al is not None:
                e = al
                continue
            parts.append(e.id)
            break
        elif isinstance(e, ast.Call) and not e.args and not e.keywords:
            inner = attr_chain(e.func)
            if inner is None:
                return None
            inner[-1] = inner[-1] + "()"
            parts.extend(reversed(inner))
            break
        else:
            return None
    return list(reversed(parts))
