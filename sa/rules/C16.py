"""C16 - generated code is deterministic and independent of the formatter's presence."""
from __future__ import annotations

import ast
from typing import List, Set

from ..callgraph import callgraph
from ..cfg import cfg_of, node_calls
from ..defuse import def_value, reaching_defs, resolve_alias
from ..model import Func, Repo, attr_chain, body_nodes, norm, short
from .C12 import fmt_taint_fragment
from .emit import emission_sites

NONDET_CALLS = {"hash", "id", "object.__hash__"}
NONDET_PREFIX = ("random.", "time.", "uuid.", "secrets.", "datetime.datetime.now", "datetime.now", "os.getpid", "os.urandom", "threading.get_ident")
NONDET_ATTR = {"environ", "getenv"}


def nondet_uses(f: Func) -> List[ast.AST]:
    out = []
    for x in body_nodes(f.node):
        if isinstance(x, ast.Call):
            n = norm(x.func)
            if n in NONDET_CALLS or n.startswith(NONDET_PREFIX):
                out.append(x)
        if isinstance(x, ast.Attribute) and x.attr in NONDET_ATTR and norm(x.value) == "os":
            out.append(x)
    return out


def check(repo: Repo, rep, tier):
    rep.not_decided = "equality of the output across interpreter processes as such; dict iteration is insertion order and part of the value (deliberately not armed)"
    no_nondet(repo, rep)
    set_order(repo, rep)
    set_iter(repo, rep)
    hasrepr_eq(repo, rep)
    fmt_optional(repo, rep)
    fmt_taint_fragment(repo, rep)
    repr_through_mock(repo, rep)
    fmt_shell(repo, rep)
    codegen_pure(repo, rep)
    from .C01 import repr_restore

    repr_restore(repo, rep)
    from .C15 import fmt_degrade

    fmt_degrade(repo, rep)
    from .C15 import fmt_no_cache

    fmt_no_cache(repo, rep)
    from .C10 import zip_lockstep

    zip_lockstep(repo, rep)
    from .C03 import element_parens
    from .C06 import adapter_dispatch

    element_parens(repo, rep)
    adapter_dispatch(repo, rep)


def codegen_roots(repo: Repo) -> List[Func]:
    roots: List[Func] = []
    for key in ("_utils.py::value_to_token", "_code_repr.py::code_repr", "_code_repr.py::mocked_code_repr", "_code_repr.py::value_code_repr", "_code_repr.py::code_repr_dispatch", "_source_file.py::SourceFile._value_to_code", "_source_file.py::SourceFile._token_to_code"):
        f = repo.find_func(*key.split("::"))
        if f is not None:
            roots.append(f)
    for f in repo.pkg_funcs():
        if f.name in ("_new_code", "repr") and f.cls is not None:
            roots.append(f)
        if any(d.endswith("customize_repr") for d in f.decorators):
            roots.append(f)
        if f.module.rel == "_code_repr.py" and f.name in ("__repr__", "sort_set_values"):
            roots.append(f)
    return roots


def no_nondet(repo: Repo, rep):
    rep.rule(
        "R-NO-NONDET",
        "no function reachable (call graph, incl. the registered customize_repr functions and every adapter repr) from value_to_token / code_repr / _new_code "
        "uses a hash-seed-, address-, time-, random- or environment-dependent primitive (hash, id, random.*, time.*, uuid.*, os.environ ...)",
    )
    cg = callgraph(repo)
    roots = codegen_roots(repo)
    reach_keys = cg.reachable(roots, skip_cha=True)
    # formatter / problems / external storage are not part of the text generation of a value
    skip = ("_format.py", "_problems.py", "pytest_plugin.py", "testing/", "_external.py::DiscStorage", "_global_state.py", "_config.py")
    n = 0
    bad = 0
    for k in sorted(reach_keys):
        if k.startswith(skip) or any(s in k for s in skip):
            continue
        f = repo.funcs[k]
        n += 1
        for u in nondet_uses(f):
            bad += 1
            rep.violation("R-NO-NONDET", f, u, f"{f.qualname} (reachable from the code generators) uses `{short(u, 40)}`: the text written for a value then depends on the hash seed / process / time", construct=norm(u))
    if not bad:
        rep.ok("R-NO-NONDET", repo.func("_utils.py::value_to_token"), None, f"{n} functions reachable from the code generators, none uses a non-deterministic primitive", site="code generation call graph")
    rep.floor("R-NO-NONDET", "functions reachable from the code generators", n, 25)
    rep.count("codegen_functions", n)
    # positive example: the matcher must fire on a known-bad fragment
    probe = ast.parse("def _(value):\n    return str(hash(value)) + str(id(value)) + os.environ['X']").body[0]

    class _F:
        node = probe

    if len(nondet_uses(_F)) != 3:  # type: ignore[arg-type]
        rep.undecided("R-NO-NONDET", "positive example not matched (rule broken)")


# functions that give the *generated code* of a value (`repr` is patched to the code repr while code is
# generated); the builtin repr captured as real_repr, str() etc. are not stable: they follow hash order
# for nested sets and print addresses for objects without __repr__
CODE_TEXT = ("repr", "code_repr", "mocked_code_repr")


def _is_text_sorted(e: ast.AST) -> bool:
    """sorted(xs, key=<text function>) or sorted(map(repr, xs)) / sorted of reprs: a total, value-independent order."""
    if not (isinstance(e, ast.Call) and norm(e.func) == "sorted" and e.args):
        return False
    for k in e.keywords:
        if k.arg == "key" and norm(k.value) in CODE_TEXT:
            return True
        if k.arg == "key" and isinstance(k.value, ast.Lambda) and any(norm(c.func) in CODE_TEXT for c in ast.walk(k.value.body) if isinstance(c, ast.Call)):
            return True
    a = e.args[0]
    if isinstance(a, ast.Call) and norm(a.func) == "map" and a.args and norm(a.args[0]) in CODE_TEXT:
        return True
    if isinstance(a, (ast.ListComp, ast.GeneratorExp)) and isinstance(a.elt, ast.Call) and norm(a.elt.func) in CODE_TEXT:
        return True
    return False


def set_order(repo: Repo, rep):
    rep.rule(
        "R-SET-ORDER",
        "the text emitted for a set/frozenset is built from a sequence obtained by sorted(); a sorted() over the user's elements themselves (their own `<`, "
        "which may be partial, e.g. frozensets ordered by inclusion) is applied only to a sequence whose order is already deterministic (pre-sorted by the "
        "generated text) or is replaced by a sort on the text: sorting a hash-ordered set with a partial order gives a hash-seed-dependent result",
    )
    m = repo.module("_code_repr.py")
    cg = callgraph(repo)
    set_funcs = []
    for f in m.funcs.values():
        a = f.node.args.args
        if a and a[0].annotation is not None and norm(a[0].annotation) in ("set", "frozenset", "Set", "FrozenSet", "AbstractSet"):
            set_funcs.append(f)
    rep.floor("R-SET-ORDER", "repr functions for set types", len(set_funcs), 2)
    helpers: Set[str] = set()
    for f in set_funcs:
        p = f.params[0]
        # every use of the set parameter that produces output goes through sorted()/a sorting helper
        ok = True
        for x in body_nodes(f.node):
            if isinstance(x, ast.Call) and any(isinstance(a, ast.Name) and a.id == p for a in x.args):
                fn = norm(x.func)
                if fn in ("len", "bool", "isinstance", "type"):
                    continue
                tg = [t for t in cg.resolve_callee(x, f) if isinstance(t, Func)]
                if fn == "sorted":
                    if not _is_text_sorted(x):
                        helpers.add(f.key)
                    continue
                if tg:
                    helpers |= {t.key for t in tg}
                    continue
                ok = False
                rep.violation("R-SET-ORDER", f, x, f"the {norm(a[0].annotation) if False else 'set'} repr passes the set to `{short(x, 40)}` without sorting: elements are emitted in hash order, which changes with PYTHONHASHSEED", construct=f"{f.qualname}:{fn}")
            if isinstance(x, (ast.For, ast.comprehension)) and isinstance(x.iter, ast.Name) and x.iter.id == p:
                ok = False
                rep.violation("R-SET-ORDER", f, x.iter, "the set repr iterates the set directly: elements are emitted in hash order, which changes with PYTHONHASHSEED", construct=f"{f.qualname}:iter")
        if ok:
            rep.ok("R-SET-ORDER", f, f.node, f"{f.qualname}({norm(f.node.args.args[0].annotation)}): output goes through a sorting step")
    for hk in sorted(helpers):
        h = repo.funcs[hk]
        cfg = cfg_of(h)
        hp = h.params[0] if h.params else None
        sorts = [(n, c) for n in cfg.live for c in node_calls(n) if norm(c.func) == "sorted" and c.args]
        if not sorts:
            rep.violation("R-SET-ORDER", h, h.node, f"{h.qualname} receives a set and never sorts it", construct=f"{h.qualname}:nosort")
            continue
        for n, c in sorts:
            if _is_text_sorted(c):
                rep.ok("R-SET-ORDER", h, c, "sorted by generated text (total order)")
                continue
            a0 = c.args[0]
            src = a0
            det = False
            if isinstance(a0, ast.Name):
                ds = reaching_defs(cfg, n, a0.id)
                vals = [def_value(d, a0.id) for d in ds]
                det = bool(vals) and all(v is not None and (_is_text_sorted(v) or (isinstance(v, ast.Call) and norm(v.func) in ("list",) and v.args and isinstance(v.args[0], ast.Call) and norm(v.args[0].func) == "map" and False)) for v in vals)
                raw = any(d.kind == "entry" for d in ds) or not ds or (a0.id == hp and any(v is None for v in vals))
            if det:
                rep.ok("R-SET-ORDER", h, c, "value sort applied to a sequence already ordered by text (deterministic input, stable sort)")
            else:
                rep.violation(
                    "R-SET-ORDER",
                    h,
                    c,
                    f"{h.qualname} sorts the hash-ordered elements with their own `<` (`{short(c, 40)}`): for partially ordered elements (e.g. a set of frozensets) sorted() does not raise and returns an order that depends on the set's iteration order, i.e. on PYTHONHASHSEED",
                    construct=f"{h.qualname}:{norm(c)}",
                )


def fmt_optional(repo: Repo, rep):
    rep.rule(
        "R-FMT-OPTIONAL",
        "update detection compares source tokens with value_to_token() output, and nothing reachable from value_to_token calls the formatter; format_code is "
        "called only from SourceFile._format (fragments) and SourceFile.new_code (whole file): with or without a formatter the same tokens are generated",
    )
    cg = callgraph(repo)
    vt = repo.func("_utils.py::value_to_token")
    r = cg.reachable([vt], skip_cha=True)
    if "_format.py::format_code" in r:
        rep.violation("R-FMT-OPTIONAL", vt, vt.node, "value_to_token reaches format_code: the token stream used for update detection depends on the installed formatter", construct="vt->format")
    else:
        rep.ok("R-FMT-OPTIONAL", vt, vt.node, f"format_code not among the {len(r)} functions reachable from value_to_token")
    allowed = {"_source_file.py::SourceFile._format", "_rewrite_code.py::SourceFile.new_code"}
    callers = cg.callers.get("_format.py::format_code", [])
    rep.floor("R-FMT-OPTIONAL", "callers of format_code", len(callers), 2)
    for cf, c, how in callers:
        if cf.module.rel.startswith("@"):
            continue
        if cf.key in allowed:
            rep.ok("R-FMT-OPTIONAL", cf, c, "formatter post-processes text only")
        else:
            rep.violation("R-FMT-OPTIONAL", cf, c, f"{cf.qualname} calls the formatter outside the two post-processing steps: generated values then depend on whether a formatter is installed", construct=f"caller:{cf.qualname}")
    # the token lists compared at update-detection sites come from value_to_token
    n = 0
    for s in emission_sites(repo):
        if s.kind != "Replace":
            continue
        from ..cfg import dominating_edges
        from .emit import flag_values

        from .emit import cfg_of_node, to_caller

        nodes = [s.node] + [d for _, d, how in flag_values(s) if how == "var"]
        for nd in nodes:
            ncfg = cfg_of_node(s, nd)
            for c, lab in dominating_edges(ncfg, nd):
                e = c.ast
                if c.kind == "cond" and isinstance(e, ast.Compare) and len(e.ops) == 1 and "_token_of_node" in norm(e):
                    other = e.comparators[0] if "_token_of_node" in norm(e.left) else e.left
                    if ncfg is not s.cfg:
                        other = to_caller(nd, other)
                        c = s.node
                    src = resolve_alias(s.cfg, c, other) if isinstance(other, ast.Name) else other
                    n += 1
                    # a branch may have assigned [] for a missing node; any value_to_token def is enough
                    ok = "value_to_token" in norm(src)
                    if not ok and isinstance(other, ast.Name):
                        ok = any("value_to_token" in norm(def_value(d, other.id) or "") for d in reaching_defs(s.cfg, c, other.id))
                    if ok:
                        rep.ok("R-FMT-OPTIONAL", s.func, e, "source tokens compared with value_to_token() output")
                    else:
                        rep.violation("R-FMT-OPTIONAL", s.func, e, f"update detection compares the source tokens with `{short(src, 40)}`, not with the formatter-free value_to_token() output", construct=norm(e)[:60])
    rep.floor("R-FMT-OPTIONAL", "token comparisons at update sites", n, 4)


GEN_MODULES = ("_adapter/", "_snapshot/", "_code_repr.py", "_utils.py", "_change.py", "_source_file.py")


def _is_set_expr(e: ast.AST, setnames: Set[str]) -> bool:
    if isinstance(e, (ast.Set, ast.SetComp)):
        return True
    if isinstance(e, ast.Call) and norm(e.func) in ("set", "frozenset"):
        return True
    if isinstance(e, ast.Name) and e.id in setnames:
        return True
    if isinstance(e, ast.BinOp) and isinstance(e.op, (ast.Sub, ast.BitAnd, ast.BitOr, ast.BitXor)):
        def keysish(x):
            return (isinstance(x, ast.Call) and isinstance(x.func, ast.Attribute) and x.func.attr == "keys") or _is_set_expr(x, setnames)
        return keysish(e.left) or keysish(e.right)
    if isinstance(e, ast.Call) and isinstance(e.func, ast.Attribute) and e.func.attr in ("difference", "union", "intersection", "symmetric_difference"):
        return True
    return False


def set_iter(repo: Repo, rep):
    rep.rule(
        "R-SET-ITER",
        "in the code-generating modules (adapters, snapshot values, code repr, change application) no set-valued expression - a set literal/comprehension, set(), "
        "a difference/union/intersection of key views - is iterated, listed, unpacked or joined without sorted(): its order follows the hash seed "
        "(membership tests on sets are fine)",
    )
    n = 0
    bad = 0
    param_sets = {}
    funcs = sorted([f for f in repo.pkg_funcs() if f.module.rel.startswith(GEN_MODULES)], key=lambda f: (f.parent is not None, f.key))
    for f in funcs:
        setnames: Set[str] = set(param_sets.get(f.key, ()))
        for _ in range(2):
            for x in body_nodes(f.node):
                if isinstance(x, ast.Assign) and len(x.targets) == 1 and isinstance(x.targets[0], ast.Name) and _is_set_expr(x.value, setnames):
                    setnames.add(x.targets[0].id)
                if isinstance(x, ast.AugAssign) and isinstance(x.target, ast.Name) and isinstance(x.op, (ast.Sub, ast.BitAnd, ast.BitOr)) and _is_set_expr(x.value, setnames):
                    setnames.add(x.target.id)
        # sets handed to nested helper functions
        for x in body_nodes(f.node):
            if isinstance(x, ast.Call) and isinstance(x.func, ast.Name):
                g = f.module.funcs.get(f.qualname + "." + x.func.id)
                if g is not None:
                    for i, a in enumerate(x.args):
                        if _is_set_expr(a, setnames) and i < len(g.params):
                            param_sets.setdefault(g.key, set()).add(g.params[i])
        for x in body_nodes(f.node):
            it = None
            if isinstance(x, (ast.For, ast.comprehension)):
                it = x.iter
            elif isinstance(x, ast.Call) and norm(x.func) in ("list", "tuple", "enumerate", "zip", "iter", "map") and x.args:
                cands = [a for a in x.args if _is_set_expr(a, setnames)]
                it = cands[0] if cands else None
            elif isinstance(x, ast.Call) and isinstance(x.func, ast.Attribute) and x.func.attr == "join" and x.args:
                it = x.args[0]
            elif isinstance(x, ast.Starred):
                it = x.value
            if it is None:
                continue
            if _is_set_expr(it, setnames):
                n += 1
                # a comprehension that only builds another set is order-insensitive
                from ..model import parent as _parent

                p = _parent(x)
                if isinstance(x, ast.comprehension) and isinstance(p, ast.SetComp):
                    continue
                bad += 1
                rep.violation("R-SET-ITER", f, it, f"{f.qualname} iterates the set `{short(it, 40)}` without sorted(): the order of what is generated from it (e.g. the keys inserted into a dict display) changes with PYTHONHASHSEED", construct=norm(it)[:60])
    # the import lines that are added to a test file: ensure_import() writes them in the order it is given the names, so the
    # collections handed to it are ordered ones (list / tuple), also when they come out of a helper
    cg = callgraph(repo)

    def returns_set(g, depth=0) -> bool:
        names: Set[str] = set()
        for _ in range(2):
            for x in body_nodes(g.node):
                if isinstance(x, ast.Assign) and len(x.targets) == 1 and isinstance(x.targets[0], ast.Name) and _is_set_expr(x.value, names):
                    names.add(x.targets[0].id)
        for r in body_nodes(g.node):
            if isinstance(r, ast.Return) and r.value is not None:
                if _is_set_expr(r.value, names):
                    return True
                if isinstance(r.value, ast.Dict) and any(_is_set_expr(v_, names) for v_ in r.value.values):
                    return True
        return False

    for cf, c, how in cg.callers.get("_find_external.py::ensure_import", []):
        if len(c.args) < 2:
            continue
        ccfg = cfg_of(cf)
        at = ccfg.nodes_containing(c)
        vals = []
        arg = c.args[1]
        if isinstance(arg, ast.Name):
            # `imports = helper(...)` / `imports = {...}` - the definition that reaches the call
            nm_ = arg.id
            for x in body_nodes(cf.node):
                if isinstance(x, ast.Assign) and len(x.targets) == 1 and isinstance(x.targets[0], ast.Name) and x.targets[0].id == nm_:
                    arg = x.value
        if isinstance(arg, ast.Dict):
            vals = list(arg.values)
        elif isinstance(arg, ast.Call):
            vals = [arg]
        for v in vals:
            n += 1
            e = v
            if isinstance(e, ast.Name) and at:
                local_sets: Set[str] = set()
                for x in body_nodes(cf.node):
                    if isinstance(x, ast.Assign) and len(x.targets) == 1 and isinstance(x.targets[0], ast.Name) and x.targets[0].id == e.id:
                        if _is_set_expr(x.value, set()):
                            local_sets.add(e.id)
                        elif isinstance(x.value, ast.Call):
                            tg, _ = cg.call_targets(cf, x.value)
                            if any(returns_set(t) for t in tg):
                                local_sets.add(e.id)
                is_set = e.id in local_sets
            else:
                is_set = _is_set_expr(e, set())
                if isinstance(e, ast.Call) and not is_set:
                    tg, _ = cg.call_targets(cf, e)
                    is_set = any(returns_set(t) for t in tg)
            if is_set:
                bad += 1
                rep.violation(
                    "R-SET-ITER",
                    cf,
                    c,
                    f"{cf.qualname} hands ensure_import() a set of names (`{short(v, 30)}`): the `from inline_snapshot import ...` lines are written in the set's iteration order, which follows PYTHONHASHSEED - "
                    "the same session writes different files on different runs",
                    construct=f"{cf.qualname}:import-names-set",
                )
    if not bad:
        rep.ok("R-SET-ITER", repo.func("_utils.py::value_to_token"), None, f"no unsorted iteration of a set in the code-generating modules ({n} order-insensitive uses)", site="code-generating modules: set iteration")
    probe = ast.parse("for k in new.keys() - old.keys():\n    pass").body[0]
    if not _is_set_expr(probe.iter, set()):
        rep.undecided("R-SET-ITER", "positive example not matched (rule broken)")


REPR_CONV_EXEMPT = {
    "_code_repr.py::HasRepr.__repr__": "the operand is the stored repr *text* (a str), never a nested value",
}


def repr_through_mock(repo: Repo, rep):
    rep.rule(
        "R-REPR-THROUGH-MOCK",
        "code generation renders nested values by calling the *name* `repr(...)`, which code_repr() has re-bound (mock of builtins.repr) to the "
        "deterministic code representation; an f-string `!r` conversion, `%r` or `format(..., 'r')` calls the object's own __repr__ directly and by-passes "
        "it - a frozenset / set key is then written in hash order (differs with PYTHONHASHSEED), enums and types in their non-code form.  Checked in the "
        "`repr` methods of the adapters and in every function of _code_repr.py that is registered with customize_repr",
    )
    n = 0
    for f in repo.pkg_funcs():
        rel = f.module.rel
        in_scope = (rel.startswith("_adapter/") and f.name == "repr") or (rel == "_code_repr.py" and (any("customize_repr" in d or "register" in d for d in f.decorators) or f.name in ("__repr__",)))
        if not in_scope:
            continue
        n += 1
        hits = [x for x in body_nodes(f.node) if isinstance(x, ast.FormattedValue) and x.conversion == 114]
        hits += [x for x in body_nodes(f.node) if isinstance(x, ast.BinOp) and isinstance(x.op, ast.Mod) and isinstance(x.left, ast.Constant) and isinstance(x.left.value, str) and "%r" in x.left.value]
        if hits and f.key in REPR_CONV_EXEMPT:
            rep.ok("R-REPR-THROUGH-MOCK", f, hits[0], f"`!r` exempt: {REPR_CONV_EXEMPT[f.key]}")
        elif hits:
            rep.violation(
                "R-REPR-THROUGH-MOCK",
                f,
                hits[0],
                f"{f.qualname} renders a nested value with `{short(hits[0], 40)}` (direct __repr__) instead of the re-bound repr(): frozenset / set parts appear in hash order and the generated text changes with PYTHONHASHSEED",
                construct=f"{f.qualname}:!r",
            )
        else:
            rep.ok("R-REPR-THROUGH-MOCK", f, f.node, "nested values go through repr()")
    rep.floor("R-REPR-THROUGH-MOCK", "code-generating repr functions", n, 5)


def fmt_shell(repo: Repo, rep):
    rep.rule(
        "R-FMT-SHELL",
        "the configured format-command is a shell command line (docs/configuration.md documents `a | b` pipelines): the subprocess call in format_code "
        "passes the command *string* with shell=True.  An argument vector (shlex.split) runs only the first program of a pipeline with `|` as a stray "
        "argument; when that program exits 0 its output is taken for the formatted file",
    )
    from .C15 import formatter_funcs

    runs = [(g, c) for g in formatter_funcs(repo) for c in body_nodes(g.node) if isinstance(c, ast.Call) and norm(c.func).split(".")[-1] in ("run", "Popen", "check_output", "call")]
    rep.floor("R-FMT-SHELL", "subprocess calls in format_code", len(runs), 1)
    for f, c in runs:
        sh = [k for k in c.keywords if k.arg == "shell"]
        if sh and isinstance(sh[0].value, ast.Constant) and sh[0].value.value is True:
            rep.ok("R-FMT-SHELL", f, c, "format-command runs through the shell")
        extra = [k.arg for k in c.keywords if k.arg in ("cwd", "env", "executable")]
        if extra:
            rep.violation("R-FMT-SHELL", f, c, f"the format-command runs with `{extra[0]}=...`: the documented commands are relative to the directory pytest runs in (`python scripts/fmt.py {{filename}}`, a config file given by a relative path) - started elsewhere they fail for every test file outside that directory, the file is written unformatted", construct=f"subprocess-{extra[0]}")
        if sh and isinstance(sh[0].value, ast.Constant) and sh[0].value.value is True:
            pass
        else:
            rep.violation("R-FMT-SHELL", f, c, f"`{short(c, 60)}` does not run the format-command through the shell: documented pipelines (`ruff check --fix-only ... | ruff format ...`) are truncated to their first stage without any error", construct="no-shell")


def hasrepr_eq(repo: Repo, rep):
    rep.rule(
        "R-HASREPR-EQ",
        "reader / writer agreement for values without a code representation: the text stored in `HasRepr(type, \"<repr>\")` is produced by code_repr() "
        "(repr with builtins.repr re-bound, so nested enums / classes / dataclasses appear in their code form), therefore HasRepr.__eq__ compares the "
        "stored text with code_repr(other), not with the builtin repr(other) - otherwise the generated snapshot is not equal to the value on the next run",
    )
    c = None
    for k in repo.all_classes():
        if k.name == "HasRepr" and k.module.rel == "_code_repr.py":
            c = k
    eq = c.methods.get("__eq__") if c is not None else None
    if eq is None:
        rep.undecided("R-HASREPR-EQ", "HasRepr.__eq__ not found")
        return
    # the renderers that re-bind builtins.repr around the rendering (`with mock.patch("builtins.repr", ...)`): code_repr today
    m = c.module
    patchers = set()
    for g in m.funcs.values():
        if g.cls is None and any(isinstance(w, ast.With) and any(isinstance(i.context_expr, ast.Call) and norm(i.context_expr.func).endswith("patch") and i.context_expr.args and isinstance(i.context_expr.args[0], ast.Constant) and i.context_expr.args[0].value == "builtins.repr" for i in w.items) and any(isinstance(r_, ast.Return) for s_ in w.body for r_ in ast.walk(s_)) for w in body_nodes(g.node)):
            patchers.add(g.name)
    on_other = [x for x in body_nodes(eq.node) if isinstance(x, ast.Call) and isinstance(x.func, ast.Name) and x.args and any(isinstance(y, ast.Name) and y.id in eq.params[1:] for y in ast.walk(x.args[0]))]
    renders = [x for x in on_other if x.func.id in ("repr", "real_repr", "str", "format") or (x.func.id in m.funcs and m.funcs[x.func.id].cls is None)]
    bad = [x for x in renders if x.func.id not in patchers]
    good = [x for x in renders if x.func.id in patchers]
    if bad:
        rep.violation("R-HASREPR-EQ", eq, bad[0], f"HasRepr.__eq__ renders the compared object with `{norm(bad[0])}`, which does not re-bind builtins.repr while it renders: the stored text was written by code_repr() (under the re-bound repr), the two differ as soon as the object's __repr__ embeds repr() of an Enum, a class or a dataclass - the created snapshot fails on the next run", construct="eq-builtin-repr")
    elif good:
        rep.ok("R-HASREPR-EQ", eq, good[0], "HasRepr.__eq__ compares with code_repr(other)")
    else:
        rep.undecided("R-HASREPR-EQ", "HasRepr.__eq__ renders the other object in a way this rule does not know")


def codegen_pure(repo: Repo, rep):
    rep.rule(
        "R-CODEGEN-PURE",
        "the text generated for a value is a function of that value alone: no function reachable from the code generators keeps a memo - no subscript "
        "store / setdefault / update into a module-level container and no functools cache decorator.  A memo keyed by equality merges values that are "
        "equal but written differently (True / 1, -0.0 / 0.0, Decimal('1.00') / Decimal('1.0'), frozenset({True, 2}) / frozenset({1, 2})): what is written "
        "then depends on which of them the session rendered first (test order, -k selection)",
    )
    cg = callgraph(repo)
    roots = codegen_roots(repo)
    reach_keys = cg.reachable(roots, skip_cha=True)
    skip = ("_format.py", "_problems.py", "pytest_plugin.py", "testing/", "_external.py", "_global_state.py", "_config.py", "_rewrite_code.py", "_source_file.py::SourceFile._format")
    n = 0
    for k in sorted(reach_keys):
        if any(s in k for s in skip):
            continue
        f = repo.funcs[k]
        n += 1
        bad = None
        for d in f.decorators:
            if d.split(".")[-1] in ("lru_cache", "cache", "cached_property"):
                bad = (f.node, f"is decorated with @{d}")
        local_names = {tt.id for a in body_nodes(f.node) if isinstance(a, (ast.Assign, ast.AnnAssign)) for tt in (a.targets if isinstance(a, ast.Assign) else [a.target]) if isinstance(tt, ast.Name)}
        for x in body_nodes(f.node):
            if isinstance(x, (ast.Assign, ast.AugAssign)):
                for t in x.targets if isinstance(x, ast.Assign) else [x.target]:
                    # a container that outlives the call: reached through state() / self / a local alias of such an attribute
                    if isinstance(t, ast.Subscript):
                        base = t.value
                        if isinstance(base, ast.Name) and base.id in local_names:
                            for a in body_nodes(f.node):
                                if isinstance(a, ast.Assign) and any(isinstance(tt, ast.Name) and tt.id == base.id for tt in a.targets):
                                    base = a.value
                        root = base
                        while isinstance(root, (ast.Attribute, ast.Subscript)):
                            root = root.value
                        outlives = isinstance(base, ast.Attribute) and ((isinstance(root, ast.Call) and norm(root.func).endswith("state")) or (isinstance(root, ast.Name) and f.params and root.id == f.params[0] and f.cls is not None))
                        if outlives and f.name not in ("__init__",):
                            bad = (x, f"stores into `{norm(t.value)}` (= `{norm(base)}`), which outlives the call")
                    if isinstance(t, ast.Subscript) and isinstance(t.value, ast.Name) and t.value.id in f.module.globals_assigned and t.value.id not in f.params and not any(isinstance(a, ast.Assign) and any(isinstance(tt, ast.Name) and tt.id == t.value.id for tt in a.targets) for a in body_nodes(f.node)):
                        bad = (x, f"stores into the module-level `{t.value.id}`")
            if isinstance(x, ast.Call) and isinstance(x.func, ast.Attribute) and x.func.attr in ("setdefault", "update", "append", "add") and isinstance(x.func.value, ast.Name) and x.func.value.id in f.module.globals_assigned and x.func.value.id not in f.params and not any(isinstance(a, ast.Assign) and any(isinstance(tt, ast.Name) and tt.id == x.func.value.id for tt in a.targets) for a in body_nodes(f.node)):
                bad = (x, f"mutates the module-level `{x.func.value.id}`")
        if bad:
            rep.violation("R-CODEGEN-PURE", f, bad[0], f"{f.qualname} {bad[1]} while generating code: the text written for a value depends on what was rendered earlier in the session (equal values with different representations share the entry)", construct=f"{f.qualname}:memo")
    rep.ok("R-CODEGEN-PURE", roots[0], None, f"{n} code-generating functions keep no memo", site="code generators: module-level memo")
    rep.floor("R-CODEGEN-PURE", "functions reachable from the code generators", n, 15)
