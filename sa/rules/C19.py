"""C19 - the public testing helpers reproduce what a real session does."""
from __future__ import annotations

import ast
import fnmatch
from typing import Dict, List, Set

from ..callgraph import callgraph
from ..cfg import cfg_of, node_calls, nodes_dominate, reach
from ..defuse import def_value, derives_from, reaching_defs
from ..model import Repo, ancestors, attr_chain, body_nodes, norm, short
from .C04 import driver_filter
from .C18 import write_fresh
from .common import stale_bindings

DRIVERS = ("pytest_plugin.py::pytest_sessionfinish", "testing/_example.py::Example.run_inline")

from .C04 import configure, the_detector


def check(repo: Repo, rep, tier):
    rep.not_decided = "equality of the files and reports the three drivers produce; what a real pytest collects beyond the default file patterns"
    driver_steps(repo, rep)
    driver_filter(repo, rep)
    write_fresh(repo, rep)
    driver_state(repo, rep)
    ci_table(repo, rep)
    collect(repo, rep)
    configure(repo, rep)
    driver_isolate(repo, rep)
    fresh_state(repo, rep)
    diff_exact(repo, rep)
    tests_per_file(repo, rep)
    collect_all(repo, rep)
    outer_compare(repo, rep)
    driver_order(repo, rep)
    from .C20 import mode_table, one_mode
    from .C04 import xdist_worker

    # environment questions the three drivers must answer alike: which black options, whether xdist distributes
    one_mode(repo, rep)
    mode_table(repo, rep)
    xdist_worker(repo, rep)
    from .C03 import import_only, import_scope

    import_only(repo, rep)
    import_scope(repo, rep)
    from .C01 import import_step

    import_step(repo, rep)
    from .C02 import file_loops_total

    file_loops_total(repo, rep)
    from .C18 import apply_once

    apply_once(repo, rep)


def steps_of(repo: Repo, key: str) -> Dict[str, list]:
    f = repo.func(key)
    cfg = cfg_of(f)
    cg = callgraph(repo)
    out: Dict[str, list] = {"collect": [], "apply_all": [], "import": [], "fix_all": [], "report_problems": []}
    for n in cfg.live:
        if n.kind == "for" and norm(n.ast.iter).endswith("snapshots.values()"):
            body = reach(cfg, [b for b, l in n.succ if l == "iter"], blocked_nodes=[n])
            if any(isinstance(c.func, ast.Attribute) and c.func.attr == "_changes" for b in list(body) + [n] for c in node_calls(b)) or any(
                isinstance(c.func, ast.Attribute) and c.func.attr == "_changes" for b in body if b.kind == "for" for c in [x for x in ast.walk(b.ast.iter) if isinstance(x, ast.Call)]
            ):
                out["collect"].append(n)
        for c in node_calls(n):
            keys = {t.key for t in cg.call_targets(f, c)[0]}
            if isinstance(c.func, ast.Attribute) and c.func.attr == "_changes" and n not in out["collect"]:
                # comprehension / generator form: [... for s in <state>.snapshots.values() for c in s._changes()]
                for comp in [x for r in __import__("sa.cfg", fromlist=["own_exprs"]).own_exprs(n) for x in ast.walk(r) if isinstance(x, (ast.ListComp, ast.GeneratorExp, ast.SetComp))]:
                    if any(norm(g.iter).endswith("snapshots.values()") for g in comp.generators):
                        out["collect"].append(n)
            if "_change.py::apply_all" in keys:
                out["apply_all"].append(n)
            if "_find_external.py::ensure_import" in keys:
                out["import"].append(n)
            if "_rewrite_code.py::ChangeRecorder.fix_all" in keys:
                out["fix_all"].append(n)
            if "_problems.py::report_problems" in keys:
                out["report_problems"].append(n)
    return out


def driver_steps(repo: Repo, rep):
    rep.rule(
        "R-DRIVER-STEPS",
        "sibling agreement of pytest_sessionfinish and Example.run_inline: both collect `_changes()` of every value of <state>.snapshots, call apply_all, perform "
        "the import step (ensure_import for external / HasRepr, decided from the new code of each written file) before fix_all, call fix_all and "
        "report_problems; a step one driver has and the other lacks is reported with the driver that lacks it",
    )
    st = {k: steps_of(repo, k) for k in DRIVERS}
    names = {"collect": "collecting snapshot._changes() over all snapshots of the state", "apply_all": "apply_all", "import": "the import step (ensure_import for external/HasRepr)", "fix_all": "fix_all", "report_problems": "report_problems"}
    for step, label in names.items():
        have = {k: bool(st[k][step]) for k in DRIVERS}
        if all(have.values()):
            rep.ok("R-DRIVER-STEPS", repo.func(DRIVERS[1]), st[DRIVERS[1]][step][0].ast, f"both drivers perform: {label}", site=f"drivers: {step}")
        elif not any(have.values()):
            rep.undecided("R-DRIVER-STEPS", f"neither driver performs {label}")
        else:
            lack = [k for k in DRIVERS if not have[k]][0]
            f = repo.func(lack)
            rep.violation(
                "R-DRIVER-STEPS",
                f,
                f.node,
                f"{f.qualname} lacks {label}, which {repo.func([k for k in DRIVERS if have[k]][0]).qualname} performs: for the same project and flags the two drivers produce different files"
                + (" (e.g. a value needing HasRepr: the plugin adds `from inline_snapshot import HasRepr`, this driver does not)" if step == "import" else ""),
                construct=f"{f.qualname}:{step}",
            )
    # order inside each driver: apply_all -> import -> fix_all
    for k in DRIVERS:
        f = repo.func(k)
        cfg = cfg_of(f)
        s = st[k]
        if s["import"] and s["fix_all"]:
            for im in s["import"]:
                if any(im in reach(cfg, [b for b, _ in fx.succ]) for fx in s["fix_all"]):
                    rep.violation("R-DRIVER-STEPS", f, im.ast, f"{f.qualname} inserts imports after fix_all(): they are never written", construct=f"{f.qualname}:import-after-write")
                else:
                    rep.ok("R-DRIVER-STEPS", f, im.ast, "import step before fix_all")
            # decided from the new code of the file
            for im in s["import"]:
                for c in node_calls(im):
                    if norm(c.func).endswith("ensure_import") and c.args:
                        ok = derives_from(cfg, im, c.args[0], lambda x: isinstance(x, ast.Attribute) and x.attr == "filename")
                        if not ok:
                            rep.violation("R-DRIVER-STEPS", f, c, "ensure_import is not given the filename of the file whose new code was inspected", construct=f"{f.qualname}:import-file")


def driver_state(repo: Repo, rep):
    rep.rule(
        "R-DRIVER-STATE",
        "Example.run_inline runs the tests inside `with snapshot_env() as state` (a fresh, active State), with update_flags = Flags(<the parsed "
        "--inline-snapshot categories>), and reports the set of change.flag over all collected changes - like the plugin, which files every change under its own flag",
    )
    f = repo.func("testing/_example.py::Example.run_inline")
    cfg = cfg_of(f)
    withs = [n for n in cfg.live if n.kind == "with" and any("snapshot_env" in norm(i.context_expr) for i in n.ast.items)]
    if withs:
        rep.ok("R-DRIVER-STATE", f, withs[0].ast, "fresh state through snapshot_env()")
    else:
        rep.violation("R-DRIVER-STATE", f, f.node, "run_inline does not run the example in a fresh snapshot_env(): snapshots of the surrounding session leak into the example", construct="no-env")
    execs = [n for n in cfg.live for c in node_calls(n) if norm(c.func) == "exec"]
    for e in execs:
        if withs and not nodes_dominate(cfg, withs, e):
            rep.violation("R-DRIVER-STATE", f, e.ast, "the example code is executed outside the private state", construct="exec-outside")
    # `active` stays True while the tests run: no `state.active = False` before the exec
    offs = [n for n in cfg.stmts(ast.Assign) if any(isinstance(t, ast.Attribute) and t.attr == "active" for t in n.ast.targets) and isinstance(n.ast.value, ast.Constant) and n.ast.value.value is False]
    for o in offs:
        if any(e in reach(cfg, [b for b, _ in o.succ]) for e in execs):
            rep.violation("R-DRIVER-STATE", f, o.ast, "run_inline deactivates the state before the example tests run", construct="inactive")
    # reported categories = flags of all collected changes
    sets = [x for x in body_nodes(f.node) if isinstance(x, ast.SetComp) and isinstance(x.elt, ast.Attribute) and x.elt.attr == "flag"]
    if sets and not any(g.ifs for s in sets for g in s.generators):
        rep.ok("R-DRIVER-STATE", f, sets[0], "reported categories = {change.flag for all collected changes}")
    else:
        rep.violation("R-DRIVER-STATE", f, f.node, "run_inline does not report the flags of all collected changes (unfiltered) as its categories", construct="reported")


def ci_table(repo: Repo, rep):
    rep.rule(
        "R-CI-TABLE",
        "reader/writer agreement: every environment variable that is_ci_run() consults is removed from the environment by Example.run_pytest before it starts "
        "the session (else the subprocess driver is disabled by a CI variable while run_inline is not)",
    )
    ci = the_detector(repo, "ci", "pytest_plugin.py::is_ci_run")
    rp = repo.func("testing/_example.py::Example.run_pytest")
    consulted: Set[str] = set()
    for x in body_nodes(ci.node):
        if isinstance(x, ast.Assign) and isinstance(x.value, (ast.Tuple, ast.List)):
            consulted |= {e.value for e in x.value.elts if isinstance(e, ast.Constant) and isinstance(e.value, str)}
    # PYCHARM_HOSTED *disables* the detection; it need not be removed
    popped: Set[str] = set()
    for x in body_nodes(rp.node):
        if isinstance(x, ast.Call) and isinstance(x.func, ast.Attribute) and x.func.attr == "pop" and x.args and isinstance(x.args[0], ast.Constant):
            popped.add(x.args[0].value)
        if isinstance(x, ast.For) and isinstance(x.iter, (ast.Tuple, ast.List)):
            names = {e.value for e in x.iter.elts if isinstance(e, ast.Constant)}
            if any(isinstance(c, ast.Call) and isinstance(c.func, ast.Attribute) and c.func.attr == "pop" for s in x.body for c in ast.walk(s)):
                popped |= names
        if isinstance(x, ast.For) and isinstance(x.iter, ast.Name):
            # loop over a table defined elsewhere in the package
            r = repo.resolve_name(rp.module, x.iter.id)
            if r and r[0] == "global":
                for a in r[1][0].globals_assigned.get(r[1][1], []):
                    if isinstance(a, ast.Assign) and isinstance(a.value, (ast.Tuple, ast.List)):
                        if any(isinstance(c, ast.Call) and isinstance(c.func, ast.Attribute) and c.func.attr == "pop" for s in x.body for c in ast.walk(s)):
                            popped |= {e.value for e in a.value.elts if isinstance(e, ast.Constant)}
    rep.floor("R-CI-TABLE", "variables consulted by is_ci_run", len(consulted), 5)
    rep.extra["ci_table"] = {"consulted": sorted(consulted), "neutralised": sorted(popped)}
    missing = sorted(consulted - popped)
    if missing:
        rep.violation("R-CI-TABLE", rp, rp.node, f"run_pytest does not neutralise {missing}, which is_ci_run() consults: with e.g. {missing[-1]}=1 in the environment run_pytest(create) leaves `snapshot()` unchanged while run_inline(create) writes the value", construct="ci-vars")
    else:
        rep.ok("R-CI-TABLE", rp, rp.node, f"all {len(consulted)} CI variables are removed before the subprocess session")


def collect(repo: Repo, rep):
    rep.rule(
        "R-DRIVER-COLLECT",
        "the file pattern Example.run_inline executes matches at least pytest's default test files (test_*.py and *_test.py)",
    )
    f = repo.func("testing/_example.py::Example.run_inline")
    pats = [c.args[0].value for c in body_nodes(f.node) if isinstance(c, ast.Call) and isinstance(c.func, ast.Attribute) and c.func.attr in ("glob", "rglob") and c.args and isinstance(c.args[0], ast.Constant)]
    rep.floor("R-DRIVER-COLLECT", "glob patterns in run_inline", len(pats), 1)
    for p in pats:
        miss = [n for n in ("test_a.py", "a_test.py") if not fnmatch.fnmatch(n, p)]
        if miss:
            rep.violation("R-DRIVER-COLLECT", f, f.node, f"run_inline only executes files matching {p!r}; pytest also collects {miss}: such a module is run by run_pytest / a real session but silently skipped by run_inline", construct=f"glob:{p}")
        else:
            rep.ok("R-DRIVER-COLLECT", f, f.node, f"pattern {p!r} covers pytest's default test files")


def driver_isolate(repo: Repo, rep):
    rep.rule(
        "R-DRIVER-ISOLATE",
        "Example.run_inline isolates the tests from each other like pytest does: the call of a collected test function sits in a `try` with an `except "
        "Exception` handler *inside* the loop over the tests (loop > try > call), so a test that raises does not keep the later tests of the file - and "
        "their snapshots - from running",
    )
    from ..model import ancestors

    f = repo.func("testing/_example.py::Example.run_inline")
    n = 0
    for lp in [x for x in body_nodes(f.node) if isinstance(x, ast.For) and isinstance(x.target, ast.Name)]:
        v = lp.target.id
        calls = [c for c in ast.walk(lp) if isinstance(c, ast.Call) and isinstance(c.func, ast.Name) and c.func.id == v and not c.args]
        for c in calls:
            n += 1
            chain = []
            for a in ancestors(c):
                chain.append(a)
                if a is lp:
                    break
            tries = [a for a in chain if isinstance(a, ast.Try) and any(h.type is None or "Exception" in norm(h.type) for h in a.handlers) and any(c is y for s in a.body for y in ast.walk(s))]
            if tries:
                rep.ok("R-DRIVER-ISOLATE", f, c, "each test call is guarded inside the loop")
            else:
                rep.violation("R-DRIVER-ISOLATE", f, c, f"`{v}()` is not guarded by a try/except inside the loop over the tests: the first test that raises ends the loop, the remaining tests never run and their pending changes are neither reported nor applied (a real session runs every test)", construct="test-call-unguarded")
    rep.floor("R-DRIVER-ISOLATE", "test calls in run_inline", n, 1)


def fresh_state(repo: Repo, rep):
    rep.rule(
        "R-FRESH-STATE",
        "enter_snapshot_context() starts every (nested) context from the defaults: the value bound to the current-state global is `State()` without "
        "arguments on every path - not a copy (dataclasses.replace / copy) of the enclosing state, whose `active`, flags and update_flags belong to the "
        "outer session (run_inline inside a disabled or CI session would silently record nothing while run_pytest and a real session do)",
    )
    f = repo.func("_global_state.py::enter_snapshot_context")
    cfg = cfg_of(f)
    gl = {nm for s in ast.walk(f.node) if isinstance(s, ast.Global) for nm in s.names}
    n = 0
    for a in cfg.stmts(ast.Assign):
        for t in a.ast.targets:
            if isinstance(t, ast.Name) and t.id in gl:
                n += 1
                vals = []
                v = a.ast.value
                if isinstance(v, ast.Name):
                    vals = [def_value(d, v.id) for d in reaching_defs(cfg, a, v.id)]
                else:
                    vals = [v]
                bad = [x for x in vals if not (isinstance(x, ast.Call) and norm(x.func) == "State" and not x.args and not x.keywords)]
                if bad:
                    rep.violation("R-FRESH-STATE", f, a.ast, f"the new context can start from `{short(bad[0], 60) if bad[0] is not None else '?'}` instead of a default State(): it inherits active / flags of the enclosing session", construct="state-not-fresh")
                else:
                    rep.ok("R-FRESH-STATE", f, a.ast, "new context = State()")
    rep.floor("R-FRESH-STATE", "rebinding of the current state", n, 1)


def diff_exact(repo: Repo, rep):
    rep.rule(
        "R-DIFF-EXACT",
        "SourceFile.diff() compares the texts as they are: the lines handed to the diff come from `.splitlines()` of the old and the new text with no "
        "normalisation (strip / rstrip / lower / replace / expandtabs ...).  pytest_sessionfinish uses the diff as its 'is there anything to apply' test while "
        "run_inline does not; a change that the diff no longer shows (trailing blank inside a triple-quoted snapshot) is applied by one driver and silently "
        "dropped by the other",
    )
    f = repo.find_func("_rewrite_code.py", "SourceFile.diff")
    if f is None:
        rep.undecided("R-DIFF-EXACT", "SourceFile.diff not found")
        return
    NORMALISERS = ("strip", "rstrip", "lstrip", "lower", "upper", "casefold", "replace", "expandtabs", "translate", "sub")
    # what is handed to the diff function (directly, or through locals defined in diff())
    inputs = []
    for c in body_nodes(f.node):
        if isinstance(c, ast.Call) and norm(c.func).split(".")[-1] in ("unified_diff", "ndiff", "context_diff", "SequenceMatcher"):
            inputs += list(c.args) + [k.value for k in c.keywords]
    seen_names = set()
    work = list(inputs)
    while work:
        e = work.pop()
        for x in ast.walk(e):
            if isinstance(x, ast.Name) and x.id not in seen_names:
                seen_names.add(x.id)
                for a in body_nodes(f.node):
                    if isinstance(a, ast.Assign) and any(isinstance(t, ast.Name) and t.id == x.id for t in a.targets):
                        inputs.append(a.value)
                        work.append(a.value)
    norms = [c for e in inputs for c in ast.walk(e) if isinstance(c, ast.Call) and isinstance(c.func, ast.Attribute) and c.func.attr in NORMALISERS]
    if not inputs:
        rep.undecided("R-DIFF-EXACT", "no diff function call found in SourceFile.diff")
        return
    if norms:
        rep.violation("R-DIFF-EXACT", f, norms[0], f"SourceFile.diff normalises the compared lines with `{short(norms[0], 50)}`: a change it hides is not offered / applied by pytest_sessionfinish although run_inline writes it", construct="diff-normalised")
    else:
        rep.ok("R-DIFF-EXACT", f, f.node, "the diff compares the exact old and new lines")


def tests_per_file(repo: Repo, rep):
    rep.rule(
        "R-DRIVER-PER-FILE",
        "Example.run_inline runs, for each test file, the test functions of THAT file once: the collection that the test-call loop iterates over is bound "
        "afresh inside the loop over the files (a plain assignment there), not grown (`+=`, extend, append) from a list created outside it - otherwise the "
        "tests of earlier files run again after every later file and tests with module-level state record other values than under pytest",
    )
    from ..model import ancestors

    f = repo.func("testing/_example.py::Example.run_inline")
    n = 0
    for lp in [x for x in body_nodes(f.node) if isinstance(x, ast.For) and isinstance(x.target, ast.Name)]:
        v = lp.target.id
        if not any(isinstance(c, ast.Call) and isinstance(c.func, ast.Name) and c.func.id == v and not c.args for c in ast.walk(lp)):
            continue
        it = lp.iter
        if isinstance(it, ast.Call) and isinstance(it.func, ast.Attribute) and it.func.attr in ("values",) and not it.args:
            it = it.func.value
        if not isinstance(it, ast.Name):
            continue
        n += 1
        coll = it.id
        file_loops = [a for a in ancestors(lp) if isinstance(a, ast.For) and a is not lp]
        if not file_loops:
            # collected first, run afterwards: every test function of every file must still be in the collection - a mapping keyed by the
            # function's name, filled file after file, keeps only the last of the functions that share a name
            keyed = [
                a
                for fl_ in [x for x in body_nodes(f.node) if isinstance(x, ast.For) and x is not lp]
                for a in ast.walk(fl_)
                if (isinstance(a, ast.Call) and isinstance(a.func, ast.Attribute) and a.func.attr in ("update", "setdefault") and isinstance(a.func.value, ast.Name) and a.func.value.id == coll)
                or (isinstance(a, ast.Subscript) and isinstance(a.ctx, ast.Store) and isinstance(a.value, ast.Name) and a.value.id == coll)
            ]
            if keyed:
                rep.violation(
                    "R-DRIVER-PER-FILE",
                    f,
                    keyed[0],
                    f"the test functions of all files are collected in the mapping `{coll}` (`{short(keyed[0], 50)}`) before they run: functions of different files that share a name (`test_value` in two files) "
                    "replace each other, only the last one runs - the other file's snapshots are never recorded or rewritten, a real session runs both",
                    construct="tests-keyed-by-name",
                )
            else:
                rep.ok("R-DRIVER-PER-FILE", f, lp, "tests are not run inside a loop over files")
            continue
        fl = file_loops[0]
        inside = [a for a in ast.walk(fl) if isinstance(a, ast.Assign) and any(isinstance(t, ast.Name) and t.id == coll for t in a.targets)]
        grows = [a for a in ast.walk(fl) if (isinstance(a, ast.AugAssign) and isinstance(a.target, ast.Name) and a.target.id == coll) or (isinstance(a, ast.Call) and isinstance(a.func, ast.Attribute) and a.func.attr in ("extend", "append") and isinstance(a.func.value, ast.Name) and a.func.value.id == coll)]
        if inside and not grows:
            rep.ok("R-DRIVER-PER-FILE", f, lp, f"`{coll}` is bound afresh for every file")
        else:
            rep.violation("R-DRIVER-PER-FILE", f, (grows[0] if grows else lp), f"the list `{coll}` of test functions is {'grown across' if grows else 'not re-bound for'} the files while the loop that calls them runs once per file: the tests of earlier files are executed again, a test with module-level state records values a real session never sees", construct="tests-accumulate")
    rep.floor("R-DRIVER-PER-FILE", "test-call loops in run_inline", n, 1)
    # every file is executed in a namespace of its own (a module per file under pytest): the dict handed to exec() inside the loop over
    # the files is created inside that loop
    for c in [x for x in body_nodes(f.node) if isinstance(x, ast.Call) and isinstance(x.func, ast.Name) and x.func.id == "exec" and len(x.args) >= 2 and isinstance(x.args[1], ast.Name)]:
        ns = x_ns = c.args[1].id
        loops = [a for a in ancestors(c) if isinstance(a, ast.For)]
        if not loops:
            continue
        fl = loops[-1] if len(loops) > 1 else loops[0]
        binds = [a for a in body_nodes(f.node) if (isinstance(a, ast.Assign) and any(isinstance(t, ast.Name) and t.id == ns for t in a.targets)) or (isinstance(a, ast.AnnAssign) and isinstance(a.target, ast.Name) and a.target.id == ns and a.value is not None)]
        inside = [a for a in binds if any(y is a for y in ast.walk(fl))]
        if binds and len(inside) == len(binds):
            rep.ok("R-DRIVER-PER-FILE", f, c, f"`{ns}` is a fresh namespace for every file")
        else:
            rep.violation(
                "R-DRIVER-PER-FILE",
                f,
                c,
                f"the namespace `{ns}` handed to exec() is not created inside the loop over the files: all files of an example share one module namespace - the tests of the first file are found (and run) again after the "
                "second file, same-named module-level helpers overwrite each other; under pytest every file is a module of its own",
                construct="shared-namespace",
            )


def outer_compare(repo: Repo, rep):
    rep.rule(
        "R-OUTER-COMPARE",
        "the testing drivers compare the caller's expectations (parameters such as changed_files, report, raises, reported_categories, stderr - usually "
        "snapshot()s of the *outer* test) only after the inner session state has been left: no comparison with a parameter of Example.run_inline / run_pytest "
        "lies inside a `with snapshot_env()` block.  Inside it the example's State is current: a mismatch is counted in a State that is thrown away and the "
        "example's own flags (fix/create) make the comparison answer True - a wrong outer snapshot gives a green test",
    )
    n = 0
    for key in ("testing/_example.py::Example.run_inline", "testing/_example.py::Example.run_pytest"):
        f = repo.func(key)
        params = set(f.params[1:])
        for x in body_nodes(f.node):
            if not isinstance(x, ast.Compare):
                continue
            if not any(isinstance(o, (ast.Eq, ast.NotEq, ast.LtE, ast.GtE, ast.In, ast.NotIn)) for o in x.ops):
                continue
            ops_ = [x.left] + list(x.comparators)
            used = [o.id for o in ops_ if isinstance(o, ast.Name) and o.id in params]
            # `p is not None` / `p == None` tests are not comparisons with the expectation
            if not used or any(isinstance(o, ast.Constant) and o.value is None for o in ops_):
                continue
            n += 1
            inside = None
            for a in ancestors(x):
                if isinstance(a, (ast.With, ast.AsyncWith)) and any(isinstance(i.context_expr, ast.Call) and norm(i.context_expr.func).split(".")[-1] == "snapshot_env" for i in a.items):
                    inside = a
                if a is f.node:
                    break
            if inside is None:
                rep.ok("R-OUTER-COMPARE", f, x, f"`{used[0]}` is compared outside the inner session state")
            else:
                rep.violation(
                    "R-OUTER-COMPARE",
                    f,
                    x,
                    f"{f.qualname} compares the caller's `{used[0]}` inside `with snapshot_env()`: the outer test's snapshot is evaluated while the example's State (its flags, its counters) is current - "
                    "a wrong or empty snapshot passed by the outer test is accepted and the test is green",
                    construct=f"{f.qualname}:{used[0]}",
                )
    rep.floor("R-OUTER-COMPARE", "comparisons with caller-supplied expectations", n, 4)


def driver_order(repo: Repo, rep):
    rep.rule(
        "R-DRIVER-ORDER",
        "the in-process driver runs the test functions of a file in definition order, like pytest: the loop / comprehension that picks the `test_*` "
        "callables iterates the module namespace (`<dict>.items()`) itself, not a sorted / reversed / set copy of it (tests that share a module-level "
        "snapshot used with `in` or `[key]` record their values in execution order); and the files it reports are read back as they are on disc "
        "(no codec that drops a byte order mark)",
    )
    f = repo.func("testing/_example.py::Example.run_inline")
    n = 0
    for x in body_nodes(f.node):
        it = None
        if isinstance(x, (ast.For, ast.comprehension)):
            tests = " ".join(norm(t) for t in (x.ifs if isinstance(x, ast.comprehension) else [s_.test for s_ in x.body if isinstance(s_, ast.If)]))
            if "test_" in tests or "startswith" in tests:
                it = x.iter
        if it is None:
            continue
        n += 1
        if isinstance(it, ast.Call) and isinstance(it.func, ast.Attribute) and it.func.attr == "items" and not it.args:
            rep.ok("R-DRIVER-ORDER", f, it, "test functions in definition order")
        else:
            rep.violation("R-DRIVER-ORDER", f, it, f"run_inline picks the test functions from `{short(it, 50)}`: their order is no longer the definition order pytest uses - for tests that share a snapshot (`in`, `[key]`) the helper creates `[10, 20]` where a real session creates `[20, 10]`", construct="test-order")
    rep.floor("R-DRIVER-ORDER", "selections of test_* callables in run_inline", n, 1)
    rf = repo.find_func("testing/_example.py", "Example._read_files")
    if rf is not None:
        for c in [x for x in body_nodes(rf.node) if isinstance(x, ast.Call) and isinstance(x.func, ast.Attribute) and x.func.attr == "read_text"]:
            enc = (c.args[0] if c.args else next((k.value for k in c.keywords if k.arg == "encoding"), None))
            if isinstance(enc, ast.Constant) and str(enc.value).lower().replace("_", "-") == "utf-8-sig":
                rep.violation("R-DRIVER-ORDER", rf, c, "Example._read_files decodes with utf-8-sig: the byte order mark that a real session keeps in the file is dropped from the reported `changed_files` and from the next step of a chain", construct="read-back-codec")
            else:
                rep.ok("R-DRIVER-ORDER", rf, c, "files are read back without dropping characters")


def collect_all(repo: Repo, rep):
    rep.rule(
        "R-COLLECT-ALL",
        "both drivers ask EVERY snapshot of the state for its changes: in the loop over `<state>.snapshots.values()` the call of `_changes()` is reached on "
        "every iteration (no `continue` / condition in front of it).  A filter in one driver - e.g. 'skip snapshots that recorded nothing' - drops exactly the "
        "never-compared snapshots, whose only changes are updates, from the plugin while run_inline still rewrites them",
    )
    from ..cfg import reach as _reach

    for k in DRIVERS:
        f = repo.func(k)
        cfg = cfg_of(f)
        loops = [n for n in cfg.live if n.kind == "for" and norm(n.ast.iter).endswith("snapshots.values()")]
        if not loops:
            # comprehension form: unconditional unless it has an `if`
            comps = [c for c in body_nodes(f.node) if isinstance(c, (ast.ListComp, ast.GeneratorExp, ast.SetComp)) and any(norm(g.iter).endswith("snapshots.values()") for g in c.generators)]
            if comps and not any(g.ifs for c in comps for g in c.generators):
                rep.ok("R-COLLECT-ALL", f, comps[0], "comprehension over all snapshots, no filter")
            elif comps:
                rep.violation("R-COLLECT-ALL", f, comps[0], f"{f.qualname} filters the snapshots whose changes are collected", construct=f"{f.qualname}:filter")
            else:
                rep.undecided("R-COLLECT-ALL", f"loop over the snapshots not found in {f.qualname}")
            continue
        for lp in loops:
            calls = [n for n in cfg.live for c in node_calls(n) if isinstance(c.func, ast.Attribute) and c.func.attr == "_changes"]
            calls += [n for n in cfg.live if n.kind == "for" and any(isinstance(c, ast.Call) and isinstance(c.func, ast.Attribute) and c.func.attr == "_changes" for c in ast.walk(n.ast.iter))]
            r = _reach(cfg, [b for b, l in lp.succ if l == "iter"], blocked_nodes=calls, skip_labels=("exc",))
            if lp in r:
                rep.violation("R-COLLECT-ALL", f, lp.ast, f"an iteration of the loop over the snapshots in {f.qualname} can skip `_changes()`: the changes of some snapshots (e.g. the updates of never-compared ones) are neither reported nor applied by this driver", construct=f"{f.qualname}:skip")
            else:
                rep.ok("R-COLLECT-ALL", f, lp.ast, "every snapshot is asked for its changes")
