"""C18 - end-of-session processing completes for every test program."""
from __future__ import annotations

import ast
from typing import Dict, List, Set

from ..callgraph import callgraph
from ..cfg import CFG, cfg_of, dominating_edges, edges_dominate, must_reach, node_calls, nodes_dominate, reach
from ..defuse import def_value, reaching_defs, resolve_alias
from ..esp import run_method, val_str, valuations
from ..model import Class, Func, Repo, ancestors, attr_chain, body_nodes, norm, parent, short
from .common import dispatch_ops, generic_class, op_table, undecided_class
from .emit import change_classes, emission_sites


def env_total(repo: Repo, rep):
    rep.rule(
        "R-ENV-TOTAL",
        "the plugin runs in whatever environment pytest was started in (cron, `docker exec` without a terminal, a reduced subprocess environment): an "
        "environment variable is read with a default (`os.environ.get(..)`, `os.getenv(..)`) or by subscript only where its presence was tested "
        "(`X in os.environ` on the path, or a handler for KeyError).  `os.environ[\"TERM\"]` in the report code raises KeyError when the variable is "
        "absent: INTERNALERROR at session end, the approved changes are not written",
    )
    n = 0
    bad = 0
    for f in repo.pkg_funcs():
        if f.module.rel.startswith("testing/"):
            continue
        subs = [x for x in body_nodes(f.node) if isinstance(x, ast.Subscript) and isinstance(x.ctx, ast.Load) and norm(x.value) in ("os.environ", "environ")]
        reads = [x for x in body_nodes(f.node) if isinstance(x, ast.Call) and norm(x.func) in ("os.environ.get", "environ.get", "os.getenv", "getenv")]
        n += len(subs) + len(reads)
        if not subs:
            continue
        cfg = cfg_of(f)
        for x in subs:
            key = norm(x.slice)
            at = cfg.nodes_containing(x)
            guards = [(c, "T") for c in cfg.conds() if isinstance(c.ast, ast.Compare) and len(c.ast.ops) == 1 and isinstance(c.ast.ops[0], ast.In) and norm(c.ast.left) == key and norm(c.ast.comparators[0]) == norm(x.value)]
            guards += [(c, "F") for c in cfg.conds() if isinstance(c.ast, ast.Compare) and len(c.ast.ops) == 1 and isinstance(c.ast.ops[0], ast.NotIn) and norm(c.ast.left) == key and norm(c.ast.comparators[0]) == norm(x.value)]
            handled = any(isinstance(a_, ast.Try) and any(h.type is None or any(t in norm(h.type) for t in ("KeyError", "LookupError", "Exception")) for h in a_.handlers) and any(x is y for s_ in a_.body for y in ast.walk(s_)) for a_ in ancestors(x))
            # `"TERM" in os.environ and os.environ["TERM"] == ...` inside one expression (a conditional expression is no branch of the statement graph)
            chain = [x] + list(ancestors(x))
            for child, a_ in zip(chain, chain[1:]):
                if isinstance(a_, ast.BoolOp) and isinstance(a_.op, ast.And):
                    idx = [i for i, v_ in enumerate(a_.values) if v_ is child]
                    if idx and any(isinstance(v_, ast.Compare) and len(v_.ops) == 1 and isinstance(v_.ops[0], ast.In) and norm(v_.left) == key and norm(v_.comparators[0]) == norm(x.value) for v_ in a_.values[: idx[0]]):
                        handled = True
                if isinstance(a_, ast.IfExp) and child is a_.body and isinstance(a_.test, ast.Compare) and len(a_.test.ops) == 1 and isinstance(a_.test.ops[0], ast.In) and norm(a_.test.left) == key and norm(a_.test.comparators[0]) == norm(x.value):
                    handled = True
                if isinstance(a_, ast.stmt):
                    break
            if handled or (at and guards and edges_dominate(cfg, guards, at[0])):
                rep.ok("R-ENV-TOTAL", f, x, f"`{norm(x)}` is read only where the variable is present")
            else:
                bad += 1
                rep.violation(
                    "R-ENV-TOTAL",
                    f,
                    x,
                    f"{f.qualname} reads `{norm(x)}` without a default and without testing that the variable is set: where it is absent (cron, `docker exec` without -t, a reduced subprocess environment) this is a "
                    "KeyError - raised from the end-of-session code it is an INTERNALERROR and the approved changes are not written",
                    construct=f"{f.qualname}:{norm(x)}",
                )
    if not bad:
        rep.ok("R-ENV-TOTAL", repo.module("pytest_plugin.py"), None, f"{n} reads of the environment, none can raise KeyError", site="src/inline_snapshot: os.environ reads")
    rep.floor("R-ENV-TOTAL", "reads of the process environment", n, 3)
    # positive example: the rule must match a known-bad fragment on every run
    probe = ast.parse('os.environ["TERM"]').body[0].value
    if not (isinstance(probe, ast.Subscript) and norm(probe.value) == "os.environ"):
        rep.undecided("R-ENV-TOTAL", "positive example not matched (rule broken)")


def check(repo: Repo, rep, tier):
    rep.not_decided = "absence of internal errors in general; only the enumerated error classes are decided"
    definite_init(repo, rep)
    env_total(repo, rep)
    end_no_usercmp(repo, rep)
    replace_pair(repo, rep, "C18")
    ctx_restore(repo, rep)
    nonoverlap(repo, rep)
    apply_exh(repo, rep)
    apply_routing(repo, rep)
    items_kind(repo, rep)
    changes_fresh(repo, rep)
    delete_exclusive(repo, rep)
    no_source(repo, rep)
    apply_once(repo, rep)
    write_fresh(repo, rep)
    nested_drop(repo, rep)
    rel_path_total(repo, rep)
    from .C03 import char_units

    char_units(repo, rep)
    from .C03 import element_parens

    element_parens(repo, rep)
    kwarg_position(repo, rep)
    node_none_guard(repo, rep)
    node_kind_tested(repo, rep)
    from .C03 import source_bom

    source_bom(repo, rep)
    from .C13 import files_registered, persist_remove, remove_literal

    remove_literal(repo, rep)

    # what is registered as a file with snapshots is parsed at session end; the unused externals are computed from the rewritten files
    files_registered(repo, rep)
    persist_remove(repo, rep)
    from .C10 import star_no_insert

    star_no_insert(repo, rep)
    from .C01 import import_step

    import_step(repo, rep)
    from .C02 import file_loops_total

    file_loops_total(repo, rep)
    from .C03 import io_encoding

    io_encoding(repo, rep)


SESSION_END = ("_get_changes", "_new_code")


def self_reads(repo: Repo, f: Func, cls: Class, seen=None) -> Dict[str, ast.AST]:
    """self.<attr> reads of f and of the self-methods it calls (within the class MRO)."""
    if seen is None:
        seen = set()
    if f.key in seen or not f.params:
        return {}
    seen.add(f.key)
    me = f.params[0]
    out: Dict[str, ast.AST] = {}
    # nested functions share `self` by closure
    for n in ast.walk(f.node):
        if isinstance(n, ast.Attribute) and isinstance(n.value, ast.Name) and n.value.id == me and isinstance(n.ctx, ast.Load):
            m = repo.lookup_method(cls, n.attr)
            if m is not None:
                if "property" in m.decorators or isinstance(parent(n), ast.Call) and parent(n).func is n:
                    for k, v in self_reads(repo, m, cls, seen).items():
                        out.setdefault(k, v)
                continue
            out.setdefault(n.attr, n)
    return out


def definite_init(repo: Repo, rep):
    rep.rule(
        "R-DEFINITE-INIT",
        "every attribute that a session-end method (_get_changes, _new_code and the self-methods/properties they use) of a dispatch class reads through self "
        "is assigned on every path of UndecidedValue.__init__, or has a class-level default in the MRO, or is stored on every returning path of the "
        "operation method that switches an object into that class, for every entry valuation with an undefined new value (first use), including compare-only mode",
    )
    uv = undecided_class(repo)
    init = uv.methods.get("__init__")
    if init is None:
        rep.undecided("R-DEFINITE-INIT", "UndecidedValue.__init__ missing")
        return
    icfg = cfg_of(init)
    me = init.params[0]
    init_attrs: Set[str] = set()
    for n in icfg.stmts(ast.Assign):
        for t in n.ast.targets:
            if isinstance(t, ast.Attribute) and isinstance(t.value, ast.Name) and t.value.id == me:
                if must_reach(icfg, icfg.entry, [n], [icfg.ret], skip_labels=("exc",)):
                    init_attrs.add(t.attr)
    rep.extra["init_attrs"] = sorted(init_attrs)
    ops = dispatch_ops(repo)
    classes = {op.cls.key: op for op in ops}
    n_reads = 0
    for op in list(classes.values()) + [None]:
        cls = op.cls if op else uv
        for mname in SESSION_END:
            m = repo.lookup_method(cls, mname)
            if m is None:
                continue
            reads = self_reads(repo, m, cls)
            for attr, node in sorted(reads.items()):
                n_reads += 1
                if attr in init_attrs:
                    rep.ok("R-DEFINITE-INIT", m, node, f"{cls.name}.{mname}: self.{attr} set in UndecidedValue.__init__")
                    continue
                dc = repo.defining_class(cls, attr)
                if dc is not None and (attr in dc.attrs or attr in dc.methods):
                    rep.ok("R-DEFINITE-INIT", m, node, f"{cls.name}.{mname}: self.{attr} has a class-level default in {dc.name}")
                    continue
                if op is None:
                    rep.violation("R-DEFINITE-INIT", m, node, f"UndecidedValue.{mname} reads self.{attr}, which __init__ does not set on every path", construct=f"{cls.name}.{attr}")
                    continue
                sw = uv.methods.get(op.dunder)
                if sw is not None:
                    scfg = cfg_of(sw)
                    sets = [x for x in scfg.stmts(ast.Assign) if any(isinstance(t, ast.Attribute) and t.attr == attr and isinstance(t.value, ast.Name) and t.value.id == sw.params[0] for t in x.ast.targets)]
                    if sets and must_reach(scfg, scfg.entry, sets, [scfg.ret], skip_labels=("exc",)):
                        rep.ok("R-DEFINITE-INIT", m, node, f"{cls.name}.{mname}: self.{attr} set by UndecidedValue.{op.dunder} when it switches the class")
                        continue
                # stored on every first-use path of the switching operation?
                bad = None
                for v, outs in op_table(repo, op):
                    if not v["NU"]:
                        continue
                    for o in outs:
                        if o.kind == "ret" and not any(e[0] == "store" and e[1] == attr for e in o.p.eff):
                            bad = (v, o)
                            break
                    if bad:
                        break
                if bad is None:
                    rep.ok("R-DEFINITE-INIT", m, node, f"{cls.name}.{mname}: self.{attr} stored on every first-use path of {op.label}")
                else:
                    from .common import trace_str

                    rep.violation(
                        "R-DEFINITE-INIT",
                        m,
                        node,
                        f"{cls.name}.{mname} reads self.{attr} at session end, but {op.label} can return on first use without assigning it (AttributeError -> INTERNALERROR)",
                        [val_str(bad[0]), trace_str(bad[1])],
                        construct=f"{cls.name}.{attr}",
                    )
    rep.floor("R-DEFINITE-INIT", "attribute reads of session-end methods", n_reads, 15)


CMP_USER = (ast.Eq, ast.NotEq, ast.In, ast.NotIn, ast.Lt, ast.LtE, ast.Gt, ast.GtE)


def _mentions_value(e: ast.AST, tainted: Set[str]) -> bool:
    for x in ast.walk(e):
        if isinstance(x, ast.Attribute) and x.attr in ("_old_value", "_new_value"):
            return True
        if isinstance(x, ast.Name) and x.id in tainted:
            return True
    return False


def _canonical_cmp(f, hit: ast.AST) -> str:
    """the comparison with its local names replaced by where they come from, so that the finding is the same finding after a
    rename or a hoist: a loop / comprehension variable is `elem(<what is iterated>)`, a local bound once to an attribute chain
    is that chain"""
    origin: Dict[str, str] = {}
    counts: Dict[str, int] = {}

    def bind(target, it):
        if isinstance(target, ast.Name):
            origin[target.id] = f"elem({norm(it)})"
        elif isinstance(target, (ast.Tuple, ast.List)) and isinstance(it, ast.Call) and isinstance(it.func, ast.Name) and it.func.id == "zip" and len(it.args) == len(target.elts):
            for t, a in zip(target.elts, it.args):
                bind(t, a)

    # loop / comprehension variables: the bindings that enclose the comparison, innermost first
    def bind_outer(target, it):
        before = dict(origin)
        bind(target, it)
        for k, v in before.items():
            origin[k] = v

    for a in ancestors(hit):
        if isinstance(a, (ast.ListComp, ast.SetComp, ast.GeneratorExp, ast.DictComp)):
            for g in reversed(a.generators):
                bind_outer(g.target, g.iter)
        elif isinstance(a, (ast.For, ast.AsyncFor)):
            bind_outer(a.target, a.iter)
        if a is f.node:
            break
    loops = set(origin)
    for x in ast.walk(f.node):
        if isinstance(x, ast.Assign) and len(x.targets) == 1 and isinstance(x.targets[0], ast.Name):
            nm = x.targets[0].id
            counts[nm] = counts.get(nm, 0) + 1
            v = x.value
            root = v
            while isinstance(root, ast.Attribute):
                root = root.value
            if isinstance(v, ast.Attribute) and isinstance(root, ast.Name) and nm not in loops:
                origin[nm] = norm(v)
    origin = {k: v for k, v in origin.items() if k in loops or counts.get(k, 0) <= 1}
    import copy

    h = copy.deepcopy(hit)
    for x in ast.walk(h):
        if isinstance(x, ast.Name) and x.id in origin:
            x.id = origin[x.id]
    return " ".join(norm(h).split())


def _is_tokenish(e: ast.AST) -> bool:
    s = norm(e)
    return "_token_of_node" in s or "token" in s.lower()


def end_no_usercmp(repo: Repo, rep):
    rep.rule(
        "R-END-NO-USERCMP",
        "session-end methods of the dispatch classes (_get_changes/_new_code, SnapshotReference._changes) execute no user-defined comparison "
        "(==, !=, <, <=, in, self.cmp(...)) on the old/new value or their elements outside a try: the comparison already ran - and possibly raised - "
        "inside the test; `is`, token-list comparisons and mapping-key membership are exempt",
    )
    ops = dispatch_ops(repo)
    uv = undecided_class(repo)
    funcs: List = []
    seen = set()
    for cls in [op.cls for op in ops] + [uv]:
        for mname in SESSION_END:
            m = repo.lookup_method(cls, mname)
            if m is not None and m.key not in seen:
                seen.add(m.key)
                funcs.append((m, cls))
    sr = repo.find_func("_inline_snapshot.py", "SnapshotReference._changes")
    if sr is not None:
        funcs.append((sr, None))
    n = 0
    for f, cls in funcs:
        is_mapping = False
        if cls is not None:
            for op in ops:
                if op.cls == cls:
                    for v, outs in op_table(repo, op)[:16]:
                        for o in outs:
                            if any(e[0] == "store" and e[1] == "_new_value" and e[2][0] == "dict" for e in o.p.eff):
                                is_mapping = True
        # locals derived from iterating the values
        tainted: Set[str] = set()
        for _ in range(2):
            for x in ast.walk(f.node):
                if isinstance(x, (ast.For, ast.comprehension)) and _mentions_value(x.iter, tainted):
                    for t in ast.walk(x.target):
                        if isinstance(t, ast.Name):
                            tainted.add(t.id)
                if isinstance(x, ast.Assign) and _mentions_value(x.value, tainted) and not isinstance(x.value, ast.Call):
                    for t in x.targets:
                        if isinstance(t, ast.Name):
                            tainted.add(t.id)
        # node-ish names are not values
        tainted = {t for t in tainted if "node" not in t}
        for x in ast.walk(f.node):
            hit = None
            if isinstance(x, ast.Compare) and any(isinstance(o, CMP_USER) for o in x.ops):
                operands = [x.left] + list(x.comparators)
                if any(_is_tokenish(o) for o in operands):
                    continue
                # `len(v) != len(node.keys)` compares two ints, whatever v is: not a comparison the user defined
                operands = [o for o in operands if not (isinstance(o, ast.Call) and isinstance(o.func, ast.Name) and o.func.id == "len")]
                if not any(_mentions_value(o, tainted) for o in operands):
                    continue
                if all(isinstance(o, (ast.In, ast.NotIn)) for o in x.ops) and is_mapping:
                    continue
                # `x is undefined`-style and None tests never reach here (Is/IsNot not in CMP_USER)
                hit = x
            elif isinstance(x, ast.Call) and isinstance(x.func, ast.Attribute) and x.func.attr == "cmp" and isinstance(x.func.value, ast.Name) and any(_mentions_value(a, tainted) for a in x.args):
                hit = x
            if hit is None:
                continue
            n += 1
            in_try = False
            for a in ancestors(hit):
                if isinstance(a, ast.Try) and a.handlers:
                    # inside the try body (not in a handler)
                    st = hit
                    while parent(st) is not a:
                        st = parent(st)
                    if st in a.body:
                        in_try = True
                if a is f.node:
                    break
            if in_try:
                rep.ok("R-END-NO-USERCMP", f, hit, f"`{short(hit, 40)}` guarded by try")
            else:
                rep.violation(
                    "R-END-NO-USERCMP",
                    f,
                    hit,
                    f"{f.qualname} re-runs the user comparison `{short(hit, 50)}` at session end, outside any try: a comparison that raised inside the test (e.g. `5 <= snapshot('a')`) raises again here -> INTERNALERROR",
                    construct=_canonical_cmp(f, hit),
                )
    rep.floor("R-END-NO-USERCMP", "user comparisons in session-end code", n, 1)


def replace_pair(repo: Repo, rep, prop):
    rep.rule(
        "R-REPLACE-PAIR",
        "at every update-detection site (a Replace whose guard compares `_token_of_node(N)` with a token list T): the Replace targets that same node N, "
        "its new_code is produced from the same T, and old_value/new_value are the value paired with N - otherwise an 'update' rewrites a different (larger) "
        "expression than the one it examined, changing the value and producing overlapping edits",
    )
    sites = [s for s in emission_sites(repo) if s.kind == "Replace"]
    n = 0
    for s in sites:
        # token comparisons among the dominating conditions
        tok = []
        for c, lab in s.dom_edges():
            e = c.ast
            if c.kind == "cond" and isinstance(e, ast.Compare) and len(e.ops) == 1 and isinstance(e.ops[0], (ast.NotEq, ast.Eq)):
                for a, b in ((e.left, e.comparators[0]), (e.comparators[0], e.left)):
                    if isinstance(a, ast.Call) and isinstance(a.func, ast.Attribute) and a.func.attr == "_token_of_node" and a.args:
                        tok.append((c, a.args[0], b))
        # also flag variables decided by such a comparison (ValueAdapter/MinMax style)
        from .emit import flag_values

        for lab, dnode, how in flag_values(s):
            if lab == "update" and how == "var":
                from ..cfg import dominating_edges

                from .emit import cfg_of_node, to_caller

                for c, l in dominating_edges(cfg_of_node(s, dnode), dnode):
                    e = c.ast
                    if c.kind == "cond" and isinstance(e, ast.Compare) and len(e.ops) == 1 and isinstance(e.ops[0], (ast.NotEq, ast.Eq)):
                        for a, b in ((e.left, e.comparators[0]), (e.comparators[0], e.left)):
                            if isinstance(a, ast.Call) and isinstance(a.func, ast.Attribute) and a.func.attr == "_token_of_node" and a.args:
                                tok.append((c, a.args[0], to_caller(dnode, b)))
        if not tok:
            continue
        n += 1
        tgt = s.args.get("node")
        for c, cmp_node, cmp_tokens in tok[:1]:
            if norm(tgt) != norm(cmp_node):
                rep.violation(
                    "R-REPLACE-PAIR",
                    s.func,
                    s.call,
                    f"{s.func.qualname} compares the tokens of `{norm(cmp_node)}` but replaces `{norm(tgt)}`: an update of one leaf rewrites the whole enclosing expression (value changes; two leaves => overlapping replacements)",
                    construct="replace-node",
                )
                continue
            # new_code derived from the compared token list
            nc = s.args.get("new_code")
            src = nc
            if isinstance(nc, ast.Name):
                src = resolve_alias(s.cfg, s.node, nc)
            uses_tokens = isinstance(cmp_tokens, ast.Name) and any(isinstance(x, ast.Name) and x.id == cmp_tokens.id for x in ast.walk(src))
            if not uses_tokens:
                rep.violation("R-REPLACE-PAIR", s.func, s.call, f"the code written (`{short(src, 40)}`) is not produced from the token list that was compared (`{norm(cmp_tokens)}`)", construct="replace-tokens")
                continue
            rep.ok("R-REPLACE-PAIR", s.func, s.call, f"compares and replaces `{norm(tgt)}` with code from `{norm(cmp_tokens)}`")
    rep.floor("R-REPLACE-PAIR", "update-detection sites", n, 4)


def ctx_restore(repo: Repo, rep):
    rep.rule(
        "R-CTX-RESTORE",
        "every @contextmanager generator of the package that writes module-level state before its yield restores it on every exit, including the "
        "exceptional successor of the yield (an exception raised in the with-body)",
    )
    n = 0
    for f in repo.pkg_funcs():
        if not any(d.endswith("contextmanager") for d in f.decorators):
            continue
        n += 1
        cfg = cfg_of(f)  # gen_throw is on for contextmanagers
        gl = {nm for s in ast.walk(f.node) if isinstance(s, ast.Global) for nm in s.names}
        ys = [x for x in cfg.live if x.is_yield]
        writes = [x for x in cfg.stmts(ast.Assign) if any(isinstance(t, ast.Name) and t.id in gl for t in x.ast.targets)]
        pre = [w for w in writes if any(y in reach(cfg, [w]) for y in ys)]
        if not pre:
            rep.ok("R-CTX-RESTORE", f, f.node, "writes no module-level state before the yield")
            continue
        for w in pre:
            names = [t.id for t in w.ast.targets if isinstance(t, ast.Name) and t.id in gl]
            post = [x for x in writes if x is not w and any(t.id in names for t in x.ast.targets if isinstance(t, ast.Name)) and x not in pre]
            bad = False
            for y in ys:
                r = reach(cfg, [b for b, _ in y.succ], blocked_nodes=post)
                if cfg.exc in r or cfg.ret in r:
                    bad = True
            if bad:
                rep.violation(
                    "R-CTX-RESTORE",
                    f,
                    w.ast,
                    f"{f.qualname} sets `{names[0]}` before the yield and does not restore it when the with-body raises (no try/finally): e.g. an __eq__ raising during alignment leaves compare-only mode on for the rest of the session",
                    construct=f"restore:{names[0]}",
                )
            else:
                rep.ok("R-CTX-RESTORE", f, w.ast, f"`{names[0]}` restored on every exit")
    rep.floor("R-CTX-RESTORE", "context managers", n, 5)


def nonoverlap(repo: Repo, rep):
    rep.rule(
        "R-NONOVERLAP",
        "every append to a SourceFile's replacements is followed by _check() before the function returns; in new_code() _check() and the sort of the "
        "replacement list dominate their application",
    )
    cg = callgraph(repo)
    # the recording step is found by what it does (a method of Change that appends to `<source>.replacements`), not by its name
    def _is_app(c):
        return isinstance(c, ast.Call) and isinstance(c.func, ast.Attribute) and c.func.attr in ("append", "extend", "insert") and "replacements" in norm(c.func.value)

    total = 0
    for g in repo.pkg_funcs():
        if not any(_is_app(c) for c in body_nodes(g.node)):
            continue
        owner = g.module.rel == "_rewrite_code.py" and g.cls is not None and g.cls.name == "Change"
        if not owner:
            for c in body_nodes(g.node):
                if _is_app(c) and norm(c.func.value).endswith(".replacements"):
                    rep.violation("R-NONOVERLAP", g, c, f"{g.qualname} appends to a replacement list outside class Change (no overlap check)", construct="foreign-append")
            continue
        cfg = cfg_of(g)
        apps = [n for n in cfg.live for c in node_calls(n) if _is_app(c)]
        chk = [n for n in cfg.live for c in node_calls(n) if isinstance(c.func, ast.Attribute) and c.func.attr == "_check"]
        total += len(apps)
        for a in apps:
            if chk and must_reach(cfg, a, chk, [cfg.ret], skip_labels=("exc",)):
                rep.ok("R-NONOVERLAP", g, a.ast, "_check() after the append")
            else:
                rep.violation("R-NONOVERLAP", g, a.ast, "a replacement is recorded without the non-overlap check", construct="append")
    rep.floor("R-NONOVERLAP", "appends to replacements", total, 1)
    g = repo.func("_rewrite_code.py::SourceFile.new_code")
    gcfg = cfg_of(g)
    appl = [n for n in gcfg.live for c in node_calls(n) if norm(c.func).endswith("util.replace") or norm(c.func) == "replace"]
    chk = [n for n in gcfg.live for c in node_calls(n) if isinstance(c.func, ast.Attribute) and c.func.attr == "_check"]
    srt = [n for n in gcfg.live for c in node_calls(n) if (isinstance(c.func, ast.Attribute) and c.func.attr == "sort") or norm(c.func) == "sorted"]
    rep.floor("R-NONOVERLAP", "application sites in new_code", len(appl), 1)
    for a in appl:
        if chk and nodes_dominate(gcfg, chk, a):
            rep.ok("R-NONOVERLAP", g, a.ast, "_check() dominates the application")
        else:
            rep.violation("R-NONOVERLAP", g, a.ast, "replacements are applied without the non-overlap check: overlapping edits corrupt the file silently", construct="apply-check")
        if srt and nodes_dominate(gcfg, srt, a):
            rep.ok("R-NONOVERLAP", g, a.ast, "replacements sorted before application")
        else:
            rep.violation("R-NONOVERLAP", g, a.ast, "replacements are applied unsorted (asttokens.util.replace needs ascending ranges)", construct="apply-sort")
    # _check itself: asserts pairwise end <= start over the sorted list
    ck = repo.func("_rewrite_code.py::SourceFile._check")
    asserts = [a for a in body_nodes(ck.node) if isinstance(a, ast.Assert)]
    pair = [a for a in asserts if isinstance(a.test, ast.Compare) and "end" in norm(a.test.left) and "start" in norm(a.test.comparators[0]) and isinstance(a.test.ops[0], (ast.LtE, ast.Lt)) and norm(a.test.left).split(".")[0] != norm(a.test.comparators[0]).split(".")[0]]
    if pair:
        rep.ok("R-NONOVERLAP", ck, pair[0], "_check asserts lhs.end <= rhs.start for neighbours")
    else:
        rep.violation("R-NONOVERLAP", ck, ck.node, "_check no longer asserts that neighbouring replacements do not overlap", construct="check-body")


def apply_exh(repo: Repo, rep):
    rep.rule(
        "R-APPLY-EXH",
        "every Change subclass that is instantiated in the package is routed by an isinstance branch of apply_all or overrides apply(); apply_all has a "
        "branch for each parent node kind its emitters produce (List/Tuple, Dict, Call) and its fall-through fails loudly",
    )
    f = repo.func("_change.py::apply_all")
    kinds = change_classes(repo)
    routed: Set[str] = set()
    parent_kinds: Set[str] = set()
    cfg0 = cfg_of(f)
    cond_calls = [c.ast for c in cfg0.conds() if isinstance(c.ast, ast.Call)]
    for n in cond_calls:
        if isinstance(n, ast.Call) and isinstance(n.func, ast.Name) and n.func.id == "isinstance" and len(n.args) == 2:
            names = [x.id for x in ast.walk(n.args[1]) if isinstance(x, ast.Name)] + [x.attr for x in ast.walk(n.args[1]) if isinstance(x, ast.Attribute)]
            for nm in names:
                if nm in kinds:
                    routed.add(nm)
                if nm in ("List", "Tuple", "Dict", "Call"):
                    parent_kinds.add(nm)
    base = repo.cls("Change", "_change.py")
    used = sorted({s.kind for s in emission_sites(repo)})
    for k in used:
        ap = repo.lookup_method(kinds[k], "apply")
        if k in routed or (ap is not None and ap.cls != base):
            rep.ok("R-APPLY-EXH", f, f.node, f"{k}: " + ("routed by isinstance" if k in routed else "has its own apply()"), site=f"src/inline_snapshot/_change.py apply_all:{k}")
        else:
            rep.violation("R-APPLY-EXH", f, f.node, f"changes of kind {k} are emitted but apply_all neither routes them nor do they define apply(): NotImplementedError at session end", construct=f"kind:{k}")
    rep.floor("R-APPLY-EXH", "instantiated Change kinds", len(used), 5)
    need = {"List", "Tuple", "Dict", "Call"}
    for k in sorted(need):
        if k in parent_kinds:
            rep.ok("R-APPLY-EXH", f, f.node, f"parent kind ast.{k} handled", site=f"src/inline_snapshot/_change.py apply_all:parent:{k}")
        else:
            rep.violation("R-APPLY-EXH", f, f.node, f"apply_all has no branch for parent nodes of kind ast.{k}", construct=f"parent:{k}")
    cfg = cfg_of(f)
    if any(n.kind == "assertfail" for n in cfg.live) or any(isinstance(n.ast, ast.Raise) for n in cfg.stmts(ast.Raise)):
        rep.ok("R-APPLY-EXH", f, f.node, "unknown parent kinds fail loudly", site="src/inline_snapshot/_change.py apply_all:fallthrough")
    else:
        rep.violation("R-APPLY-EXH", f, f.node, "apply_all silently ignores parents of an unknown kind (edits are dropped)", construct="fallthrough")


def items_kind(repo: Repo, rep):
    rep.rule(
        "R-ITEMS-KIND",
        "sibling agreement of the adapters' items(value, node): when the node is not of the AST kind the adapter expects (a value referenced by name, a "
        "call, ...) every implementation returns the elements with node=None; none of them asserts the kind (an assert is an AssertionError at session end "
        "for every never-compared snapshot of that shape)",
    )
    base = repo.cls("Adapter", "_adapter/adapter.py")
    n = 0
    for c in repo.all_classes():
        if c == base or base not in repo.mro(c) or "items" not in c.methods:
            continue
        m = c.methods["items"]
        node_p = m.params[2] if len(m.params) > 2 else None
        cfg = cfg_of(m)
        n += 1
        asserts = [a for a in body_nodes(m.node) if isinstance(a, ast.Assert) and any(isinstance(x, ast.Call) and norm(x.func) == "isinstance" and x.args and norm(x.args[0]) == node_p for x in ast.walk(a.test))]
        conds = [cn for cn in cfg.conds() if isinstance(cn.ast, ast.Call) and norm(cn.ast.func) == "isinstance" and cn.ast.args and norm(cn.ast.args[0]) == node_p]
        conds = [cn for cn in conds if not any(cn.ast is x for a in asserts for x in ast.walk(a.test))]
        if asserts:
            rep.violation(
                "R-ITEMS-KIND",
                m,
                asserts[0],
                f"{c.name}.items asserts the AST kind of the node instead of falling back to node=None like its siblings: a never-compared `snapshot(a)` whose argument is such a value written as a name (or any other expression) ends the session with an AssertionError",
                construct=f"{c.name}.items:assert",
            )
        elif conds:
            rep.ok("R-ITEMS-KIND", m, conds[0].ast, f"{c.name}.items falls back to node=None for an unexpected node kind")
        else:
            rep.violation("R-ITEMS-KIND", m, m.node, f"{c.name}.items never tests the AST kind of the node it pairs the elements with", construct=f"{c.name}.items:notest")
    rep.floor("R-ITEMS-KIND", "items() implementations", n, 3)


def no_source(repo: Repo, rep):
    rep.rule(
        "R-NO-SOURCE",
        "changes of a snapshot whose call expression is unknown (exec'd code, no source) have no node; they may be reported but never applied: in apply_all "
        "every use of a change (routing by its node's parent, change.apply) is dominated by the `change.node is None` false edge",
    )
    f = repo.func("_change.py::apply_all")
    cfg = cfg_of(f)
    loops = [n for n in cfg.live if n.kind == "for" and isinstance(n.ast.target, ast.Name) and isinstance(n.ast.iter, ast.Name) and n.ast.iter.id == f.params[0]]
    if not loops:
        rep.undecided("R-NO-SOURCE", "loop over the changes not found in apply_all")
        return
    from ..cfg import edges_dominate

    n_use = 0
    for lp in loops[:1]:
        v = lp.ast.target.id
        guards = []
        for c in cfg.conds():
            t = norm(c.ast)
            if t == f"{v}.node is None":
                guards.append((c, "F"))
            elif t == f"{v}.node is not None":
                guards.append((c, "T"))
        body = reach(cfg, [b for b, l in lp.succ if l == "iter"], blocked_nodes=[lp])
        for nd in body:
            if nd.kind not in ("stmt",):
                continue
            uses = [x for x in ast.walk(nd.ast) if isinstance(x, ast.Attribute) and isinstance(x.value, ast.Name) and x.value.id == v and x.attr in ("node", "apply", "file")]
            if not uses:
                continue
            n_use += 1
            if guards and edges_dominate(cfg, guards, nd):
                rep.ok("R-NO-SOURCE", f, nd.ast, f"`{short(nd.ast, 40)}` only for changes that have a node")
            else:
                rep.violation("R-NO-SOURCE", f, nd.ast, f"apply_all uses `{short(nd.ast, 50)}` for a change whose node may be None (snapshot() without known call expression, e.g. `exec(\"assert 1 == snapshot()\")` + create): AttributeError / `assert False` at session end", construct=norm(nd.ast)[:60])
    rep.floor("R-NO-SOURCE", "uses of a change in apply_all's routing loop", n_use, 3)


def apply_once(repo: Repo, rep):
    rep.rule(
        "R-APPLY-ONCE",
        "apply_all merges all changes of one container into a single edit, so every recorder receives the changes of a file through ONE apply_all call: two "
        "apply_all calls on the same recorder (approved changes first, the category under review second) produce two independent edits of the same list/dict/call "
        "that overlap",
    )
    cg = callgraph(repo)
    n = 0
    for f in repo.pkg_funcs():
        if f.module.rel.startswith("@"):
            continue
        cfg = None
        calls = []
        for c in body_nodes(f.node):
            if isinstance(c, ast.Call) and len(c.args) >= 2 and isinstance(c.args[1], ast.Name):
                tg = cg.resolve_callee(c, f)
                if any(getattr(t, "key", "") == "_change.py::apply_all" for t in tg):
                    calls.append(c)
        if not calls:
            continue
        cfg = cfg_of(f)
        for c in calls:
            n += 1
        seen = set()
        for c1 in calls:
            for c2 in calls:
                if c1 is c2:
                    n1 = cfg.nodes_containing(c1)
                    r = c1.args[1].id
                    defs = [d for d in cfg.live if r in __import__("sa.defuse", fromlist=["node_defs"]).node_defs(d)]
                    if n1 and n1[0] in reach(cfg, [b for b, _ in n1[0].succ], blocked_nodes=defs):
                        rep.violation("R-APPLY-ONCE", f, c1, f"{f.qualname} calls `{short(c1, 50)}` repeatedly (in a loop) on one recorder `{r}` that is created outside the loop: the edits of every iteration pile up in it and overlap", construct=f"loop:{norm(c1)}")
                    continue
                n1, n2 = cfg.nodes_containing(c1), cfg.nodes_containing(c2)
                if not n1 or not n2 or c1.args[1].id != c2.args[1].id:
                    continue
                r = c1.args[1].id
                d1 = set(reaching_defs(cfg, n1[0], r))
                d2 = set(reaching_defs(cfg, n2[0], r))
                # the second call is reachable from the first without the recorder being rebound
                defs = [d for d in cfg.live if r in __import__("sa.defuse", fromlist=["node_defs"]).node_defs(d)]
                if (d1 & d2) and n2[0] in reach(cfg, [b for b, _ in n1[0].succ], blocked_nodes=defs):
                    rep.violation(
                        "R-APPLY-ONCE",
                        f,
                        c2,
                        f"{f.qualname} calls apply_all twice on the same recorder `{r}` (`{short(c1, 40)}` and `{short(c2, 40)}`): e.g. `s = snapshot([1, 2,])` on several lines with `2 in s; 3 in s` and fix,trim ends the session with the overlap AssertionError of _check()",
                        construct=f"{norm(c1)}+{norm(c2)}",
                    )
        
    rep.floor("R-APPLY-ONCE", "apply_all call sites", n, 3)
    if not any(o.verdict == "violation" and o.rule == "R-APPLY-ONCE" for o in rep.obl):
        rep.ok("R-APPLY-ONCE", repo.func("_change.py::apply_all"), None, f"{n} call sites, one per recorder", site="apply_all call sites")


def changes_fresh(repo: Repo, rep):
    rep.rule(
        "R-CHANGES-FRESH",
        "in EqValue.__eq__ every `self._changes.append(...)` is dominated by a `self._changes = []` of the same invocation (conditions that repeat are "
        "correlated): a recording pass that is interrupted by an exception and then repeated must not keep the partial list, else the same edit is recorded twice and overlaps",
    )
    from ..defuse import correlated_edges

    for op in dispatch_ops(repo):
        if op.dunder != "__eq__":
            continue
        f = op.func
        cfg = cfg_of(f)
        me = f.params[0]
        apps = [n for n in cfg.live for c in node_calls(n) if isinstance(c.func, ast.Attribute) and c.func.attr in ("append", "extend") and norm(c.func.value) == f"{me}._changes"]
        resets = [n for n in cfg.stmts(ast.Assign) if any(norm(t) == f"{me}._changes" for t in n.ast.targets)]
        rep.floor("R-CHANGES-FRESH", "appends to _changes", len(apps), 1)
        for a in apps:
            if resets and a not in reach(cfg, [cfg.entry], blocked_nodes=resets, blocked_edges=correlated_edges(cfg, a)):
                rep.ok("R-CHANGES-FRESH", f, a.ast, "_changes reset before it is filled")
            else:
                rep.violation("R-CHANGES-FRESH", f, a.ast, f"{op.label} appends to self._changes without resetting it in the same call: if the first recording pass raises half-way (an element's __eq__ raises) and the snapshot is evaluated again, the changes recorded so far are recorded a second time and the edits overlap at session end", construct="append-without-reset")


def delete_exclusive(repo: Repo, rep):
    rep.rule(
        "R-DELETE-EXCLUSIVE",
        "in a _get_changes that can both delete an element (Delete under `element not in new value`) and rewrite an element (Replace) of the same container, "
        "the Replace is reachable only on the `element in new value` edge: one node never gets a Delete and a Replace (their ranges overlap)",
    )
    from .C05 import facts_at

    by_func = {}
    for s in emission_sites(repo):
        by_func.setdefault(s.func.key, []).append(s)
    n = 0
    for k, ss in by_func.items():
        dels = [s for s in ss if s.kind == "Delete" and s.func.name == "_get_changes"]
        reps = [s for s in ss if s.kind == "Replace"]
        for d in dels:
            df = facts_at(d.cfg, d.node)
            for r in reps:
                if norm(d.args.get("node")) != norm(r.args.get("node")):
                    continue
                n += 1
                rf = facts_at(r.cfg, r.node)
                if "NOT_IN_NEW" in df and "IN_NEW" in rf:
                    rep.ok("R-DELETE-EXCLUSIVE", r.func, r.call, f"Replace of `{norm(r.args.get('node'))}` only for elements that are kept")
                else:
                    rep.violation("R-DELETE-EXCLUSIVE", r.func, r.call, f"{r.func.qualname} can emit a Delete and a Replace for the same `{norm(r.args.get('node'))}` (the Replace is not restricted to elements that are kept): with trim and update approved the two edits overlap and the session ends with an AssertionError", construct="delete+replace")
    rep.floor("R-DELETE-EXCLUSIVE", "Delete/Replace pairs on one node", n, 1)


def write_fresh(repo: Repo, rep):
    rep.rule(
        "R-WRITE-FRESH",
        "in both drivers the recorder whose fix_all() writes the files is created by `ChangeRecorder()` for that purpose (not an alias of a recorder used for "
        "previews) and receives the changes through exactly one apply_all call (plus ensure_import): all edits of a container are merged in one pass",
    )
    cg = callgraph(repo)
    for key in ("pytest_plugin.py::pytest_sessionfinish", "testing/_example.py::Example.run_inline"):
        f = repo.func(key)
        cfg = cfg_of(f)
        fixes = [(n, c) for n in cfg.live for c in node_calls(n) if any(t.key == "_rewrite_code.py::ChangeRecorder.fix_all" for t in cg.call_targets(f, c)[0]) and isinstance(c.func, ast.Attribute) and isinstance(c.func.value, ast.Name)]
        rep.floor("R-WRITE-FRESH", f"fix_all sites in {f.qualname}", len(fixes), 1)
        for n, c in fixes:
            r = c.func.value.id
            ds = reaching_defs(cfg, n, r, correlate=True)
            vals = [def_value(d, r) for d in ds]
            fresh = bool(vals) and all(isinstance(v, ast.Call) and norm(v.func).endswith("ChangeRecorder") for v in vals)
            if not fresh:
                rep.violation("R-WRITE-FRESH", f, c, f"{f.qualname} writes the files with a recorder that is `{short(vals[0], 40) if vals and vals[0] is not None else '?'}` - not a recorder created for the final write: it still carries the edits of the per-category previews (applied in separate passes), which do not compose with the approved changes", construct="not-fresh")
                continue
            feeds = []
            for m in cfg.live:
                for cc in node_calls(m):
                    if any(t.key == "_change.py::apply_all" for t in cg.call_targets(f, cc)[0]) and len(cc.args) >= 2 and isinstance(cc.args[1], ast.Name) and cc.args[1].id == r:
                        if set(reaching_defs(cfg, m, r)) & set(ds) and n in reach(cfg, [m]):
                            feeds.append(cc)
            if len(feeds) == 1 and not isinstance(feeds[0].args[0], (ast.Name, ast.ListComp, ast.GeneratorExp)):
                rep.violation("R-WRITE-FRESH", f, c, f"the recorder written by {f.qualname} is fed with `{short(feeds[0].args[0], 40)}` - a preview mixture, not the list of changes selected for writing", construct="feed-expr")
            elif len(feeds) == 1:
                rep.ok("R-WRITE-FRESH", f, c, f"fresh recorder `{r}`, one apply_all")
            else:
                rep.violation("R-WRITE-FRESH", f, c, f"the recorder written by {f.qualname} is fed by {len(feeds)} apply_all calls; the edits of one container must be merged in exactly one", construct=f"feeds:{len(feeds)}")


def nested_drop(repo: Repo, rep):
    rep.rule(
        "R-NESTED-DROP",
        "a nested snapshot() whose enclosing element/argument is replaced or deleted as a whole must not contribute edits of its own (they lie inside the "
        "removed range and overlap): in apply_all every routing/application of a change is dominated by the false edge of a containment test - a call of a "
        "package function that follows the node's `.parent` chain and tests membership in the set of nodes of the Replace/Delete changes",
    )
    cg = callgraph(repo)
    f = repo.func("_change.py::apply_all")
    cfg = cfg_of(f)
    loops = [n for n in cfg.live if n.kind == "for" and isinstance(n.ast.target, ast.Name) and isinstance(n.ast.iter, ast.Name) and n.ast.iter.id == f.params[0]]
    if not loops:
        rep.undecided("R-NESTED-DROP", "routing loop not found")
        return
    lp = loops[0]
    v = lp.ast.target.id

    def is_containment(g) -> bool:
        follows_parent = any(isinstance(x, ast.Attribute) and x.attr == "parent" for x in body_nodes(g.node)) or any(isinstance(x, ast.Call) and norm(x.func) == "getattr" and len(x.args) >= 2 and isinstance(x.args[1], ast.Constant) and x.args[1].value == "parent" for x in body_nodes(g.node))
        loops_ = any(isinstance(x, (ast.While, ast.For)) for x in body_nodes(g.node))
        member = any(isinstance(x, ast.Compare) and any(isinstance(o, ast.In) for o in x.ops) for x in body_nodes(g.node))
        return follows_parent and loops_ and member

    guards = []
    for c in cfg.conds():
        e = c.ast
        if isinstance(e, ast.Call) and e.args and norm(e.args[0]) == f"{v}.node":
            tg, _ = cg.call_targets(f, e)
            if any(is_containment(t) for t in tg):
                # the set handed over is built from the Replace/Delete changes
                ok_set = False
                set_name = None
                if len(e.args) > 1 and isinstance(e.args[1], ast.Name):
                    set_name = e.args[1].id
                else:
                    # the test is a closure of apply_all: the set is the local it reads in its membership test
                    for t in tg:
                        if not is_containment(t) or t.node not in list(ast.walk(f.node)):
                            continue
                        bound = set(t.params) | {x.id for x in body_nodes(t.node) if isinstance(x, ast.Name) and isinstance(x.ctx, ast.Store)}
                        for x in body_nodes(t.node):
                            if isinstance(x, ast.Compare) and any(isinstance(o, ast.In) for o in x.ops) and isinstance(x.comparators[0], ast.Name) and x.comparators[0].id not in bound:
                                set_name = x.comparators[0].id
                if set_name is not None:
                    good_defs = []
                    ds_ = reaching_defs(cfg, c, set_name)
                    for d in ds_:
                        dv = def_value(d, set_name)
                        # built from the Replace/Delete changes of the very list this call applies (the function's own parameter)
                        if dv is not None and "Replace" in norm(dv) and "Delete" in norm(dv) and ".node" in norm(dv) and any(isinstance(g_, ast.comprehension) and norm(g_.iter) == f.params[0] for g_ in ast.walk(dv)):
                            good_defs.append(d)
                    from ..cfg import nodes_dominate as _nd

                    # every definition qualifies and one of them lies on every path (a parameter / default that by-passes them
                    # would carry a set computed from some other list of changes)
                    ok_set = bool(good_defs) and len(good_defs) == len(ds_) and _nd(cfg, good_defs, c) and set_name not in f.params
                    if good_defs and not ok_set:
                        rep.violation(
                            "R-NESTED-DROP",
                            f,
                            e,
                            f"the set of removed nodes `{set_name}` can come from outside apply_all (a parameter / an earlier computation) instead of the list of changes this call applies: "
                            "a change of a category that is NOT applied (an unapproved update of the parent) then hides the approved change of a nested snapshot()",
                            construct="removed-set-foreign",
                        )
                if ok_set:
                    guards.append((c, "F"))
    from ..cfg import edges_dominate

    body = reach(cfg, [b for b, l in lp.succ if l == "iter"], blocked_nodes=[lp])
    n_use = 0
    bad = False
    for nd in body:
        if nd.kind != "stmt":
            continue
        uses = [x for x in ast.walk(nd.ast) if isinstance(x, ast.Attribute) and isinstance(x.value, ast.Name) and x.value.id == v and x.attr in ("apply",)] + [x for x in ast.walk(nd.ast) if isinstance(x, ast.Subscript) and "by_parent" in norm(x.value)]
        if not uses:
            continue
        n_use += 1
        if not (guards and edges_dominate(cfg, guards, nd)):
            bad = True
            rep.violation(
                "R-NESTED-DROP",
                f,
                nd.ast,
                f"apply_all applies `{short(nd.ast, 40)}` without checking that the change does not lie inside a node that is replaced or deleted as a whole: `assert 3 == snapshot([snapshot(2 + 3)])` + fix,update produces overlapping replacements (AssertionError at session end)",
                construct=norm(nd.ast)[:60],
            )
    if not bad and n_use:
        rep.ok("R-NESTED-DROP", f, lp.ast, f"{n_use} routing/application sites behind the containment test")
    rep.floor("R-NESTED-DROP", "routing/application sites", n_use, 2)
    # insertions: their node IS the container they insert into, so the container itself counts (a nested `snapshot()` without value
    # whose call is deleted as an element: the create is an insertion into that very call)
    for c, _ in guards:
        e = c.ast
        extra = list(e.args[2:]) + [k.value for k in e.keywords]
        covers_self = False
        for a in extra:
            vals = [a]
            if isinstance(a, ast.Name):
                vals = [def_value(d, a.id) for d in reaching_defs(cfg, c, a.id)]
            for x in vals:
                if x is not None and "isinstance" in norm(x) and any(k in norm(x) for k in ("ListInsert", "DictInsert", "CallArg")):
                    covers_self = True
        # or a separate membership test of the node itself for the insertion kinds
        for c2 in cfg.conds():
            t = c2.ast
            if isinstance(t, ast.Compare) and len(t.ops) == 1 and isinstance(t.ops[0], ast.In) and norm(t.left) == f"{v}.node":
                covers_self = True
        if covers_self:
            rep.ok("R-NESTED-DROP", f, e, "for insertions the container itself counts as removed node")
        else:
            rep.violation(
                "R-NESTED-DROP",
                f,
                e,
                "the containment test starts at the parent of the node for every kind of change: an insertion (whose node is the container it inserts into) is still applied when that very container is deleted or replaced - "
                "`assert [1, 2, 3] == snapshot([snapshot(), 1, 2])` + create,fix gives a create inside the deleted element (overlapping edits, AssertionError at session end)",
                construct="insertion-into-removed-container",
            )


# parent node kind -> the insertion kind its emitters produce (SequenceAdapter -> ListInsert on a List/Tuple display,
# DictAdapter / DictValue -> DictInsert on a Dict display, GenericCallAdapter -> CallArg on a Call) and the child lists that are enumerated
PARENT_TABLE = {
    "List": ("ListInsert", {"elts"}),
    "Tuple": ("ListInsert", {"elts"}),
    "Call": ("CallArg", {"args", "keywords"}),
    "Dict": ("DictInsert", {"keys", "values"}),
}


def _isinstance_kinds(e, subject):
    """the classes of `isinstance(<subject>, K)`; subject None = whatever plain variable is tested"""
    if isinstance(e, ast.Call) and norm(e.func) == "isinstance" and len(e.args) == 2 and (norm(e.args[0]) == subject or (subject is None and isinstance(e.args[0], ast.Name))):
        t = e.args[1]
        return [x.attr if isinstance(x, ast.Attribute) else x.id for x in (t.elts if isinstance(t, ast.Tuple) else [t]) if isinstance(x, (ast.Name, ast.Attribute))]
    return None


def apply_routing(repo: Repo, rep):
    rep.rule(
        "R-APPLY-ROUTING",
        "apply_all routes by kind on the right edges: (A) in the grouping loop a change is filed under the *parent* of its node exactly on the true edge of "
        "isinstance(change, Delete), under its own node on the true edge of the insertion kinds, and handed to change.apply() only on the false edges of "
        "both; (B) per parent, the branch on the true edge of isinstance(parent, K) consumes the insertion kind of K (List/Tuple: ListInsert, Call: CallArg, "
        "Dict: DictInsert) and no other, enumerates K's own child lists, marks exactly the elements found in the delete set as removed "
        "(`None if e in to_delete else <range>`), and calls generic_sequence_update once",
    )
    f = repo.func("_change.py::apply_all")
    cfg = cfg_of(f)
    kinds = change_classes(repo)
    insert_kinds = {k for k in kinds if k in ("DictInsert", "ListInsert", "CallArg")}
    loops = [n for n in cfg.live if n.kind == "for"]
    p0 = f.params[0]
    group = [l for l in loops if norm(l.ast.iter) == p0]
    if not group:
        rep.undecided("R-APPLY-ROUTING", "grouping loop over the changes not found")
        return
    var = norm(group[0].ast.target)

    def kind_edges(node):
        out = {}
        for c, l in dominating_edges(cfg, node):
            ks = _isinstance_kinds(c.ast, var) if c.kind == "cond" else None
            if ks:
                for k in ks:
                    out[k] = l
        return out

    # (A)
    a_n = 0
    for n in cfg.live:
        if n.kind != "stmt":
            continue
        e = n.ast
        # X = <change.node ...>.parent
        if isinstance(e, ast.Assign) and any(isinstance(x, ast.Attribute) and x.attr == "parent" and f"{var}.node" in norm(x.value) for x in ast.walk(e.value)):
            a_n += 1
            ke = kind_edges(n)
            if ke.get("Delete") == "T" and not any(ke.get(k) == "T" for k in insert_kinds):
                rep.ok("R-APPLY-ROUTING", f, e, "a Delete is filed under the parent of its node")
            else:
                rep.violation("R-APPLY-ROUTING", f, e, f"the parent of the node is taken on the edges {ke or 'none'} instead of the true edge of isinstance({var}, Delete): deletions are grouped under the wrong container / insertions under the container's parent", construct="group:parent")
        if isinstance(e, ast.Assign) and isinstance(e.value, ast.Call) and norm(e.value.func) == "cast" and norm(e.value.args[-1]) == f"{var}.node" or (isinstance(e, ast.Assign) and norm(e.value) == f"{var}.node"):
            a_n += 1
            ke = kind_edges(n)
            if any(ke.get(k) == "T" for k in insert_kinds) and ke.get("Delete") != "T":
                rep.ok("R-APPLY-ROUTING", f, e, "an insertion is filed under its own node")
            else:
                rep.violation("R-APPLY-ROUTING", f, e, f"a change is filed under its own node on the edges {ke or 'none'} instead of the true edge of the insertion kinds", construct="group:own")
        for c in node_calls(n):
            if isinstance(c.func, ast.Attribute) and c.func.attr == "apply" and norm(c.func.value) == var:
                a_n += 1
                ke = kind_edges(n)
                if ke.get("Delete") == "F" and all(ke.get(k) == "F" for k in insert_kinds):
                    rep.ok("R-APPLY-ROUTING", f, c, "apply() only for kinds that are neither Delete nor an insertion")
                else:
                    rep.violation("R-APPLY-ROUTING", f, c, f"`{norm(c)}` is reached on the edges {ke or 'none'}: a Delete / insertion (which have no apply() of their own) can be sent there, or a Replace be grouped instead", construct="group:apply")
    rep.floor("R-APPLY-ROUTING", "grouping actions", a_n, 3)
    # (B)
    pvar = None
    for l in loops:
        if l is not group[0] and isinstance(l.ast.target, ast.Tuple) and ".items()" in norm(l.ast.iter):
            pvar = norm(l.ast.target.elts[0])
            ploop = l
    if pvar is None:
        rep.undecided("R-APPLY-ROUTING", "loop over the grouped parents not found")
        return
    pconds = [c for c in cfg.conds() if _isinstance_kinds(c.ast, pvar)]
    b_n = 0
    for c in pconds:
        ks = [k for k in _isinstance_kinds(c.ast, pvar) if k in PARENT_TABLE]
        if not ks:
            continue
        region = reach(cfg, [b for b, l in c.succ if l == "T"], blocked_nodes=[x for x in pconds if x is not c] + [ploop])
        exprs = []
        for nd in region:
            if nd.ast is not None:
                exprs.append(nd.ast)
        want_kind, want_lists = PARENT_TABLE[ks[0]]
        used_kinds = set()
        gsu = []
        for e in exprs:
            for x in ast.walk(e):
                ik = _isinstance_kinds(x, None)  # the comprehension variable over the grouped changes, whatever it is called
                if ik:
                    used_kinds |= set(ik) & insert_kinds
                if isinstance(x, ast.Call) and norm(x.func).endswith("generic_sequence_update") and x not in gsu:
                    gsu.append(x)
        b_n += 1
        label = "/".join(ks)
        if used_kinds != {want_kind}:
            rep.violation("R-APPLY-ROUTING", f, c.ast, f"the branch for ast.{label} parents consumes {sorted(used_kinds) or 'no insertion kind'} instead of {want_kind}: insertions into a {label} are dropped or formatted as another container's entries", construct=f"branch:{label}:kind")
            continue
        if len(gsu) != 1:
            rep.violation("R-APPLY-ROUTING", f, c.ast, f"the branch for ast.{label} parents calls generic_sequence_update {len(gsu)} times (expected once)", construct=f"branch:{label}:update-calls")
            continue
        call = gsu[0]
        elems = call.args[3] if len(call.args) > 3 else None
        lists = {x.attr for x in ast.walk(elems) if isinstance(x, ast.Attribute) and norm(x.value) == pvar} if elems is not None else set()
        if not (lists and lists <= want_lists and (want_lists <= lists)):
            rep.violation("R-APPLY-ROUTING", f, call, f"the branch for ast.{label} parents enumerates `{sorted(lists)}` of the parent instead of {sorted(want_lists)}", construct=f"branch:{label}:children")
            continue
        ife = [x for x in ast.walk(elems) if isinstance(x, ast.IfExp) and isinstance(x.test, ast.Compare) and len(x.test.ops) == 1 and isinstance(x.test.ops[0], (ast.In, ast.NotIn))]
        good = False
        for x in ife:
            none_side = x.body if isinstance(x.test.ops[0], ast.In) else x.orelse
            if isinstance(none_side, ast.Constant) and none_side.value is None:
                good = True
        if ife and not good:
            rep.violation("R-APPLY-ROUTING", f, ife[0], f"`{short(ife[0], 60)}`: the elements marked as removed are those NOT in the delete set - every element the user did not delete is removed from the source", construct=f"branch:{label}:delete-polarity")
            continue
        rep.ok("R-APPLY-ROUTING", f, c.ast, f"ast.{label}: consumes {want_kind}, enumerates {sorted(lists)}, removes exactly the delete set, one update call")
    rep.floor("R-APPLY-ROUTING", "parent branches", b_n, 3)


DISPLAY_ATTRS = ("elts", "keys", "values", "keywords", "args")


def _kind_predicate(repo: Repo, f, call: ast.Call, base: str) -> bool:
    """does the called package function return a truthy value only on paths behind `isinstance(<the parameter that receives base>, ...)`?"""
    cg = callgraph(repo)
    tg, _ = cg.call_targets(f, call)
    if len(tg) != 1:
        return False
    g = tg[0]
    idx = [i for i, a_ in enumerate(call.args) if norm(a_) == base]
    if not idx:
        return False
    params = g.params[1:] if g.is_method() else g.params
    if idx[0] >= len(params):
        return False
    p = params[idx[0]]
    gcfg = cfg_of(g)
    kind = [(cn, "T") for cn in gcfg.conds() if isinstance(cn.ast, ast.Call) and norm(cn.ast.func) == "isinstance" and len(cn.ast.args) == 2 and norm(cn.ast.args[0]) == p and not any(b.kind == "assertfail" for b, l in cn.succ)]
    if not kind:
        return False
    through = reach(gcfg, [gcfg.entry], blocked_edges=kind)
    for r in gcfg.stmts(ast.Return):
        v = r.ast.value
        falsy = v is None or (isinstance(v, ast.Constant) and not v.value)
        if not falsy and r in through:
            return False
    return not (gcfg.ret in through and False)


def node_kind_tested(repo: Repo, rep):
    rep.rule(
        "R-NODE-KIND-TESTED",
        "the argument of snapshot() is an arbitrary expression - a dict may be written `dict(a=1)`, a collection as a tuple, a set or a variable: in the "
        "snapshot classes and adapters every read of a display-specific child list of a node (`.elts`, `.keys`, `.values`, `.keywords`) is dominated by the "
        "true edge of an `isinstance(<that node>, ast.<Kind>)` *test* (an if / a guard that falls back), never merely by an `assert`: an assertion turns a "
        "legal test program into an AssertionError in the test or an internal error at session end",
    )
    n = 0
    for f in repo.pkg_funcs():
        if not (f.module.rel.startswith("_snapshot/") or f.module.rel.startswith("_adapter/")):
            continue
        sites = []
        for x in body_nodes(f.node):
            if isinstance(x, ast.Attribute) and x.attr in DISPLAY_ATTRS and isinstance(x.ctx, ast.Load):
                par = parent(x)
                if isinstance(par, ast.Call) and par.func is x:
                    continue  # mapping.keys() / .values()
                sites.append(x)
        if not sites:
            continue
        cfg = cfg_of(f)
        for x in sites:
            base = norm(x.value)
            at = cfg.nodes_containing(x)
            if not at:
                continue
            n += 1
            # every path to the read passes the true edge of a kind test of that node - or is a path on which the node is None
            # (`X is not None` false / `X is None` true / after `X = None`), where the read is skipped by a None test of its own
            kind_edges, assert_edges, none_edges, none_stores = [], [], [], []
            for cn in cfg.conds():
                e = cn.ast
                if isinstance(e, ast.Call) and norm(e.func) == "isinstance" and len(e.args) == 2 and norm(e.args[0]) == base:
                    if any(b.kind == "assertfail" for b, l in cn.succ):
                        assert_edges.append((cn, "T"))
                    else:
                        kind_edges.append((cn, "T"))
                elif isinstance(e, ast.Call) and any(norm(a_) == base for a_ in e.args) and _kind_predicate(repo, f, e, base):
                    # `if self._is_call_of_x(node):` - a predicate helper that answers truthy only behind its own kind test of that argument
                    kind_edges.append((cn, "T"))
                t = norm(e)
                if t == f"{base} is not None":
                    none_edges.append((cn, "F"))
                elif t == f"{base} is None":
                    none_edges.append((cn, "T"))
            for st in cfg.stmts(ast.Assign):
                if any(norm(t_) == base for t_ in st.ast.targets) and isinstance(st.ast.value, ast.Constant) and st.ast.value.value is None:
                    none_stores.append(st)
            through = reach(cfg, [cfg.entry], blocked_edges=kind_edges + none_edges, blocked_nodes=none_stores)
            tested = bool(kind_edges) and not any(nd in through for nd in at)
            asserted = bool(assert_edges)
            if not tested and f.parent is not None and isinstance(x.value, ast.Name) and x.value.id not in f.params:
                # a nested function reading the node of the enclosing function: its definition stands behind the kind test there
                pcfg = cfg_of(f.parent)
                dn = [n_ for n_ in pcfg.live if n_.kind == "stmt" and n_.ast is f.node]
                k_edges, n_edges, n_stores = [], [], []
                for cn in pcfg.conds():
                    e_ = cn.ast
                    if isinstance(e_, ast.Call) and norm(e_.func) == "isinstance" and len(e_.args) == 2 and norm(e_.args[0]) == base and not any(b.kind == "assertfail" for b, l in cn.succ):
                        k_edges.append((cn, "T"))
                    t_ = norm(e_)
                    if t_ == f"{base} is not None":
                        n_edges.append((cn, "F"))
                    elif t_ == f"{base} is None":
                        n_edges.append((cn, "T"))
                for st_ in pcfg.stmts(ast.Assign):
                    if any(norm(t_) == base for t_ in st_.ast.targets) and isinstance(st_.ast.value, ast.Constant) and st_.ast.value.value is None:
                        n_stores.append(st_)
                thr = reach(pcfg, [pcfg.entry], blocked_edges=k_edges + n_edges, blocked_nodes=n_stores)
                if k_edges and dn and not any(nd in thr for nd in dn):
                    rep.ok("R-NODE-KIND-TESTED", f, x, f"`{norm(x)}`: the nested function is defined behind the kind test of {f.parent.qualname}")
                    continue
            if not tested:
                # a helper that receives a node it does not test: judged at its call sites (the caller tested) - accept parameters of private helpers
                if isinstance(x.value, ast.Name) and x.value.id in f.params and (f.name.startswith("_") or f.parent is not None):
                    # ... which is checked: at every call of the helper the argument for that parameter is behind a kind test (or None)
                    pidx = f.params.index(x.value.id) - (1 if f.is_method() else 0)
                    cg_ = callgraph(repo)
                    bad_call = None
                    for cf, c_, how in cg_.callers.get(f.key, []):
                        arg = c_.args[pidx] if 0 <= pidx < len(c_.args) else next((k.value for k in c_.keywords if k.arg == x.value.id), None)
                        if arg is None or (isinstance(arg, ast.Constant) and arg.value is None):
                            continue
                        abase = norm(arg)
                        ccfg = cfg_of(cf)
                        k_edges, n_edges, n_stores = [], [], []
                        for cn in ccfg.conds():
                            e_ = cn.ast
                            if isinstance(e_, ast.Call) and norm(e_.func) == "isinstance" and len(e_.args) == 2 and norm(e_.args[0]) == abase and not any(b.kind == "assertfail" for b, l in cn.succ):
                                k_edges.append((cn, "T"))
                            elif isinstance(e_, ast.Call) and any(norm(a_) == abase for a_ in e_.args) and _kind_predicate(repo, cf, e_, abase):
                                k_edges.append((cn, "T"))
                            t_ = norm(e_)
                            if t_ == f"{abase} is not None":
                                n_edges.append((cn, "F"))
                            elif t_ == f"{abase} is None":
                                n_edges.append((cn, "T"))
                        for st_ in ccfg.stmts(ast.Assign):
                            if any(norm(t_) == abase for t_ in st_.ast.targets) and isinstance(st_.ast.value, ast.Constant) and st_.ast.value.value is None:
                                n_stores.append(st_)
                        at_ = ccfg.nodes_containing(c_)
                        # a caller that is itself a helper receiving the node is judged at its own callers (one level)
                        if isinstance(arg, ast.Name) and arg.id in cf.params and (cf.name.startswith("_") or cf.parent is not None) and not k_edges:
                            continue
                        thr = reach(ccfg, [ccfg.entry], blocked_edges=k_edges + n_edges, blocked_nodes=n_stores)
                        if not k_edges or not at_ or any(nd in thr for nd in at_):
                            bad_call = (cf, c_)
                    if bad_call is None:
                        rep.ok("R-NODE-KIND-TESTED", f, x, f"`{norm(x)}`: node handed to a helper by callers that tested it")
                        continue
                    rep.violation(
                        "R-NODE-KIND-TESTED",
                        bad_call[0],
                        bad_call[1],
                        f"{bad_call[0].qualname} hands `{short(bad_call[1], 50)}` a node whose kind has not been tested yet at that point, and {f.qualname} reads `{norm(x)}`: for a snapshot argument that is no call (a variable, e.g. `snapshot(ADMIN)`) "
                        "this is an AttributeError while the changes are collected at session end",
                        construct=f"{bad_call[0].qualname}->{f.qualname}:{norm(x)}",
                    )
                    continue
                # a private method reading a field of its own object (`self._ast_node.keys`): every call of it stands behind the kind test
                if f.cls is not None and f.name.startswith("_") and not f.name.startswith("__") and f.params and base.startswith(f.params[0] + "."):
                    cg_ = callgraph(repo)
                    calls_ = [(cf, c_) for cf, c_, how in cg_.callers.get(f.key, [])]
                    all_ok = bool(calls_)
                    for cf, c_ in calls_:
                        ccfg = cfg_of(cf)
                        cbase = (cf.params[0] if cf.params else "self") + base[len(f.params[0]):]
                        k_edges, n_edges = [], []
                        for cn in ccfg.conds():
                            e = cn.ast
                            if isinstance(e, ast.Call) and norm(e.func) == "isinstance" and len(e.args) == 2 and norm(e.args[0]) == cbase and not any(b.kind == "assertfail" for b, l in cn.succ):
                                k_edges.append((cn, "T"))
                        at_ = ccfg.nodes_containing(c_)
                        thr = reach(ccfg, [ccfg.entry], blocked_edges=k_edges)
                        if not k_edges or not at_ or any(nd in thr for nd in at_):
                            all_ok = False
                    if all_ok:
                        rep.ok("R-NODE-KIND-TESTED", f, x, f"`{norm(x)}`: every call of {f.qualname} stands behind the kind test of its caller")
                        continue
                rep.violation(
                    "R-NODE-KIND-TESTED",
                    f,
                    x,
                    f"{f.qualname} reads `{norm(x)}` {'behind an `assert isinstance(...)`' if asserted else 'without testing the kind of the node'}: for a snapshot argument written in another form "
                    "(`dict(a=1)`, a tuple, a variable) the test fails with an AssertionError / AttributeError or the session ends with an internal error",
                    construct=f"{f.qualname}:{norm(x)}",
                )
            else:
                rep.ok("R-NODE-KIND-TESTED", f, x, f"`{norm(x)}` behind an isinstance test")
    rep.floor("R-NODE-KIND-TESTED", "reads of display-specific child lists", n, 8)


def rel_path_total(repo: Repo, rep):
    rep.rule(
        "R-REL-PATH-TOTAL",
        "session-end code never lets `Path.relative_to()` decide whether the session completes: every relative_to() call in pytest_plugin.py sits in a `try` "
        "with a ValueError (or broader) handler or behind an is_relative_to() test.  The test files of a session need not live below the current directory "
        "(`pytest --rootdir=proj proj/test_a.py` started elsewhere); an unguarded call ends the session with an internal error before anything is written",
    )
    n = 0
    for f in repo.pkg_funcs():
        if f.module.rel != "pytest_plugin.py":
            continue
        for c in [x for x in body_nodes(f.node) if isinstance(x, ast.Call) and isinstance(x.func, ast.Attribute) and x.func.attr == "relative_to"]:
            n += 1
            guarded = False
            for a in ancestors(c):
                if isinstance(a, ast.Try) and any(c is y for s in a.body for y in ast.walk(s)) and any(h.type is None or any(k in norm(h.type) for k in ("ValueError", "Exception")) for h in a.handlers):
                    guarded = True
                if isinstance(a, (ast.If, ast.IfExp)) and "is_relative_to" in norm(a.test):
                    guarded = True
                if a is f.node:
                    break
            if guarded:
                rep.ok("R-REL-PATH-TOTAL", f, c, "relative_to() guarded")
            else:
                rep.violation("R-REL-PATH-TOTAL", f, c, f"`{short(c, 60)}` in {f.qualname} raises ValueError for a test file outside that directory: the session ends with an internal error and the approved changes are not written", construct=f"{f.qualname}:relative_to")
    rep.count("relative_to_calls", n)
    if n == 0:
        rep.ok("R-REL-PATH-TOTAL", repo.func("pytest_plugin.py::pytest_sessionfinish"), None, "no relative_to() in the plugin", site="src/inline_snapshot/pytest_plugin.py: relative_to")


def kwarg_position(repo: Repo, rep):
    rep.rule(
        "R-KWARG-POSITION",
        "producer/consumer agreement on CallArg.arg_pos: apply_all uses it as an index into ALL arguments of the call (`parent.args + keyword values`); "
        "so the counter from which GenericCallAdapter.assign takes the position of an inserted *keyword* argument starts at the number of positional "
        "arguments of the source call (`len(<node>.args)`), not at 0 - unless apply_all adds that offset itself.  Otherwise `A(1, c=3)` that gains `b` "
        "is rewritten to `A(b = 2, 1, c=3)` (SyntaxError at session end, nothing in the session is written)",
    )
    ap = repo.func("_change.py::apply_all")
    consumer_offsets = any(isinstance(x, ast.BinOp) and isinstance(x.op, ast.Add) and "arg_pos" in norm(x) and ".args" in norm(x) for x in body_nodes(ap.node))
    combined = any(isinstance(x, ast.BinOp) and isinstance(x.op, ast.Add) and ".args" in norm(x.left) and "keywords" in norm(x.right) for x in body_nodes(ap.node))
    n = 0
    for s in emission_sites(repo):
        if s.kind != "CallArg":
            continue
        nm = s.args.get("arg_name")
        pos = s.args.get("arg_pos")
        if nm is None or (isinstance(nm, ast.Constant) and nm.value is None) or pos is None:
            continue
        if not isinstance(pos, ast.Name):
            continue
        n += 1
        inits = [def_value(d, pos.id) for d in reaching_defs(s.cfg, s.node, pos.id)]
        inits = [v for v in inits if v is not None]
        from ..defuse import defs_of

        all_inits = [def_value(d, pos.id) for d in defs_of(s.cfg, pos.id) if d.kind == "stmt" and isinstance(d.ast, ast.Assign)]
        starts_at_args = any(v is not None and ".args" in norm(v) for v in all_inits)
        if consumer_offsets or not combined or starts_at_args:
            rep.ok("R-KWARG-POSITION", s.func, s.call, "keyword insert position counts the positional arguments too")
        else:
            rep.violation(
                "R-KWARG-POSITION",
                s.func,
                s.call,
                f"{s.func.qualname} numbers an inserted keyword argument from `{' / '.join(sorted({norm(v) for v in all_inits if v is not None})) or '?'}` while apply_all indexes positional and keyword arguments together: "
                "in a call with positional arguments the new keyword is written in front of them (`A(b = 2, 1, c=3)`, SyntaxError at session end)",
                construct=f"{s.func.qualname}:kw-position",
            )
    rep.floor("R-KWARG-POSITION", "keyword CallArg emission sites", n, 1)


def node_none_guard(repo: Repo, rep):
    rep.rule(
        "R-NODE-NONE-GUARD",
        "a snapshot created from code without source (eval / exec / a compiled string) has no AST node: every `_token_of_node(<node>)` call in the adapters "
        "and snapshot values is dominated by a test that this very node is not None (`<node> is not None` true, `<node> is None` false, or the node's "
        "truthiness) - a test of something else that merely happens to be None in the same situations (`self._file._source`) does not protect it: executing "
        "still returns a Source object for such frames, and the call raises AttributeError at session end for every flag combination",
    )
    n = 0
    for f in repo.pkg_funcs():
        if not (f.module.rel.startswith("_snapshot/") or f.module.rel.startswith("_adapter/")):
            continue
        calls = [c for c in body_nodes(f.node) if isinstance(c, ast.Call) and isinstance(c.func, ast.Attribute) and c.func.attr == "_token_of_node" and c.args]
        if not calls:
            continue
        cfg = cfg_of(f)
        for c in calls:
            nn = cfg.nodes_containing(c)
            if not nn:
                continue
            n += 1
            e = norm(c.args[0])
            guards = []
            for cn in cfg.conds():
                t = norm(cn.ast)
                if t == f"{e} is not None" or t == e:
                    guards.append((cn, "T"))
                elif t == f"{e} is None":
                    guards.append((cn, "F"))
            # the call may sit in the condition that follows the guard in an `and` chain: the guard's edge then dominates that condition node
            if guards and edges_dominate(cfg, guards, nn[0]):
                rep.ok("R-NODE-NONE-GUARD", f, c, f"`{e}` is known not to be None")
            else:
                # a parameter that callers only pass when they hold a node (helper taking the node): judged where it is called
                if isinstance(c.args[0], ast.Name) and c.args[0].id in f.params and f.parent is not None:
                    pcfg = cfg_of(f.parent)
                    ok_all = True
                    for call in [x for x in body_nodes(f.parent.node) if isinstance(x, ast.Call) and isinstance(x.func, ast.Name) and x.func.id == f.name]:
                        idx = f.params.index(c.args[0].id)
                        a = call.args[idx] if idx < len(call.args) else None
                        pn = pcfg.nodes_containing(call)
                        if a is None or not pn:
                            ok_all = False
                            continue
                        ae = norm(a)
                        pg = [(cn, "T") for cn in pcfg.conds() if norm(cn.ast) in (f"{ae} is not None", ae)] + [(cn, "F") for cn in pcfg.conds() if norm(cn.ast) == f"{ae} is None"]
                        if not (pg and edges_dominate(pcfg, pg, pn[0])):
                            ok_all = False
                    if ok_all:
                        rep.ok("R-NODE-NONE-GUARD", f, c, f"`{e}`: every call of the helper passes a node that was tested")
                        continue
                    # the helper itself may test it
                rep.violation("R-NODE-NONE-GUARD", f, c, f"`{short(c, 50)}` in {f.qualname} is not protected by a test that `{e}` is not None: for a snapshot in code without source (eval/exec) the node is None and the session ends with an AttributeError", construct=f"{f.qualname}:{e}")
    rep.floor("R-NODE-NONE-GUARD", "_token_of_node call sites", n, 3)
