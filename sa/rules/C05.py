"""C05 - each category means what the documentation says (label/guard consistency)."""
from __future__ import annotations

import ast
from typing import List, Optional, Set, Tuple

from ..cfg import CFG, Node, cfg_of, dominating_edges, node_calls, reach
from ..defuse import def_value, defs_of, reaching_defs
from ..esp import UNKNOWN, run_function
from ..model import Func, Repo, ancestors, body_nodes, norm, short
from .C18 import replace_pair
from .emit import Site, cfg_of_node, emission_sites, flag_values

INSERT_KINDS = {"ListInsert", "DictInsert", "CallArg", "AddArgument"}

from .C17 import clone_def
from .C02 import same_type


def child_node_total(repo: Repo, rep):
    rep.rule(
        "R-CHILD-NODE",
        "a sub-snapshot `snapshot({..})[key]` gets the source node of its value whenever the structure allows it: in DictValue.__getitem__ the "
        "assignment of `<node>.values[<position>]` depends only on the structural guards (the node is a dict display, the key is in the old value, no "
        "`**` entry, as many keys as nodes, the node exists) - it is not placed inside a `try` and is not conditional on anything else (how the key is "
        "written, whether it can be literal_eval'ed).  Without its node the changes of the sub-snapshot are dropped by apply_all: `fix` reports success and "
        "the source keeps the old value",
    )
    c = None
    for k in repo.all_classes():
        if k.name == "DictValue" and k.module.rel == "_snapshot/dict_value.py":
            c = k
    f = c.methods.get("__getitem__") if c is not None else None
    if f is None:
        rep.undecided("R-CHILD-NODE", "DictValue.__getitem__ not found")
        return
    cfg = cfg_of(f)
    picks = [n for n in cfg.stmts(ast.Assign) if isinstance(n.ast.value, ast.Subscript) and isinstance(n.ast.value.value, ast.Attribute) and n.ast.value.value.attr == "values" and "node" in norm(n.ast.value.value.value)]
    rep.floor("R-CHILD-NODE", "child-node selections in DictValue.__getitem__", len(picks), 1)

    def structural(e) -> bool:
        t = norm(e)
        if isinstance(e, ast.Call) and norm(e.func) == "isinstance" and "ast." in t:
            return True
        if isinstance(e, ast.Compare) and len(e.ops) == 1:
            if isinstance(e.ops[0], (ast.In, ast.NotIn)) and ("old_value" in norm(e.comparators[0]) or "_new_value" in norm(e.comparators[0])):
                return True
            if isinstance(e.ops[0], (ast.Is, ast.IsNot)) and ("undefined" in t or "None" in t):
                return True
            if isinstance(e.ops[0], (ast.Eq, ast.NotEq)) and "len(" in t:
                return True
        if isinstance(e, ast.Call) and norm(e.func) in ("any", "all") and "is None" in t.replace("is not None", "is None"):
            return True
        return False

    _structural_plain = structural

    def structural(e) -> bool:  # noqa: F811 - the plain test plus predicate helpers
        if _structural_plain(e):
            return True
        # the guards moved into a predicate of the class / module (`self._keys_match_nodes(old_value)`): it looks at nothing but lengths,
        # None-ness and node kinds - no try, no call that evaluates or renders anything
        if isinstance(e, ast.Call):
            g = None
            if isinstance(e.func, ast.Attribute) and isinstance(e.func.value, ast.Name) and f.params and e.func.value.id == f.params[0]:
                g = repo.lookup_method(c, e.func.attr)
            elif isinstance(e.func, ast.Name):
                g = f.module.funcs.get(e.func.id)
            if g is not None and not any(isinstance(x, ast.Try) for x in body_nodes(g.node)):
                calls = [norm(x.func).split(".")[-1] for x in body_nodes(g.node) if isinstance(x, ast.Call)]
                if all(nm in ("len", "any", "all", "isinstance", "list", "keys", "index", "zip") for nm in calls):
                    return True
        return False

    for n in picks:
        in_try = [a for a in ancestors(n.ast) if isinstance(a, ast.Try)]
        other = [cn for cn, lab in dominating_edges(cfg, n) if cn.kind == "cond" and not structural(cn.ast)]
        if in_try:
            rep.violation("R-CHILD-NODE", f, n.ast, f"`{short(n.ast, 50)}` stands inside a `try` statement: whether the sub-snapshot gets its source node depends on whether something else raised (e.g. literal_eval of a key written as a name) - without the node its fix is silently not applied", construct="child-node-in-try")
        elif other:
            rep.violation("R-CHILD-NODE", f, n.ast, f"`{short(n.ast, 50)}` is conditional on `{short(other[0].ast, 50)}`, which is no structural property of the dict display: for the entries that fail it the sub-snapshot has no source node and its fix is silently not applied", construct="child-node-conditional")
        else:
            rep.ok("R-CHILD-NODE", f, n.ast, "the value node is chosen under structural guards only")


def check(repo: Repo, rep, tier):
    rep.not_decided = "that the values after a run are the documented function of the whole history of comparisons; tightness of trimmed values"
    flag_label(repo, rep)
    replace_pair(repo, rep, "C05")
    bound_order(repo, rep)
    same_type(repo, rep)
    clone_def(repo, rep)
    positional_map(repo, rep)
    emit_complete(repo, rep)
    insert_once(repo, rep)
    from .C11 import align_complete, align_window, pair_len, by_key, equal_keeps

    pair_len(repo, rep)
    by_key(repo, rep)
    equal_keeps(repo, rep)
    from .C16 import codegen_pure

    # the text of a created / fixed value is a function of that value alone (no memo shared between snapshots)
    codegen_pure(repo, rep)
    from .C14 import accumulate

    accumulate(repo, rep)
    align_window(repo, rep)
    align_complete(repo, rep)
    from .C01 import default_guard
    from .C14 import site_key

    default_guard(repo, rep)
    site_key(repo, rep)
    from .C03 import char_units, range_prov

    range_prov(repo, rep)
    char_units(repo, rep)
    from .C12 import codegen_text

    codegen_text(repo, rep)
    from .C10 import update_walk_total

    update_walk_total(repo, rep)
    from .C18 import ctx_restore

    ctx_restore(repo, rep)
    child_node_total(repo, rep)


def role(e: ast.AST) -> str:
    t = norm(e)
    o = "old" in t
    n = "new" in t
    if o and not n:
        return "old"
    if n and not o:
        return "new"
    return "?"


def facts_of_cond(cfg: CFG, c: Node, label: str, depth=0) -> Set[str]:
    """Semantic facts known when condition node c took edge `label`."""
    e = c.ast
    out: Set[str] = set()
    T = label == "T"
    if isinstance(e, ast.Name):
        # `gone = key not in new_value; if gone:` - a condition computed into a local first
        ds = reaching_defs(cfg, c, e.id)
        if len(ds) == 1:
            v = def_value(ds[0], e.id)
            if isinstance(v, ast.UnaryOp) and isinstance(v.op, ast.Not):
                v, T = v.operand, not T
            if isinstance(v, (ast.Compare, ast.Call)) and not isinstance(v, ast.Name):
                e = v
    if isinstance(e, ast.Compare) and len(e.ops) == 1:
        op, l, r = e.ops[0], e.left, e.comparators[0]
        if isinstance(op, (ast.Eq, ast.NotEq)):
            eq = T if isinstance(op, ast.Eq) else not T
            if "_token_of_node" in norm(l) or "_token_of_node" in norm(r) or "token" in norm(l) + norm(r):
                out.add("TOK_SAME" if eq else "TOK_DIFF")
            elif {role(l), role(r)} == {"old", "new"}:
                out.add("EQ" if eq else "NEQ")
        if isinstance(op, (ast.Is, ast.IsNot)) and norm(r) == "undefined":
            und = T if isinstance(op, ast.Is) else not T
            if role(l) == "old":
                out.add("OLD_UNDEF" if und else "OLD_DEF")
        if isinstance(op, (ast.In, ast.NotIn)):
            inn = T if isinstance(op, ast.In) else not T
            if isinstance(r, ast.Name) and role(r) == "?":
                # membership in a local derived from the new/old value
                for d in reaching_defs(cfg, c, r.id):
                    v = def_value(d, r.id)
                    if isinstance(v, (ast.DictComp, ast.ListComp, ast.SetComp, ast.GeneratorExp)):
                        src = role(v.generators[0].iter)
                        filtered = any(g.ifs for g in v.generators)
                        if src == "new":
                            out.add(("IN_NEW" if inn else "NOT_IN_NEW") + ("_SUBSET" if filtered else ""))
                        if src == "old":
                            out.add(("IN_OLD" if inn else "NOT_IN_OLD") + ("_SUBSET" if filtered else ""))
            if role(r) == "new":
                out.add("IN_NEW" if inn else "NOT_IN_NEW")
            if role(r) == "old":
                out.add("IN_OLD" if inn else "NOT_IN_OLD")
            if isinstance(r, ast.Constant) and isinstance(r.value, str) and isinstance(l, ast.Name):
                out.add(("LETTER_IN:" if inn else "LETTER_NOTIN:") + r.value)
        if isinstance(op, ast.Eq) and isinstance(r, ast.Constant) and isinstance(r.value, str) and len(r.value) == 1 and T:
            out.add("LETTER:" + r.value)
        if isinstance(op, (ast.Gt, ast.Lt)) and "len(" in norm(l) and "len(" in norm(r) and T:
            out.add("LEN_DIFF")
            # fewer positional arguments in the *source* than the new value reports
            small, big = (l, r) if isinstance(op, ast.Lt) else (r, l)
            if norm(small).endswith(".args)") and role(big) == "new":
                out.add("SRC_FEWER")
    if isinstance(e, ast.Call) and isinstance(e.func, ast.Attribute) and e.func.attr == "cmp" and len(e.args) == 2:
        a, b = role(e.args[0]), role(e.args[1])
        if (a, b) == ("old", "new"):
            out.add("CMP_ON_T" if T else "CMP_ON_F")
        if (a, b) == ("new", "old"):
            out.add("CMP_NO_T" if T else "CMP_NO_F")
    if isinstance(e, ast.Name) and T and depth < 2:
        # truthiness of a local container: what was put into it?
        for d in defs_of(cfg, e.id):
            v = def_value(d, e.id)
            if isinstance(v, (ast.ListComp, ast.GeneratorExp)):
                for g in v.generators:
                    for i in g.ifs:
                        for cmpn in [x for x in ast.walk(i) if isinstance(x, ast.Compare) and len(x.ops) == 1]:
                            if isinstance(cmpn.ops[0], ast.NotIn) and role(cmpn.comparators[0]) == "old":
                                out.add("SOME_NOT_IN_OLD")
        for n in cfg.live:
            for cc in node_calls(n):
                if isinstance(cc.func, ast.Attribute) and cc.func.attr == "append" and isinstance(cc.func.value, ast.Name) and cc.func.value.id == e.id:
                    for c2, l2 in dominating_edges(cfg, n):
                        if c2.kind == "cond":
                            for f in facts_of_cond(cfg, c2, l2, depth + 1):
                                out.add("SOME_" + f)
    if isinstance(e, ast.IfExp):
        # `old is undefined if expr is None else not expr.node.args`
        if "undefined" in norm(e.body) and "args" in norm(e.orelse) and T:
            out.add("NO_ARGUMENT")
    if isinstance(e, ast.Attribute) and e.attr == "args" and not T:
        out.add("NO_ARGUMENT")
    if isinstance(e, ast.Call) and norm(e.func).endswith("update_allowed") and T:
        out.add("MANAGED")
    return out


def facts_at(cfg: CFG, node: Node) -> Set[str]:
    out: Set[str] = set()
    for c, l in dominating_edges(cfg, node):
        if c.kind == "cond":
            out |= facts_of_cond(cfg, c, l)
    return out


def judge(label: str, kind: str, facts: Set[str], same_value: bool, in_adapter_assign: bool) -> Tuple[Optional[bool], str]:
    """(ok?, reason).  None = the guard is not recognised (undecided)."""
    changed = {"NEQ", "OLD_UNDEF", "CMP_ON_F"} & facts
    if in_adapter_assign and kind in INSERT_KINDS | {"Delete"} and label in ("trim", "create") and "OLD_UNDEF" not in facts:
        return False, f"a structural difference between old and new value of an == snapshot (found by assign()) labelled {label}: it must be fix"
    if label == "fix" and "NO_ARGUMENT" in facts:
        return False, "filling an argument-less snapshot() labelled fix: that is a create"
    if label == "fix" and kind == "DictInsert" and not in_adapter_assign and {"SOME_NOT_IN_OLD", "NOT_IN_OLD"} & facts:
        return False, "adding a missing sub-snapshot key labelled fix: the documentation makes that a create"
    if label == "update":
        if changed:
            return False, f"labelled update on a path where the value differs ({', '.join(sorted(changed))}): an update must never change the value the argument evaluates to"
        if "EQ" in facts or same_value or {"CMP_ON_T", "CMP_NO_T"} <= facts:
            return True, "update under equal value"
        return None, "update without a recognised equality guard"
    if label == "create":
        if {"NOT_IN_OLD", "SOME_NOT_IN_OLD", "NO_ARGUMENT"} & facts:
            if "IN_OLD" in facts:
                return False, "labelled create although the key exists in the old value on this path"
            return True, "create for a missing key / argument"
        if "OLD_UNDEF" in facts:
            if "OLD_DEF" in facts:
                return False, "labelled create although an old value exists on this path"
            return True, "create for a missing value"
        if {"NEQ", "EQ", "OLD_DEF", "IN_OLD", "CMP_ON_F", "CMP_ON_T"} & facts:
            return False, "labelled create on a path where an old value exists: create must only fill a missing value and never alter an existing one"
        return None, "create without a recognised 'missing' guard"
    if label == "trim":
        if kind == "Delete" and "NOT_IN_NEW_SUBSET" in facts and "NOT_IN_NEW" not in facts:
            return False, "labelled trim for a key/element that is merely absent from a filtered subset of the observed ones: keys that were accessed (but e.g. not compared yet) are deleted, trim may only remove what was never used"
        if kind == "Delete" and ({"NOT_IN_NEW"} & facts):
            return True, "trim deletes an unobserved element/key"
        if kind == "Replace" and {"CMP_ON_T", "CMP_NO_F"} <= facts:
            return True, "trim tightens a satisfied bound"
        if changed or "IN_NEW" in facts:
            return False, "labelled trim on a path where the comparison fails / the element was observed: trim must only remove slack"
        if kind in INSERT_KINDS:
            return False, "an insertion labelled trim"
        return None, "trim without a recognised slack guard"
    if label == "fix":
        if "OLD_UNDEF" in facts and "NEQ" in facts and kind == "Replace":
            return False, "labelled fix for an undefined old value (that is a create)"
        if {"NEQ", "CMP_ON_F", "SOME_NOT_IN_OLD"} & facts or ("NOT_IN_OLD" in facts and kind in INSERT_KINDS):
            return True, "fix under a failed comparison"
        if in_adapter_assign and kind in INSERT_KINDS and "SRC_FEWER" in facts:
            return False, (
                "an argument the source does not spell out is inserted as fix unconditionally: the source may omit default-valued arguments "
                "(`defaultdict(list)` for `defaultdict(list, {})`), so a passing snapshot is reported as incorrect - the label must be `update if old == new else fix`"
            )
        if in_adapter_assign and kind in INSERT_KINDS | {"Delete"}:
            if "EQ" in facts:
                return False, "a structural edit labelled fix on the equal-value path"
            return True, "structural difference found by assign() of an == snapshot"
        if {"EQ", "CMP_ON_T"} & facts or (kind == "Delete" and "NOT_IN_NEW" in facts and not in_adapter_assign):
            return False, "labelled fix although the comparison against the current value holds on this path: fix must be reported exactly when a comparison fails"
        return None, "fix without a recognised failed-comparison guard"
    return None, f"unknown category label {label!r}"


def flag_label(repo: Repo, rep):
    rep.rule(
        "R-FLAG-LABEL",
        "for every Change constructor site the category label is consistent with the conditions it is control-dependent on: update => old and new value "
        "are equal (or the same expression / both bound comparisons hold) and never a failed comparison or undefined old value; create => old value undefined, "
        "key absent from the old value, or no argument in the call; trim => a Delete of an unobserved element/key or a bound Replace under cmp(old,new) true and "
        "cmp(new,old) false; fix => a failed comparison, a member missing from the old value, or a structural difference found by an adapter's assign()",
    )
    sites = emission_sites(repo)
    rep.floor("R-FLAG-LABEL", "emission sites", len(sites), 14)
    for s in sites:
        in_assign = s.func.name == "assign" and s.func.module.rel.startswith("_adapter/")
        ov, nv = s.args.get("old_value"), s.args.get("new_value")
        same_value = ov is not None and nv is not None and norm(ov) == norm(nv)
        for label, dnode, how in flag_values(s):
            if how == "ifexp":
                e = s.args["flag"]
                if isinstance(e, ast.Name):
                    e = def_value(dnode, e.id)
                t = e.test
                ok = None
                if isinstance(t, ast.Compare) and len(t.ops) == 1 and isinstance(t.ops[0], (ast.Eq, ast.NotEq)) and {role(t.left), role(t.comparators[0])} == {"old", "new"}:
                    eq_branch, ne_branch = (e.body, e.orelse) if isinstance(t.ops[0], ast.Eq) else (e.orelse, e.body)
                    a = eq_branch.value if isinstance(eq_branch, ast.Constant) else None
                    b = ne_branch.value if isinstance(ne_branch, ast.Constant) else None
                    ok = a == "update" and b == "fix"
                    if ok:
                        rep.ok("R-FLAG-LABEL", s.func, s.call, f"{s.kind}: update if old == new else fix")
                    else:
                        rep.violation("R-FLAG-LABEL", s.func, s.call, f"{s.func.qualname} labels a {s.kind} `{a}` when old and new argument are equal and `{b}` when they differ; it must be update / fix", construct=f"{s.kind}:ifexp")
                else:
                    rep.undecided("R-FLAG-LABEL", f"{s.func.key}:{s.call.lineno} conditional label `{short(e, 50)}` not recognised")
                continue
            if label is None:
                rep.undecided("R-FLAG-LABEL", f"{s.func.key}:{s.call.lineno} category label is not a constant ({how})")
                continue
            if s.func.qualname.startswith("MinMaxValue."):
                continue  # R-BOUND-ORDER
            facts = facts_at(cfg_of_node(s, dnode), dnode) | (facts_at(s.cfg, s.node) if dnode is not s.node else set())
            ok, why = judge(label, s.kind, facts, same_value, in_assign)
            if ok is None and not facts:
                # the site sits in a helper that only builds the change: judge it at the helper's call sites
                from ..callgraph import callgraph

                callers = [(cf, c) for cf, c, how in callgraph(repo).callers.get(s.func.key, []) if not cf.module.rel.startswith("@")]
                verdicts = []
                for cf, c in callers:
                    ccfg = cfg_of(cf)
                    nn = ccfg.nodes_containing(c)
                    if not nn:
                        continue
                    cfacts = facts_at(ccfg, nn[0])
                    cin = cf.name == "assign" and cf.module.rel.startswith("_adapter/")
                    verdicts.append(judge(label, s.kind, cfacts, same_value, cin))
                if verdicts and all(v[0] is True for v in verdicts):
                    ok, why = True, verdicts[0][1] + f" (judged at {len(verdicts)} call site(s) of the helper)"
                elif any(v[0] is False for v in verdicts):
                    ok, why = [v for v in verdicts if v[0] is False][0]
            if ok is None and label in ("fix", "update") and s.kind == "Replace":
                # the label must be decided by the comparison `old == new` itself and by nothing stricter or looser
                dcfg = cfg_of_node(s, dnode)
                eqs = []
                for c_ in dcfg.conds():
                    e_ = c_.ast
                    if isinstance(e_, ast.Compare) and len(e_.ops) == 1 and isinstance(e_.ops[0], (ast.Eq, ast.NotEq)) and {role(e_.left), role(e_.comparators[0])} == {"old", "new"} and "token" not in norm(e_):
                        eqs.append((c_, "T" if isinstance(e_.ops[0], ast.Eq) else "F"))
                if eqs:
                    from ..cfg import edges_dominate as _ed

                    nes = [(c_, "F" if l_ == "T" else "T") for c_, l_ in eqs]
                    if label == "fix" and not _ed(dcfg, nes, dnode):
                        ok, why = False, (
                            "labelled fix on a path where `old == new` was not found false (the decision is stricter than the comparison the test itself makes): an element that compares equal - "
                            "`1.0` against `1`, `True` against `1` - is reported as incorrect and rewritten by fix"
                        )
                    elif label == "update" and not _ed(dcfg, eqs, dnode):
                        ok, why = False, "labelled update on a path where `old == new` was not found true: an update could change the value"
            where = dnode.ast if dnode is not s.node else s.call
            if ok is True:
                rep.ok("R-FLAG-LABEL", s.func, where, f"{s.kind} `{label}`: {why} [{', '.join(sorted(facts))[:80]}]")
            elif ok is False:
                rep.violation("R-FLAG-LABEL", s.func, where, f"{s.func.qualname}: {s.kind} {why}", "facts on the path: " + ", ".join(sorted(facts)), construct=f"{s.kind}:{label}:{norm(s.args.get('node')) if s.args.get('node') is not None else ''}")
            else:
                rep.undecided("R-FLAG-LABEL", f"{s.func.key}:{s.call.lineno} {s.kind} `{label}`: {why} (facts: {sorted(facts)})")


def bound_order(repo: Repo, rep):
    rep.rule(
        "R-BOUND-ORDER",
        "MinMaxValue._get_changes: `fix` is decided under cmp(old, new) false; `trim` under cmp(old, new) true and cmp(new, old) false; `update` only under "
        "both true and differing tokens; MinValue.cmp is a <= b and MaxValue.cmp is a >= b",
    )
    f = repo.func("_snapshot/min_max_value.py::MinMaxValue._get_changes")
    cfg = cfg_of(f)
    sites = [s for s in emission_sites(repo) if s.func.key == f.key]
    rep.floor("R-BOUND-ORDER", "Replace sites in MinMaxValue._get_changes", len(sites), 1)
    seen = set()
    for s in sites:
        for label, dnode, how in flag_values(s):
            if label is None:
                rep.undecided("R-BOUND-ORDER", f"non-constant label ({how})")
                continue
            seen.add(label)
            facts = facts_at(cfg_of_node(s, dnode), dnode)
            need = {"fix": {"CMP_ON_F"}, "trim": {"CMP_ON_T", "CMP_NO_F"}, "update": {"CMP_ON_T", "CMP_NO_T", "TOK_DIFF"}}.get(label)
            if need is None:
                rep.violation("R-BOUND-ORDER", f, dnode.ast, f"a bound change is labelled `{label}`", construct=f"label:{label}")
            elif need <= facts:
                rep.ok("R-BOUND-ORDER", f, dnode.ast, f"`{label}` under {sorted(need)}")
            else:
                rep.violation(
                    "R-BOUND-ORDER",
                    f,
                    dnode.ast,
                    f"the bound change is labelled `{label}` under {sorted(facts & {'CMP_ON_T', 'CMP_ON_F', 'CMP_NO_T', 'CMP_NO_F', 'TOK_DIFF'})} instead of {sorted(need)}: "
                    + {"fix": "fix must mean the comparison against the current bound fails", "trim": "trim must mean the bound holds but is not tight", "update": "update must not change the value"}[label],
                    construct=f"guard:{label}",
                )
    if not {"fix", "trim"} <= seen:
        rep.violation("R-BOUND-ORDER", f, f.node, f"bounds can no longer be classified as {sorted({'fix', 'trim'} - seen)}", construct="missing-label")
    for cname, want in (("MinValue", "<="), ("MaxValue", ">=")):
        c = repo.cls(cname, "_snapshot/min_max_value.py")
        m = repo.lookup_method(c, "cmp")
        if m is None:
            rep.undecided("R-BOUND-ORDER", f"{cname}.cmp missing")
            continue
        outs, _ = run_function(repo, m, UNKNOWN)
        rets = {o.ret for o in outs if o.kind == "ret"}
        a, b = m.params[0], m.params[1]
        if rets == {("cmp", want, ("param", a), ("param", b))}:
            rep.ok("R-BOUND-ORDER", m, m.node, f"{cname}.cmp(a, b) is a {want} b")
        else:
            rep.violation("R-BOUND-ORDER", m, m.node, f"{cname}.cmp is {sorted(map(str, rets))[:1]}, not a {want} b: every fix/trim decision and the running extreme of this bound are inverted or strict", construct=f"{cname}.cmp")


# adapters whose constructor cannot take positional arguments at all (one line of reason each)
NO_POSITIONAL_CTOR = {
    "PydanticContainer": "BaseModel.__init__ is keyword-only: a positional argument in the snapshot raises TypeError when the argument is evaluated",
}


def _returns_no_positional(m) -> bool:
    """every `return (<first>, ...)` of arguments() has a literal empty list as <first>"""
    rets = [r for r in body_nodes(m.node) if isinstance(r, ast.Return) and r.value is not None]
    if not rets:
        return False
    for r in rets:
        v = r.value
        if not (isinstance(v, ast.Tuple) and len(v.elts) == 2 and isinstance(v.elts[0], ast.List) and not v.elts[0].elts):
            return False
    return True


def positional_map(repo: Repo, rep, prop="C05"):
    rep.rule(
        "R-POSITIONAL-MAP",
        "arguments the user wrote by position are paired with the value's arguments through the adapter's positional names: (1) in GenericCallAdapter.assign "
        "and .items the (args, kwargs) lists that are zipped / indexed with `<node>.args` come from a helper that receives the node and consults "
        "`positional_names`, not from `arguments(value)` directly; (2) every call adapter whose `arguments()` reports keywords only (`return ([], ...)`) "
        "overrides `positional_names`, unless its constructor takes no positional arguments (table).  Otherwise `A(1, b=2)` is compared as 'positional "
        "argument removed, keyword a added': a passing snapshot is reported as fix and rewritten, Is() parts written by position lose their node",
    )
    g = repo.cls("GenericCallAdapter")
    n = 0
    for mname in ("assign", "items"):
        m = g.methods.get(mname)
        if m is None:
            rep.undecided("R-POSITIONAL-MAP", f"GenericCallAdapter.{mname} not found")
            continue
        # the tuple-unpacking `a, k = <call>(value, ...)` whose first target is later paired with node.args
        for st in body_nodes(m.node):
            if isinstance(st, ast.Assign) and isinstance(st.targets[0], ast.Tuple) and len(st.targets[0].elts) == 2 and isinstance(st.value, ast.Call) and isinstance(st.value.func, ast.Attribute):
                callee = st.value.func.attr
                if callee not in ("arguments",) and "argument" not in callee:
                    continue
                n += 1
                if callee == "arguments":
                    rep.violation(
                        "R-POSITIONAL-MAP",
                        m,
                        st,
                        f"GenericCallAdapter.{mname} pairs the nodes of the call with `arguments(value)` directly: for dataclass / attrs / namedtuple values every argument is reported by name, "
                        "so arguments written by position are seen as removed and re-added (fix on a passing snapshot)",
                        construct=f"{mname}:arguments",
                    )
                    continue
                tgt = repo.lookup_method(g, callee)
                node_aware = tgt is not None and any(isinstance(x, ast.Attribute) and x.attr == "positional_names" for x in body_nodes(tgt.node)) and any(isinstance(x, ast.Attribute) and x.attr == "args" for x in body_nodes(tgt.node)) and len(st.value.args) >= 2
                if node_aware:
                    rep.ok("R-POSITIONAL-MAP", m, st, f"{mname}: arguments come from {callee}(value, node), which consults positional_names and node.args")
                else:
                    rep.violation("R-POSITIONAL-MAP", m, st, f"GenericCallAdapter.{mname} takes its arguments from `{callee}`, which does not map positional source arguments through positional_names", construct=f"{mname}:{callee}")
    # the helper that moves the arguments written by position out of the keyword map: positions are consecutive, so at the first
    # positional name the value does not report (a field hidden by repr=False) the walk *stops* - continuing would pair every
    # later node one slot too early
    for g_ in [x for x in repo.pkg_funcs() if x.cls is not None and x.cls.name == "GenericCallAdapter" and any(isinstance(y, ast.Attribute) and y.attr == "positional_names" for y in body_nodes(x.node)) and any(isinstance(y, ast.Attribute) and y.attr == "args" for y in body_nodes(x.node))]:
        for lp in [x for x in body_nodes(g_.node) if isinstance(x, ast.For) and "positional_names" in norm(x.iter)]:
            v_ = norm(lp.target)
            for iff in [x for x in ast.walk(lp) if isinstance(x, ast.If) and isinstance(x.test, ast.Compare) and len(x.test.ops) == 1 and isinstance(x.test.ops[0], ast.NotIn) and norm(x.test.left) == v_]:
                n += 1
                leaves = [y for y in iff.body if isinstance(y, (ast.Break, ast.Return, ast.Raise))]
                if leaves:
                    rep.ok("R-POSITIONAL-MAP", g_, iff, "the positional walk stops at the first name the value does not report")
                else:
                    rep.violation("R-POSITIONAL-MAP", g_, iff, f"{g_.qualname} skips a positional name that the value does not report (`{short(iff, 40)}` does not leave the loop): the arguments behind it are paired with the node of their left neighbour - a fix is written onto the wrong argument", construct=f"{g_.qualname}:skip-not-stop")
    rep.floor("R-POSITIONAL-MAP", "argument sources in assign/items", n, 2)
    for c in repo.subclasses(g):
        am = c.methods.get("arguments")
        if am is None or not _returns_no_positional(am):
            continue
        pn = c.methods.get("positional_names")
        if pn is not None:
            empty = all(isinstance(r.value, ast.List) and not r.value.elts for r in body_nodes(pn.node) if isinstance(r, ast.Return) and r.value is not None)
            if empty:
                rep.violation("R-POSITIONAL-MAP", pn, pn.node, f"{c.name}.positional_names always answers []: positional arguments of the snapshot are not mapped", construct=f"{c.name}:empty")
            else:
                rep.ok("R-POSITIONAL-MAP", pn, pn.node, f"{c.name}: keywords-only arguments() with positional_names")
            # names taken from a `fields(...)` table (dataclasses / attrs): a field is positional only if it is an __init__ parameter that
            # is not keyword-only - the table lists fields in definition order, a kw_only field of a base class comes first
            for comp in [x for x in body_nodes(pn.node) if isinstance(x, ast.comprehension) and isinstance(x.iter, ast.Call) and norm(x.iter.func).split(".")[-1] == "fields"]:
                tests = " ".join(norm(t) for t in comp.ifs)
                fv = norm(comp.target)
                has_init = f"{fv}.init" in tests
                has_kw = "kw_only" in tests
                if has_init and has_kw:
                    rep.ok("R-POSITIONAL-MAP", pn, comp.iter, f"{c.name}: only init, non-keyword-only fields are positional")
                else:
                    rep.violation(
                        "R-POSITIONAL-MAP",
                        pn,
                        comp.iter,
                        f"{c.name}.positional_names counts {'keyword-only' if not has_kw else 'init=False'} fields as positional: with such a field declared before a positional one (a kw_only base class) "
                        "the arguments written by position are paired one off - a fix lands on the neighbouring argument (an Is() / unchanged expression is overwritten)",
                        construct=f"{c.name}:fields-filter",
                    )
        elif c.name in NO_POSITIONAL_CTOR:
            rep.ok("R-POSITIONAL-MAP", am, am.node, f"{c.name}: exempt - {NO_POSITIONAL_CTOR[c.name]}")
        else:
            rep.violation(
                "R-POSITIONAL-MAP",
                am,
                am.node,
                f"{c.name}.arguments() reports every argument by name but the class has no positional_names: `x == snapshot({c.name.replace('Adapter', '')}(1, 2))` is compared as if both positional arguments were removed",
                construct=f"{c.name}:missing",
            )


# (module, change kind, category) -> what is lost when no reachable emission site of that shape exists any more.
# Frozen from the 19 emission sites confirmed by reading (Appendix A.1); keyed by module, so moving an emission into a helper of the
# same module changes nothing.
EMIT_TABLE = {
    ("_adapter/value_adapter.py", "Replace", "create"): "an empty leaf is never filled",
    ("_adapter/value_adapter.py", "Replace", "fix"): "a wrong leaf value is never repaired",
    ("_adapter/value_adapter.py", "Replace", "update"): "a leaf whose text differs from the generated code is never normalised",
    ("_adapter/sequence_adapter.py", "Delete", "fix"): "elements that vanished from a list/tuple stay in the snapshot",
    ("_adapter/sequence_adapter.py", "ListInsert", "fix"): "new elements of a list/tuple are never added",
    ("_adapter/dict_adapter.py", "Delete", "fix"): "keys that vanished from a dict stay in the snapshot",
    ("_adapter/dict_adapter.py", "DictInsert", "fix"): "new keys of a dict are never added",
    ("_adapter/generic_call_adapter.py", "Delete", "*"): "arguments that vanished / became default stay in the call",
    ("_adapter/generic_call_adapter.py", "CallArg", "fix"): "new arguments of a dataclass-like value are never added",
    ("_inline_snapshot.py", "CallArg", "create"): "an argument-less snapshot() is never filled",
    ("_snapshot/collection_value.py", "Delete", "trim"): "members that were never tested with `in` are never trimmed",
    ("_snapshot/collection_value.py", "ListInsert", "fix"): "a member that is missing from `x in snapshot([...])` is never added",
    ("_snapshot/collection_value.py", "Replace", "update"): "members of an `in` snapshot are never normalised",
    ("_snapshot/dict_value.py", "Delete", "trim"): "keys of snapshot()[key] that were never accessed are never trimmed",
    ("_snapshot/dict_value.py", "DictInsert", "create"): "a new key of snapshot()[key] is never created",
    ("_snapshot/min_max_value.py", "Replace", "fix"): "a violated bound is never repaired",
    ("_snapshot/min_max_value.py", "Replace", "trim"): "a slack bound is never tightened",
    ("_snapshot/min_max_value.py", "Replace", "update"): "a bound whose text differs is never normalised",
    ("_snapshot/undecided_value.py", "Replace", "update"): "a never-compared snapshot is never normalised",
}


def emit_complete(repo: Repo, rep):
    rep.rule(
        "R-EMIT-COMPLETE",
        "completeness of the change producers: for each (module, change kind, category) of the table frozen from the emission sites confirmed by reading, "
        "at least one reachable emission site of that shape still exists in the module (a conditional label `update if old == new else fix` counts for both); "
        "DictValue._get_changes still recurses into the _get_changes() of its sub-snapshots.  Soundness rules (R-FLAG-LABEL ...) cannot notice a producer "
        "that silently stopped producing: approved categories would then repair nothing",
    )
    have = set()
    for s in emission_sites(repo):
        rel = s.func.module.rel
        for label, dnode, how in flag_values(s):
            if how == "ifexp":
                e = s.args.get("flag")
                if isinstance(e, ast.Name):
                    e = def_value(dnode, e.id)
                for x in ast.walk(e) if e is not None else []:
                    if isinstance(x, ast.Constant) and isinstance(x.value, str):
                        have.add((rel, s.kind, x.value))
                have.add((rel, s.kind, "*"))
            elif label:
                have.add((rel, s.kind, label))
                have.add((rel, s.kind, "*"))
    for (rel, kind, flag), lost in EMIT_TABLE.items():
        m = repo.modules.get(rel)
        if m is None:
            rep.undecided("R-EMIT-COMPLETE", f"module {rel} vanished")
            continue
        if (rel, kind, flag) in have:
            rep.ok("R-EMIT-COMPLETE", m, None, f"{kind} `{flag}` is still produced", site=f"src/inline_snapshot/{rel}: {kind}/{flag}")
        else:
            anyf = next((f for f in repo.pkg_funcs() if f.module is m), None)
            rep.violation("R-EMIT-COMPLETE", anyf, anyf.node if anyf else None, f"{rel} no longer produces a {kind} change of category `{flag}`: {lost}", construct=f"{rel}:{kind}:{flag}")
    # recursion of the dict sub-snapshots
    dv = repo.find_func("_snapshot/dict_value.py", "DictValue._get_changes")
    if dv is not None:
        rec = [c for c in body_nodes(dv.node) if isinstance(c, ast.Call) and isinstance(c.func, ast.Attribute) and c.func.attr == "_get_changes"]
        if rec:
            rep.ok("R-EMIT-COMPLETE", dv, rec[0], "sub-snapshots contribute their own changes")
        else:
            rep.violation("R-EMIT-COMPLETE", dv, dv.node, "DictValue._get_changes no longer collects the changes of its sub-snapshots: nothing below snapshot()[key] is ever created / fixed", construct="dict-value-recursion")


def insert_once(repo: Repo, rep):
    rep.rule(
        "R-INSERT-ONCE",
        "producer/consumer agreement on insertions: apply_all collects the ListInsert / DictInsert changes of one container in a mapping keyed by their "
        "position (a later one at the same position replaces the earlier one).  So an emitter never yields such a change inside a loop with a position "
        "that does not change from one iteration to the next: all values for one position travel in ONE change.  Yielding one insertion per missing member, "
        "each at `len(old)`, writes only the last of them (`x in snapshot([200])` for 404 and 500 is fixed to `[200, 500]`)",
    )
    ap = repo.func("_change.py::apply_all")
    overwrites = {}
    for x in body_nodes(ap.node):
        if isinstance(x, ast.DictComp) and isinstance(x.key, ast.Attribute) and x.key.attr == "position":
            for g in x.generators:
                for i in g.ifs:
                    for y in ast.walk(i):
                        if isinstance(y, ast.Name) and y.id in ("ListInsert", "DictInsert"):
                            overwrites[y.id] = x
    n = 0
    for s in emission_sites(repo):
        if s.kind not in overwrites:
            continue
        pos = s.args.get("position")
        if pos is None:
            continue
        n += 1
        loops = [a for a in ancestors(s.call) if isinstance(a, (ast.For, ast.While)) and a is not s.func.node]
        # only loops inside the emitting function
        loops = [a for a in loops if any(a is y for y in ast.walk(s.func.node))]
        bad = None
        for lp in loops:
            changing = {x.id for x in ast.walk(lp.target) if isinstance(x, ast.Name)} if isinstance(lp, ast.For) else set()
            for y in ast.walk(lp):
                if isinstance(y, (ast.Assign, ast.AugAssign)):
                    for t in y.targets if isinstance(y, ast.Assign) else [y.target]:
                        changing |= {x.id for x in ast.walk(t) if isinstance(x, ast.Name)}
            names = {x.id for x in ast.walk(pos) if isinstance(x, ast.Name)}
            # `len(self._old_value)`: an attribute of self that the loop does not assign is invariant too
            if not (names & changing) and not any(isinstance(y, (ast.Assign, ast.AugAssign)) and norm(pos) in norm(y) for y in ast.walk(lp) if False):
                bad = lp
        if bad is not None:
            rep.violation(
                "R-INSERT-ONCE",
                s.func,
                s.call,
                f"{s.func.qualname} yields a {s.kind} inside a loop with the loop-invariant position `{short(pos, 40)}`: apply_all keys the insertions of a container by position, so only the last of them is written - "
                "the values found missing in one session are not all added by fix",
                construct=f"{s.func.qualname}:{s.kind}:loop-invariant-position",
            )
        else:
            rep.ok("R-INSERT-ONCE", s.func, s.call, f"{s.kind}: one change per position")
    rep.floor("R-INSERT-ONCE", "ListInsert/DictInsert emission sites", n, 4)
