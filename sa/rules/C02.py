"""C02 - approving create and fix repairs every reached snapshot in a single run."""
from __future__ import annotations

import ast
from typing import List, Set

from ..cfg import cfg_of, node_calls, reach
from ..defuse import def_value, defs_of, reaching_defs
from ..esp import NEW, OLD, UNKNOWN, contains, run_method, val_str, valuations
from ..model import Func, Repo, body_nodes, norm, parent, short
from .C18 import apply_exh, apply_routing, ctx_restore
from .common import dispatch_ops, generic_class, op_table, table_stats, trace_str
from .emit import change_classes

INSERT_KINDS = ("ListInsert", "DictInsert", "CallArg")

from .C17 import clone_def

from .C11 import cursor_sync, equal_keeps, key_routing, pair_len


def check(repo: Repo, rep, tier):
    rep.not_decided = "that the edit script computed for an arbitrary old text / new value yields the right text (alignment, comma and 1-tuple surgery)"
    cont(repo, rep)
    assign_agree(repo, rep)
    flush(repo, rep)
    file_loops_total(repo, rep)
    same_type(repo, rep)
    clone_def(repo, rep)
    pair_len(repo, rep)
    equal_keeps(repo, rep)
    cursor_sync(repo, rep)
    key_routing(repo, rep)
    apply_exh(repo, rep)
    apply_routing(repo, rep)
    from .C03 import char_units, range_prov, import_scope, line_model
    from .C14 import site_key

    import_scope(repo, rep)
    line_model(repo, rep)
    site_key(repo, rep)

    range_prov(repo, rep)
    char_units(repo, rep)
    from .C04 import approval_complete

    approval_complete(repo, rep)
    from .C05 import emit_complete

    emit_complete(repo, rep)
    from .C18 import kwarg_position

    kwarg_position(repo, rep)
    frame_locals(repo, rep)
    from .C05 import positional_map

    positional_map(repo, rep)
    from .C05 import insert_once
    from .C11 import align_complete, align_window

    insert_once(repo, rep)
    align_window(repo, rep)
    align_complete(repo, rep)
    ctx_restore(repo, rep)
    from .C18 import definite_init
    from .C03 import element_parens
    from .C12 import fmt_taint_fragment

    definite_init(repo, rep)
    element_parens(repo, rep)
    fmt_taint_fragment(repo, rep)
    from .C03 import io_encoding

    io_encoding(repo, rep)
    from .C05 import child_node_total

    child_node_total(repo, rep)


def cont(repo: Repo, rep):
    rep.rule(
        "R-CONTINUE",
        "typestate: under every valuation with create, fix or update set (or an undefined old value) no operation returns its comparison against the OLD "
        "value - it returns True or _return's new_result - so the test body keeps running after a failing snapshot; _return returns its second parameter "
        "exactly under fix/create/update/old-undefined and its first otherwise",
    )
    for op in dispatch_ops(repo):
        if op.dunder == "__getitem__":
            continue
        bad = None
        n = 0
        for v, outs in op_table(repo, op):
            if not (v["F.create"] or v["F.fix"] or v["F.update"] or v["OU"]):
                continue
            for o in outs:
                if o.kind != "ret":
                    continue
                n += 1
                if contains(o.ret, OLD):
                    bad = bad or (v, o)
        if bad:
            rep.violation(
                "R-CONTINUE",
                op.func,
                op.func.node,
                f"{op.label} answers with the comparison against the old value although create/fix/update is active: the assertion fails, the rest of the test body does not run and later snapshots are not repaired in this run",
                [val_str(bad[0]), trace_str(bad[1]), f"returned {bad[1].ret}"],
                construct=op.label,
            )
        else:
            rep.ok("R-CONTINUE", op.func, op.func.node, f"{op.label}: {n} paths under create/fix/update never return the old comparison")
    gv = generic_class(repo)
    rt = gv.methods.get("_return")
    if rt is None or len(rt.params) < 3:
        rep.undecided("R-CONTINUE", "GenericValue._return(result, new_result) not found")
        return
    p1, p2 = ("param", rt.params[1]), ("param", rt.params[2])
    bad = None
    for v in valuations():
        if v["NU"] or v["CO"]:
            continue
        outs, _ = run_method(repo, rt, gv, v)
        want = p2 if (v["F.create"] or v["F.fix"] or v["F.update"] or v["OU"]) else p1
        for o in outs:
            if o.kind == "ret" and o.ret != want:
                bad = bad or (v, o, want)
    if bad:
        rep.violation("R-CONTINUE", rt, rt.node, f"_return gives back `{bad[1].ret[1] if isinstance(bad[1].ret, tuple) and len(bad[1].ret) > 1 else bad[1].ret}` where `{bad[2][1]}` is required", val_str(bad[0]), construct="_return")
    else:
        rep.ok("R-CONTINUE", rt, rt.node, "_return: new_result iff fix/create/update/old-undefined")
    rep.count("valuations", table_stats(repo).get("valuations", 0))


def assign_agree(repo: Repo, rep):
    rep.rule(
        "R-ASSIGN-AGREE",
        "ValueAdapter.assign: a path returning the new leaf value has yielded exactly one Replace for it, a path returning the old value has yielded nothing "
        "(otherwise the recorded value and the repaired file disagree); container assign(): every element that enters the returned value either is the result "
        "of a recursive assign() or is recorded as a pending insert in the same block, and the value returned is built from those results",
    )
    va_cls = repo.cls("ValueAdapter", "_adapter/value_adapter.py")
    va = va_cls.methods.get("assign")
    outs, _ = run_method(repo, va, va_cls, UNKNOWN)
    old, new = ("param", va.params[1]), ("param", va.params[3])
    n = 0
    bad = False
    for o in outs:
        if o.kind != "ret":
            continue
        n += 1
        ys = [e for e in o.p.eff if e[0] == "yield"]
        if o.ret == old and ys:
            rep.violation("R-ASSIGN-AGREE", va, va.node, "ValueAdapter.assign yields a change on a path that returns the old value: the file is edited while the recorded value stays the old one", trace_str(o), construct="old+yield")
            bad = True
        elif o.ret == new and len(ys) != 1:
            rep.violation("R-ASSIGN-AGREE", va, va.node, f"ValueAdapter.assign returns the new value after yielding {len(ys)} changes: the comparison is answered with the new value but the file is not repaired (or repaired twice)", trace_str(o), construct="new-yield")
            bad = True
        elif o.ret not in (old, new):
            rep.violation("R-ASSIGN-AGREE", va, va.node, f"ValueAdapter.assign returns {short(str(o.ret), 50)}, neither the old nor the new value", trace_str(o), construct="ret")
            bad = True
    if not bad:
        rep.ok("R-ASSIGN-AGREE", va, va.node, f"{n} returning paths agree (new value <=> one Replace)")
    rep.floor("R-ASSIGN-AGREE", "returning paths of ValueAdapter.assign", n, 4)
    # container adapters
    for cname, rel in (("SequenceAdapter", "_adapter/sequence_adapter.py"), ("DictAdapter", "_adapter/dict_adapter.py"), ("GenericCallAdapter", "_adapter/generic_call_adapter.py")):
        c = repo.cls(cname, rel)
        f = c.methods.get("assign")
        if f is None:
            rep.undecided("R-ASSIGN-AGREE", f"{cname}.assign missing")
            continue
        newp = f.params[3]
        # result containers: names used in the final return expression
        rets = sorted([r for r in body_nodes(f.node) if isinstance(r, ast.Return) and r.value is not None], key=lambda r: r.lineno)
        final = rets[-1]
        res_names = {x.id for x in ast.walk(final.value) if isinstance(x, ast.Name)} - {f.params[0], f.params[1], newp}
        yf_names = set()  # names bound from `yield from`
        for x in body_nodes(f.node):
            if isinstance(x, ast.Assign) and isinstance(x.value, ast.YieldFrom):
                for t in x.targets:
                    if isinstance(t, ast.Name):
                        yf_names.add(t.id)
        pending = pending_containers(repo, f)
        grows = 0
        for x in body_nodes(f.node):
            added = None
            if isinstance(x, ast.Call) and isinstance(x.func, ast.Attribute) and x.func.attr == "append" and isinstance(x.func.value, ast.Name) and x.func.value.id in res_names and x.args:
                added = (x, x.args[0])
            if isinstance(x, ast.Assign) and len(x.targets) == 1 and isinstance(x.targets[0], ast.Subscript) and isinstance(x.targets[0].value, ast.Name) and x.targets[0].value.id in res_names:
                added = (x, x.value)
            if added is None:
                continue
            grows += 1
            stmt, val = added
            if isinstance(val, ast.YieldFrom) or (isinstance(val, ast.Name) and val.id in yf_names):
                rep.ok("R-ASSIGN-AGREE", f, stmt, f"{cname}: element from a recursive assign()")
                continue
            # new element: a pending-insert accumulation in the same block
            blk = parent(stmt if isinstance(stmt, ast.stmt) else parent(stmt))
            body = None
            st = stmt
            while not isinstance(st, ast.stmt):
                st = parent(st)
            par = parent(st)
            for fld in ("body", "orelse", "finalbody"):
                if st in (getattr(par, fld, None) or []):
                    body = getattr(par, fld)
            sib = False
            for s2 in body or []:
                for y in ast.walk(s2):
                    if isinstance(y, ast.Call) and isinstance(y.func, ast.Attribute) and y.func.attr == "append":
                        base = y.func.value
                        if isinstance(base, ast.Subscript):
                            base = base.value
                        if isinstance(base, ast.Name) and base.id in pending:
                            sib = True
            if sib:
                rep.ok("R-ASSIGN-AGREE", f, stmt, f"{cname}: new element recorded as pending insert")
            else:
                rep.violation("R-ASSIGN-AGREE", f, stmt, f"{cname}.assign puts `{short(val, 40)}` into the returned value without a recursive assign() or a pending insert: the comparison is answered with it but the file is not repaired", construct=f"{cname}:{norm(val)}")
        rep.floor("R-ASSIGN-AGREE", f"result growth sites in {cname}.assign", grows, 2)


def insert_helpers(repo: Repo, f: Func) -> Set[str]:
    """names of nested helpers / methods of the same class that return an insert change"""
    out = set()
    for g in repo.funcs.values():
        same_class_method = f.cls is not None and g.cls is not None and g.cls in repo.mro(f.cls) and g.parent is None
        if (g.parent is f or same_class_method) and any(isinstance(r, ast.Return) and isinstance(r.value, ast.Call) and isinstance(r.value.func, ast.Name) and r.value.func.id in INSERT_KINDS for r in body_nodes(g.node)):
            out.add(g.name)
    return out


def pending_containers(repo: Repo, f: Func) -> Set[str]:
    """Locals consumed by a `yield <insert change>(...)` (directly or through a loop over them)."""
    kinds = set(change_classes(repo))
    out: Set[str] = set()
    # nested helpers that build an insert change from their arguments
    helpers = set()
    for g in repo.funcs.values():
        same_class_method = f.cls is not None and g.cls is not None and g.cls in repo.mro(f.cls) and g.parent is None
        if (g.parent is f or same_class_method) and any(isinstance(r, ast.Return) and isinstance(r.value, ast.Call) and isinstance(r.value.func, ast.Name) and r.value.func.id in INSERT_KINDS for r in body_nodes(g.node)):
            helpers.add(g.name)
    for y in body_nodes(f.node):
        callee = None
        if isinstance(y, ast.Yield) and isinstance(y.value, ast.Call):
            callee = y.value.func.id if isinstance(y.value.func, ast.Name) else y.value.func.attr if isinstance(y.value.func, ast.Attribute) else None
        if callee is not None and (callee in INSERT_KINDS or callee in helpers):
            for x in ast.walk(y.value):
                if isinstance(x, ast.Name):
                    out.add(x.id)
            # enclosing for loops over a container
            p = parent(y)
            while p is not None and p is not f.node:
                if isinstance(p, ast.For):
                    for x in ast.walk(p.iter):
                        if isinstance(x, ast.Name):
                            out.add(x.id)
                p = parent(p)
    # keep only names that are accumulated into
    acc = set()
    for x in body_nodes(f.node):
        if isinstance(x, ast.Call) and isinstance(x.func, ast.Attribute) and x.func.attr == "append":
            base = x.func.value
            if isinstance(base, ast.Subscript):
                base = base.value
            if isinstance(base, ast.Name):
                acc.add(base.id)
    # names derived from an accumulated container (new_code = [... for k, v in to_insert])
    derived = set(acc)
    for x in body_nodes(f.node):
        if isinstance(x, ast.Assign) and any(isinstance(n, ast.Name) and n.id in acc for n in ast.walk(x.value)):
            for t in x.targets:
                if isinstance(t, ast.Name):
                    derived.add(t.id)
    return {n for n in out if n in acc} | {a for a in acc if any(d in out for d in derived if a in derived)}


def flush(repo: Repo, rep):
    rep.rule(
        "R-FLUSH",
        "in every function that accumulates pending inserts (to_insert...append): from each accumulation every path to a normal return passes a yield of an "
        "insert change (ListInsert/DictInsert/CallArg) that consumes the container, and no reset of the container is reachable before such a yield",
    )
    n = 0
    for f in repo.pkg_funcs():
        if not (f.module.rel.startswith("_adapter/") or f.module.rel.startswith("_snapshot/")):
            continue
        pend = pending_containers(repo, f)
        pend = {p for p in pend if "insert" in p or "pending" in p}
        if not pend:
            continue
        cfg = cfg_of(f)
        for X in sorted(pend):
            accs = []
            for nd in cfg.live:
                for c in node_calls(nd):
                    if isinstance(c.func, ast.Attribute) and c.func.attr == "append":
                        base = c.func.value
                        if isinstance(base, ast.Subscript):
                            base = base.value
                        if isinstance(base, ast.Name) and base.id == X:
                            accs.append(nd)
            # flush nodes: yields of an insert kind mentioning X (or a name derived from X), or for-loops over X
            derived = {X}
            for nd in cfg.stmts(ast.Assign):
                if any(isinstance(x, ast.Name) and x.id == X for x in ast.walk(nd.ast.value)):
                    derived |= {t.id for t in nd.ast.targets if isinstance(t, ast.Name)}
            flushes = []
            for nd in cfg.live:
                if nd.kind == "for" and any(isinstance(x, ast.Name) and x.id == X for x in ast.walk(nd.ast.iter)):
                    # the loop body must yield an insert change
                    body = reach(cfg, [b for b, l in nd.succ if l == "iter"], blocked_nodes=[nd])
                    if any(b.is_yield and any(k in norm(b.ast) for k in INSERT_KINDS) for b in body):
                        flushes.append(nd)
                if nd.is_yield and (any(k + "(" in norm(nd.ast) for k in INSERT_KINDS) or any(h + "(" in norm(nd.ast) for h in insert_helpers(repo, f))) and any(isinstance(x, ast.Name) and x.id in derived for x in ast.walk(nd.ast)):
                    flushes.append(nd)
            resets = [nd for nd in cfg.stmts(ast.Assign) if any(isinstance(t, ast.Name) and t.id == X for t in nd.ast.targets) and isinstance(nd.ast.value, (ast.List, ast.Dict, ast.Call))]
            skip = [(c, "F") for c in cfg.conds() if isinstance(c.ast, ast.Name) and c.ast.id == X]
            for a in accs:
                n += 1
                r = reach(cfg, [b for b, _ in a.succ], blocked_nodes=flushes, blocked_edges=skip, skip_labels=("exc",))
                lost = [x for x in resets if x in r]
                if cfg.ret in r:
                    rep.violation("R-FLUSH", f, a.ast, f"{f.qualname}: inserts accumulated in `{X}` can reach the end of the function without being yielded as a change: the new elements are part of the recorded value but never written", construct=f"{X}:noflush")
                elif lost:
                    rep.violation("R-FLUSH", f, lost[0].ast, f"{f.qualname}: `{X}` is reset while it still holds pending inserts (no insert change yielded in between)", construct=f"{X}:reset")
                else:
                    rep.ok("R-FLUSH", f, a.ast, f"`{X}` always flushed by an insert change")
    rep.floor("R-FLUSH", "accumulation sites", n, 2)


def file_loops_total(repo: Repo, rep):
    rep.rule(
        "R-FILE-LOOP-TOTAL",
        "at the end of the session every file that has changes is looked at: a loop over `<recorder>.files()` in the session-finish hook or in the "
        "in-process driver is never left early - no `break` that belongs to it and no `return` inside it (`continue` skips one file, which is what a file "
        "without a difference needs).  Leaving the display loop at the first file without a difference hides the files behind it: their changes are "
        "neither shown nor counted, the category is not applied although it was approved",
    )
    n = 0
    for key in ("pytest_plugin.py::pytest_sessionfinish", "testing/_example.py::Example.run_inline"):
        f = repo.func(key)
        def files_iter(e, depth=0):
            # `<recorder>.files()`, also behind list()/sorted()/tuple() or a local that holds it
            if isinstance(e, ast.Call) and isinstance(e.func, ast.Attribute) and e.func.attr == "files" and not e.args:
                return True
            if isinstance(e, ast.Call) and isinstance(e.func, ast.Name) and e.func.id in ("list", "sorted", "tuple", "iter") and e.args:
                return files_iter(e.args[0], depth)
            if isinstance(e, ast.Name) and depth < 2:
                vals = [st.value for st in body_nodes(f.node) if isinstance(st, ast.Assign) and any(isinstance(t, ast.Name) and t.id == e.id for t in st.targets)]
                return bool(vals) and all(files_iter(v, depth + 1) for v in vals)
            return False

        for lp in [x for x in body_nodes(f.node) if isinstance(x, ast.For) and files_iter(x.iter)]:
            n += 1
            leaves = []
            todo = list(lp.body)
            while todo:
                x = todo.pop()
                if isinstance(x, (ast.FunctionDef, ast.AsyncFunctionDef, ast.ClassDef, ast.Lambda)):
                    continue
                if isinstance(x, ast.Return):
                    leaves.append(x)
                if isinstance(x, ast.Break):
                    leaves.append(x)
                if isinstance(x, (ast.For, ast.While, ast.AsyncFor)):
                    # a break inside a nested loop belongs to that loop; a return still leaves
                    leaves += [y for y in ast.walk(x) if isinstance(y, ast.Return)]
                    continue
                todo.extend(ast.iter_child_nodes(x))
            if leaves:
                rep.violation(
                    "R-FILE-LOOP-TOTAL",
                    f,
                    leaves[0],
                    f"{f.qualname} leaves its loop over `{norm(lp.iter)}` early (`{short(leaves[0], 30)}`): the files behind the one that triggers it are not looked at - their changes are not shown, "
                    "not counted and not written although the category was approved",
                    construct=f"{f.qualname}:{norm(lp.iter)}:left-early",
                )
            else:
                rep.ok("R-FILE-LOOP-TOTAL", f, lp, f"every file of `{norm(lp.iter)}` is visited")
    rep.floor("R-FILE-LOOP-TOTAL", "loops over <recorder>.files()", n, 3)


def same_type(repo: Repo, rep):
    rep.rule(
        "R-SAME-TYPE",
        "Adapter.get_adapter hands out a structural adapter (element-wise repair that keeps the old constructor/brackets) only when old and new value have "
        "exactly the same type (`type(a) is type(b)`); any other pair is replaced as a whole by ValueAdapter - an isinstance test is weaker and keeps the "
        "old class name for an instance of a subclass, so the repaired snapshot still fails",
    )
    f = repo.func("_adapter/adapter.py::Adapter.get_adapter")
    from ..callgraph import callgraph
    from ..cfg import edges_dominate

    cg = callgraph(repo)

    def decide(f, a, b, depth=0):
        cfg = cfg_of(f)
        exact = []
        for c in cfg.conds():
            e = c.ast
            if isinstance(e, ast.Compare) and len(e.ops) == 1 and isinstance(e.ops[0], (ast.Is, ast.IsNot, ast.Eq, ast.NotEq)):
                sides = {norm(e.left), norm(e.comparators[0])}
                if sides == {f"type({a})", f"type({b})"}:
                    same = "T" if isinstance(e.ops[0], (ast.Is, ast.Eq)) else "F"
                    exact.append((c, same))
        # the choice handed to a helper that gets both values: `adapter_type = self._adapter_type_for(old, new)`
        chosen_by = {}
        if depth == 0:
            for n in cfg.live:
                for c in node_calls(n):
                    if [norm(x) for x in c.args] == [a, b] and not c.keywords:
                        tg, _ = cg.call_targets(f, c)
                        for h in tg:
                            hp = [p for p in h.params if p != "self"]
                            if h is not f and h.module.rel.startswith("_adapter/") and len(hp) == 2 and isinstance(n.ast, ast.Assign) and len(n.ast.targets) == 1 and isinstance(n.ast.targets[0], ast.Name):
                                chosen_by[n.ast.targets[0].id] = (h, hp)
        rets = [r for r in cfg.stmts(ast.Return) if r.ast.value is not None and "ValueAdapter" not in norm(r.ast.value)]
        out = []
        for r in rets:
            if exact and edges_dominate(cfg, exact, r):
                out.append((f, r, True))
                continue
            v = r.ast.value
            head = v.func if isinstance(v, ast.Call) else v
            if isinstance(head, ast.Name) and head.id in chosen_by and len(defs_of(cfg, head.id)) == 1:
                h, hp = chosen_by[head.id]
                sub = decide(h, hp[0], hp[1], depth + 1)
                if sub:
                    out.extend(sub)
                    continue
            out.append((f, r, False))
        return out

    res = decide(f, f.params[1], f.params[2])
    if not res:
        rep.undecided("R-SAME-TYPE", "no structural-adapter return found in get_adapter")
        return
    for g, r, ok in res:
        if ok:
            rep.ok("R-SAME-TYPE", g, r.ast, "structural adapter only for identical types")
        else:
            rep.violation("R-SAME-TYPE", g, r.ast, "a structural adapter is chosen although old and new value need not have the same type (no `type(old) is type(new)` test on every path): fix repairs the arguments but keeps the old class name, so the comparison still fails after the fix", construct="get_adapter")


def frame_locals(repo: Repo, rep):
    rep.rule(
        "R-FRAME-LOCALS",
        "names in a snapshot argument are resolved where the snapshot() call was written: snapshot() builds the evaluation context from BOTH `f_globals` and "
        "`f_locals` of the calling frame and AdapterContext.eval() hands both to eval().  A class that is only bound locally (imported inside the test after "
        "pytest.importorskip, defined in the test body) is otherwise not found when the call adapter evaluates the constructor: NameError inside ==, nothing "
        "is repaired",
    )
    sn = repo.func("_inline_snapshot.py::snapshot")
    txt = [norm(c) for c in body_nodes(sn.node) if isinstance(c, ast.Call)]
    has_g = any("f_globals" in t for t in txt)
    has_l = any("f_locals" in t for t in txt)
    if has_g and has_l:
        rep.ok("R-FRAME-LOCALS", sn, sn.node, "the context carries f_globals and f_locals of the calling frame")
    else:
        rep.violation("R-FRAME-LOCALS", sn, sn.node, f"snapshot() builds the evaluation context without {'f_locals' if not has_l else 'f_globals'} of the calling frame: names bound only in the test function are not resolvable when a call in the snapshot is fixed", construct="context-without-" + ("locals" if not has_l else "globals"))
    ev = repo.find_func("_adapter/adapter.py", "AdapterContext.eval")
    if ev is None:
        rep.undecided("R-FRAME-LOCALS", "AdapterContext.eval not found")
        return
    calls = [c for c in body_nodes(ev.node) if isinstance(c, ast.Call) and isinstance(c.func, ast.Name) and c.func.id == "eval"]
    rep.floor("R-FRAME-LOCALS", "eval() calls in AdapterContext.eval", len(calls), 1)
    for c in calls:
        a = [norm(x) for x in c.args[1:]] + [norm(k.value) for k in c.keywords]
        if any("globals" in x for x in a) and any("locals" in x for x in a):
            rep.ok("R-FRAME-LOCALS", ev, c, "eval(code, globals, locals)")
        else:
            rep.violation("R-FRAME-LOCALS", ev, c, f"`{short(c, 70)}` evaluates the callee without the local namespace of the test function", construct="eval-without-locals")
