"""C11 - fixing a container keeps what did not change."""
from __future__ import annotations

import ast
from typing import Dict, List, Optional, Set

from ..callgraph import callgraph
from ..cfg import cfg_of, dominating_edges, edge_dominates, node_calls, reach
from ..defuse import def_value, defs_of, reaching_defs, resolve_alias
from ..esp import UNKNOWN, run_method
from ..model import Repo, ancestors, body_nodes, norm, parent, short
from .common import stale_bindings, dispatch_ops, op_table, trace_str


def _is_get_adapter(e) -> bool:
    return isinstance(e, ast.Call) and isinstance(e.func, ast.Attribute) and e.func.attr == "get_adapter"


def chosen_adapter(f, c):
    """the `get_adapter(A, B)` call whose result `c` (= `<x>.assign(...)`) is applied to, or None.
    <x> is that call itself or a local of f whose every binding is such a call (`adapter = self.get_adapter(a, b)`)."""
    if not (isinstance(c, ast.Call) and isinstance(c.func, ast.Attribute) and c.func.attr == "assign"):
        return None
    x = c.func.value
    if _is_get_adapter(x):
        return x
    if isinstance(x, ast.Name):
        vals = [st.value for st in body_nodes(f.node) if isinstance(st, ast.Assign) and any(isinstance(t, ast.Name) and t.id == x.id for t in st.targets)]
        other = [1 for n in body_nodes(f.node) if isinstance(n, ast.Name) and n.id == x.id and isinstance(n.ctx, ast.Store)]
        if vals and len(vals) == len(other) and all(_is_get_adapter(v) for v in vals) and len({norm(v) for v in vals}) == 1:
            return vals[0]
    return None


def recursion_wrapper(repo, f, c):
    """`self.<m>(old, node, new)` where <m> is a method of the adapters that does nothing but choose the adapter for
    its (old, new) parameters and delegate to its assign(): returns (method, inner assign call) or None"""
    if not (isinstance(c, ast.Call) and isinstance(c.func, ast.Attribute) and isinstance(c.func.value, ast.Name) and c.func.value.id == "self" and f.cls is not None):
        return None
    if c.func.attr in ("assign", "value_assign", "get_adapter"):
        return None
    m = repo.lookup_method(f.cls, c.func.attr)
    if m is None or not m.module.rel.startswith("_adapter/"):
        return None
    calls = [x for x in body_nodes(m.node) if isinstance(x, ast.Call) and isinstance(x.func, ast.Attribute) and x.func.attr in ("assign", "value_assign")]
    if len(calls) != 1 or len(c.args) != 3 or c.keywords:
        return None
    ga = chosen_adapter(m, calls[0])
    ps = [p for p in m.params if p != "self"]
    if ga is None or len(ps) != 3 or len(ga.args) != 2 or len(calls[0].args) != 3:
        return None
    if [norm(a) for a in calls[0].args] != ps or [norm(a) for a in ga.args] != [ps[0], ps[2]]:
        return None
    return m, calls[0]


def is_recursion(repo, f, c) -> bool:
    """c recurses into a pair of elements: get_adapter(o, n).assign(o, node, n), as written or through a local / a delegating method"""
    return chosen_adapter(f, c) is not None or recursion_wrapper(repo, f, c) is not None


def check(repo: Repo, rep, tier):
    rep.not_decided = "optimality of the alignment (longest common subsequence); survival of element text through generic_sequence_update"
    match_guard(repo, rep)
    align_complete(repo, rep)
    script_table(repo, rep)
    align_readonly(repo, rep)
    equal_keeps(repo, rep)
    by_key(repo, rep)
    pair_len(repo, rep)
    cursor_sync(repo, rep)
    pair_recurse(repo, rep)
    callee_by_value(repo, rep)
    align_window(repo, rep)
    key_routing(repo, rep)
    argument_agree(repo, rep)
    align_operands(repo, rep)
    adapter_args_agree(repo, rep)
    from .C02 import frame_locals

    frame_locals(repo, rep)
    from .C05 import flag_label, positional_map

    flag_label(repo, rep)
    positional_map(repo, rep)
    from .C18 import write_fresh

    # what is written is what was approved: an unapproved update of an unchanged element must not reach the file
    write_fresh(repo, rep)
    from .C03 import char_units, range_prov

    range_prov(repo, rep)
    char_units(repo, rep)
    stale_bindings(repo, rep, {n for (rel, n), w in __import__("sa.rules.common", fromlist=["rebound_globals"]).rebound_globals(repo).items() if any(x.startswith("_compare_context.py::compare_context:") for x in w)}, "e.g. a copied compare-only flag stays False while a list is aligned, so nested snapshots are committed to the elements they are merely tried against", strict_rebinders=("_compare_context.py::compare_context",))
    from .C03 import element_parens

    element_parens(repo, rep)


def eq_edges(cfg):
    """(cond, 'T') edges of `a == b` tests between two loop variables."""
    loopvars = set()
    for n in cfg.live:
        if n.kind == "for":
            loopvars |= {x.id for x in ast.walk(n.ast.target) if isinstance(x, ast.Name)}
    out = []
    for c in cfg.conds():
        e = c.ast
        if isinstance(e, ast.Compare) and len(e.ops) == 1 and isinstance(e.ops[0], (ast.Eq, ast.NotEq)) and isinstance(e.left, ast.Name) and isinstance(e.comparators[0], ast.Name):
            if e.left.id in loopvars and e.comparators[0].id in loopvars:
                out.append((c, "T" if isinstance(e.ops[0], ast.Eq) else "F"))
    return out


def match_guard(repo: Repo, rep):
    rep.rule(
        "R-MATCH-GUARD",
        "in _align.py every occurrence of the match letter 'm' is multiplied by a counter that is only incremented under `a == b` of the current element pair, "
        "or stands in a statement control-dependent on such an edge, or is only read in a comparison: only equal elements are ever matched",
    )
    m = repo.module("_align.py")
    n = 0
    for f in m.funcs.values():
        cfg = cfg_of(f)
        eqs = eq_edges(cfg)
        for x in body_nodes(f.node):
            if not (isinstance(x, ast.Constant) and x.value == "m"):
                continue
            n += 1
            par = parent(x)
            if isinstance(par, ast.Compare):
                rep.ok("R-MATCH-GUARD", f, x, "'m' read in a comparison")
                continue
            if isinstance(par, ast.BinOp) and isinstance(par.op, ast.Mult):
                other = par.right if par.left is x else par.left
                if isinstance(other, ast.Name):
                    incs = [d for d in defs_of(cfg, other.id) if d.kind == "stmt" and isinstance(d.ast, ast.AugAssign)]
                    assigns = [d for d in defs_of(cfg, other.id) if d.kind == "stmt" and isinstance(d.ast, ast.Assign)]
                    zero = all(isinstance(d.ast.value, ast.Constant) and d.ast.value.value == 0 for d in assigns)
                    guarded = bool(incs) and all(any(edge_dominates(cfg, e, d) for e in eqs) for d in incs)
                    if zero and guarded:
                        rep.ok("R-MATCH-GUARD", f, x, f"'m' * {other.id}: {other.id} counts only equal pairs")
                    else:
                        rep.violation("R-MATCH-GUARD", f, x, f"{f.qualname}: the number of matched elements `{other.id}` is not counted only under `a == b` (starts at {'0' if zero else 'a non-zero value'}): elements that differ are reported as unchanged and keep their old text", construct=f"m*{other.id}")
                    continue
            nodes = cfg.nodes_containing(x)
            if nodes and any(edge_dominates(cfg, e, nodes[0]) for e in eqs):
                rep.ok("R-MATCH-GUARD", f, x, "'m' candidate only under a == b")
            else:
                rep.violation("R-MATCH-GUARD", f, x, f"{f.qualname} can emit the match letter for a pair of elements that was not found equal: a differing element keeps its old text", construct=f"m@{norm(par)[:50]}")
    rep.floor("R-MATCH-GUARD", "occurrences of the match letter", n, 4)


def script_table(repo: Repo, rep):
    rep.rule(
        "R-SCRIPT-TABLE",
        "per edit-script letter, the index decrements of the back-tracking loop in nw_align (m: both, i: second sequence, d: first) equal the iterator "
        "advances of the consumer loop in SequenceAdapter.assign (m,x: old+new, i: new, d: old) under the argument order of its align(old, new) call; the "
        "consumer handles every produced letter plus 'x' and fails loudly on anything else; the matrix border letters move along their own axis",
    )
    nw = repo.func("_align.py::nw_align")
    a_name, b_name = nw.params[0], nw.params[1]
    # index variables: ai = len(seq_a), bi = len(seq_b)
    idx: Dict[str, str] = {}
    for x in body_nodes(nw.node):
        if isinstance(x, ast.Assign) and isinstance(x.value, ast.Call) and norm(x.value.func) == "len" and x.value.args and isinstance(x.value.args[0], ast.Name) and isinstance(x.targets[0], ast.Name):
            if x.value.args[0].id == a_name:
                idx[x.targets[0].id] = "a"
            elif x.value.args[0].id == b_name:
                idx[x.targets[0].id] = "b"
    cfg = cfg_of(nw)
    prod: Dict[str, Set[str]] = {}
    for c in cfg.conds():
        e = c.ast
        if isinstance(e, ast.Compare) and len(e.ops) == 1 and isinstance(e.ops[0], ast.Eq) and isinstance(e.comparators[0], ast.Constant) and isinstance(e.comparators[0].value, str) and len(e.comparators[0].value) == 1:
            letter = e.comparators[0].value
            # statements dominated by this T edge that decrement an index (before the next letter test)
            others = [x for x in cfg.conds() if x is not c]
            r = reach(cfg, [b for b, l in c.succ if l == "T"], blocked_nodes=others)
            moves = set()
            for nd in r:
                if nd.kind == "stmt" and isinstance(nd.ast, ast.AugAssign) and isinstance(nd.ast.op, ast.Sub) and isinstance(nd.ast.target, ast.Name) and nd.ast.target.id in idx:
                    moves.add(idx[nd.ast.target.id])
            if moves:
                prod[letter] = moves
    if set(prod) != {"m", "i", "d"}:
        rep.undecided("R-SCRIPT-TABLE", f"back-tracking letters recognised: {sorted(prod)} (expected m, i, d)")
        return
    sa = repo.func("_adapter/sequence_adapter.py::SequenceAdapter.assign")
    scfg = cfg_of(sa)
    # align(old, new) call: which iterator walks which sequence
    ac = [c for c in body_nodes(sa.node) if isinstance(c, ast.Call) and norm(c.func) == "align" and len(c.args) == 2]
    if not ac:
        rep.undecided("R-SCRIPT-TABLE", "align(old, new) call not found in SequenceAdapter.assign")
        return
    first, second = norm(ac[0].args[0]), norm(ac[0].args[1])
    its: Dict[str, str] = {}
    for x in body_nodes(sa.node):
        if isinstance(x, ast.Assign) and isinstance(x.targets[0], ast.Name) and isinstance(x.value, ast.Call) and norm(x.value.func) in ("zip", "iter") and x.value.args:
            src = norm(x.value.args[0])
            if src == first:
                its[x.targets[0].id] = "a"
            elif src == second:
                its[x.targets[0].id] = "b"
    cons: Dict[str, Set[str]] = {}
    conds_by_letter = []
    for c in scfg.conds():
        e = c.ast
        letters = None
        if isinstance(e, ast.Compare) and len(e.ops) == 1 and isinstance(e.comparators[0], ast.Constant) and isinstance(e.comparators[0].value, str):
            if isinstance(e.ops[0], ast.In):
                letters = list(e.comparators[0].value)
            elif isinstance(e.ops[0], ast.Eq) and len(e.comparators[0].value) == 1:
                letters = [e.comparators[0].value]
        if letters:
            others = [x for x in scfg.conds() if x is not c and isinstance(x.ast, ast.Compare) and isinstance(x.ast.comparators[0], ast.Constant) and isinstance(x.ast.comparators[0].value, str)]
            r = reach(scfg, [b for b, l in c.succ if l == "T"], blocked_nodes=others + [n for n in scfg.live if n.kind == "for"])
            adv = set()
            for nd in r:
                for cc in node_calls(nd):
                    if norm(cc.func) == "next" and cc.args and isinstance(cc.args[0], ast.Name) and cc.args[0].id in its:
                        adv.add(its[cc.args[0].id])
            for L in letters:
                cons[L] = adv
    bad = False
    for L, moves in prod.items():
        if L not in cons:
            rep.violation("R-SCRIPT-TABLE", sa, sa.node, f"SequenceAdapter.assign has no branch for the edit-script letter '{L}' that nw_align produces", construct=f"missing:{L}")
            bad = True
        elif cons[L] != moves:
            want = {"a": first, "b": second}
            rep.violation(
                "R-SCRIPT-TABLE",
                sa,
                sa.node,
                f"letter '{L}': nw_align moves along {sorted(want[m] for m in moves)} (seen from the align({first}, {second}) call) but SequenceAdapter.assign advances {sorted(want[m] for m in cons[L])}: old elements and their source nodes get paired with the wrong new elements",
                construct=f"letter:{L}",
            )
            bad = True
    if "x" not in cons or cons.get("x") != {"a", "b"}:
        rep.violation("R-SCRIPT-TABLE", sa, sa.node, "the replacement letter 'x' (a delete+insert pair of equal length) must advance both sequences", construct="letter:x")
        bad = True
    if not any(n.kind == "assertfail" for n in scfg.live) and not any("Error" in norm(n.ast) for n in scfg.stmts(ast.Raise)):
        rep.violation("R-SCRIPT-TABLE", sa, sa.node, "an unknown edit-script letter is silently ignored by SequenceAdapter.assign", construct="fallthrough")
        bad = True
    # matrix border: first row letter moves along b, first column letter along a
    border_ok = True
    borders_seen = set()
    for x in body_nodes(nw.node):
        if isinstance(x, ast.AnnAssign) and isinstance(x.target, ast.Name) and x.value is not None:
            x = ast.Assign(targets=[x.target], value=x.value)
        # the two border definitions are found by where they stand, not by their names: a list display with script letters
        # in front of the loops is the first row (moves along b), one directly inside the outer loop starts a row (moves along a)
        if isinstance(x, ast.Assign) and isinstance(x.targets[0], ast.Name) and isinstance(x.value, (ast.List, ast.BinOp)):
            consts = [c.value for c in ast.walk(x.value) if isinstance(c, ast.Constant) and isinstance(c.value, str) and len(c.value) == 1]
            if not consts:
                continue
            depth = len([a_ for a_ in ancestors(x) if isinstance(a_, (ast.For, ast.While))])
            if depth == 0:
                borders_seen.add("row")
                row = [c for c in consts if c != "e"]
                if not row or any(prod.get(c) != {"b"} for c in row):
                    border_ok = False
            elif depth == 1:
                borders_seen.add("col")
                if any(prod.get(c) != {"a"} for c in consts):
                    border_ok = False
    if borders_seen != {"row", "col"}:
        rep.undecided("R-SCRIPT-TABLE", f"border of the alignment matrix not recognised in nw_align (found {sorted(borders_seen)})")
    if not border_ok:
        rep.violation("R-SCRIPT-TABLE", nw, nw.node, "the border of the alignment matrix uses a letter that does not move along its own axis (first row must consume the second sequence, first column the first)", construct="border")
        bad = True
    if not bad:
        rep.ok("R-SCRIPT-TABLE", sa, ac[0], f"producer {dict((k, sorted(v)) for k, v in prod.items())} == consumer; x advances both; border letters along their axes")
    rep.extra["script_table"] = {"producer": {k: sorted(v) for k, v in prod.items()}, "consumer": {k: sorted(v) for k, v in cons.items()}}


def align_readonly(repo: Repo, rep):
    rep.rule(
        "R-ALIGN-READONLY",
        "every call of align() from an adapter sits lexically inside `with compare_context():`; in compare-only mode EqValue.__eq__ records nothing "
        "(no new value, no change, no adapter.assign) under any flag set",
    )
    n = 0
    for f in repo.pkg_funcs():
        if f.module.rel == "_align.py":
            continue
        for c in body_nodes(f.node):
            if isinstance(c, ast.Call) and isinstance(c.func, ast.Name) and c.func.id == "align":
                r = repo.resolve_name(f.module, "align")
                if not (r and r[0] == "func" and r[1].key == "_align.py::align"):
                    continue
                n += 1
                inside = any(isinstance(a, ast.With) and any(norm(i.context_expr.func if isinstance(i.context_expr, ast.Call) else i.context_expr).endswith("compare_context") for i in a.items) for a in ancestors(c))
                if inside:
                    rep.ok("R-ALIGN-READONLY", f, c, "align() under compare_context()")
                else:
                    rep.violation("R-ALIGN-READONLY", f, c, f"{f.qualname} aligns outside compare_context(): the == calls of the alignment commit nested snapshots (values and changes are recorded for pairs that are merely being tried)", construct="align-outside")
    rep.floor("R-ALIGN-READONLY", "align() call sites", n, 1)
    for op in dispatch_ops(repo):
        if op.dunder != "__eq__":
            continue
        bad = None
        for v, outs in op_table(repo, op):
            if not v["CO"]:
                continue
            for o in outs:
                for e in o.p.eff:
                    if (e[0] == "store" and e[1] == "_new_value") or (e[0] == "mcall" and e[2] == "assign") or (e[0] == "mcall" and e[2] == "append" and "_changes" in str(e[1])):
                        bad = bad or (v, o, e)
        if bad:
            from ..esp import val_str

            rep.violation("R-ALIGN-READONLY", op.func, op.func.node, f"{op.label} records {bad[2][0]} {bad[2][1] if isinstance(bad[2][1], str) else bad[2][2]} in compare-only mode: a nested snapshot is committed to whatever element the alignment happens to try it against", [val_str(bad[0]), trace_str(bad[1])], construct="eq-commits")
        else:
            rep.ok("R-ALIGN-READONLY", op.func, op.func.node, f"{op.label}: nothing recorded in compare-only mode")


def _flag_of_yield(e):
    """flag constant of a ('yield', ('new', 'Replace', pos, kws)) effect."""
    t = e[1]
    if isinstance(t, tuple) and t[0] == "new":
        for k, v in t[3] if len(t) > 3 else ():
            if k == "flag" and isinstance(v, tuple) and v[0] == "const":
                return v[1]
    return None


def equal_keeps(repo: Repo, rep):
    rep.rule(
        "R-EQUAL-KEEPS",
        "ValueAdapter.assign: on the `old == new` true edge a change is yielded only with the label update (and the old value is returned when none is); "
        "fix/create labelled changes appear only on the false edge",
    )
    c = repo.cls("ValueAdapter", "_adapter/value_adapter.py")
    f = c.methods["assign"]
    outs, _ = run_method(repo, f, c, UNKNOWN)
    old, new = ("param", f.params[1]), ("param", f.params[3])
    eq = ("cmp", "==", old, new)
    n = 0
    bad = False
    for o in outs:
        if o.kind != "ret":
            continue
        a = o.p.assumed(eq)
        ys = [e for e in o.p.eff if e[0] == "yield"]
        flags = {_flag_of_yield(e) for e in ys}
        if a is True:
            n += 1
            if flags - {"update"}:
                rep.violation("R-EQUAL-KEEPS", f, f.node, f"ValueAdapter.assign emits a `{sorted(x for x in flags if x != 'update')[0]}` change for a leaf whose value did not change: with fix alone, equal elements lose their hand-written text", trace_str(o), construct="equal-fix")
                bad = True
            if not ys and o.ret != old:
                rep.violation("R-EQUAL-KEEPS", f, f.node, "an unchanged leaf does not return its old value", trace_str(o), construct="equal-ret")
                bad = True
        if not ys and a is not True:
            # completeness: a leaf is kept without a change only when it was found equal - or when it is one of the two kinds the
            # user controls (an Unmanaged wrapper, an f-string node)
            def _audited(t, v_):
                return v_ is True and isinstance(t, tuple) and t[0] == "call" and t[1] == "isinstance" and len(t[2]) == 2 and (
                    (t[2][0] == old and "Unmanaged" in str(t[2][1])) or (t[2][0] == ("param", f.params[2]) and "JoinedStr" in str(t[2][1]))
                )

            if not any(_audited(t, v_) for t, v_ in o.p.assume):
                rep.violation(
                    "R-EQUAL-KEEPS",
                    f,
                    f.node,
                    "ValueAdapter.assign can keep the old leaf without having found it equal to the new value (an early return that is neither the Unmanaged nor the f-string case): "
                    "a wrong value is never reported as fix, `--inline-snapshot=fix` leaves it in the file",
                    trace_str(o),
                    construct="kept-without-compare",
                )
                bad = True
        if a is False:
            n += 1
            if "update" in flags:
                rep.violation("R-EQUAL-KEEPS", f, f.node, "ValueAdapter.assign labels a change of a differing leaf `update`", trace_str(o), construct="unequal-update")
                bad = True
    if not bad:
        rep.ok("R-EQUAL-KEEPS", f, f.node, f"{n} paths: equal => nothing or update; unequal => fix/create")
    rep.floor("R-EQUAL-KEEPS", "paths deciding on old == new", n, 3)


def align_operands(repo: Repo, rep):
    rep.rule(
        "R-ALIGN-OPERANDS",
        "the alignment compares `<element of the snapshot> == <observed element>` - the stored element on the left - in every equality test of _align.py "
        "between elements of its two sequences, and SequenceAdapter hands it (old value, new value) in this order.  Matchers written in the snapshot "
        "(Is(x), dirty-equals, mock.ANY) define `__eq__` on their own side only: with the operands swapped an object with a strict `__eq__` answers False, "
        "the matcher is not aligned as unchanged and is deleted / re-generated from the observed value",
    )
    m = repo.module("_align.py")
    n = 0
    for f in m.funcs.values():
        if len(f.params) < 2:
            continue
        pa, pb = f.params[0], f.params[1]

        def origin(name, at):
            # which parameter sequence does the loop variable `name` enumerate at this comparison?
            org = None
            for a in ancestors(at):
                tg_it = []
                if isinstance(a, (ast.For, ast.AsyncFor)):
                    tg_it.append((a.target, a.iter))
                if isinstance(a, (ast.ListComp, ast.SetComp, ast.GeneratorExp, ast.DictComp)):
                    tg_it += [(g.target, g.iter) for g in a.generators]
                for tg, it in tg_it:
                    pairs = []
                    if isinstance(it, ast.Call) and isinstance(it.func, ast.Name) and it.func.id == "zip" and isinstance(tg, (ast.Tuple, ast.List)) and len(tg.elts) == len(it.args):
                        pairs = list(zip(tg.elts, it.args))
                    elif isinstance(it, ast.Call) and isinstance(it.func, ast.Name) and it.func.id == "enumerate" and isinstance(tg, (ast.Tuple, ast.List)) and len(tg.elts) == 2 and it.args:
                        pairs = [(tg.elts[1], it.args[0])]
                    else:
                        pairs = [(tg, it)]
                    for t, src in pairs:
                        if isinstance(t, ast.Name) and t.id == name and org is None:
                            names = {x.id for x in ast.walk(src) if isinstance(x, ast.Name)}
                            if pa in names and pb not in names:
                                org = "a"
                            elif pb in names and pa not in names:
                                org = "b"
                if a is f.node:
                    break
            return org

        for x in body_nodes(f.node):
            if isinstance(x, ast.Compare) and len(x.ops) == 1 and isinstance(x.ops[0], (ast.Eq, ast.NotEq)) and isinstance(x.left, ast.Name) and isinstance(x.comparators[0], ast.Name):
                lo, ro = origin(x.left.id, x), origin(x.comparators[0].id, x)
                if lo is None or ro is None or lo == ro:
                    continue
                n += 1
                if (lo, ro) == ("a", "b"):
                    rep.ok("R-ALIGN-OPERANDS", f, x, f"`{norm(x)}`: stored element on the left")
                else:
                    rep.violation(
                        "R-ALIGN-OPERANDS",
                        f,
                        x,
                        f"{f.qualname} tests `{norm(x)}` with the observed element on the left: a matcher written in the snapshot (Is(..), dirty-equals) is asked through the reflected `__eq__` only - "
                        "an observed object with a strict `__eq__` answers False, the matcher counts as changed and is replaced by generated code",
                        construct=f"{f.qualname}:operands",
                    )
    rep.floor("R-ALIGN-OPERANDS", "element comparisons in _align.py", n, 3)
    # the caller: align(old, new)
    cg = callgraph(repo)
    calls = [(cf, c) for cf, c, how in cg.callers.get("_align.py::align", []) if not cf.module.rel.startswith("@")]
    rep.floor("R-ALIGN-OPERANDS", "align() call sites", len(calls), 1)
    for cf, c in calls:
        if len(c.args) != 2 or len(cf.params) < 4:
            rep.undecided("R-ALIGN-OPERANDS", f"{cf.key}: align() call of an unknown shape")
            continue
        ccfg = cfg_of(cf)
        at = ccfg.nodes_containing(c)
        old_p, new_p = cf.params[1], cf.params[3]

        def from_param(e):
            if isinstance(e, ast.Name) and at:
                e2 = resolve_alias(ccfg, at[0], e)
                return {x.id for x in ast.walk(e2) if isinstance(x, ast.Name)} | {e.id}
            return {x.id for x in ast.walk(e) if isinstance(x, ast.Name)}

        a0, a1 = from_param(c.args[0]), from_param(c.args[1])
        if old_p in a0 and new_p in a1 and new_p not in a0 and old_p not in a1:
            rep.ok("R-ALIGN-OPERANDS", cf, c, "align(old value, new value)")
        else:
            rep.violation("R-ALIGN-OPERANDS", cf, c, f"{cf.qualname} calls `{short(c, 50)}`: the stored value is not the first sequence, the edit script (and the side of every `==`) is reversed", construct=f"{cf.qualname}:align-args")


def adapter_args_agree(repo: Repo, rep):
    rep.rule(
        "R-ADAPTER-ARGS",
        "the adapter that repairs a paired element is chosen for the values it is then given: in every `<x>.get_adapter(A, B).assign(A', node, B')` of "
        "the adapters A is A' and B is B'.  get_adapter() compares the types of its two arguments; handed a wrapper (`Argument`) for one of them it "
        "never finds them equal and falls back to replacing the element wholesale - unchanged parts of a list / dict passed by position lose their text",
    )
    n = 0
    for f in repo.pkg_funcs():
        if not f.module.rel.startswith("_adapter/"):
            continue
        for c in body_nodes(f.node):
            cho = chosen_adapter(f, c)
            if cho is not None and len(c.args) == 3 and len(cho.args) == 2:
                n += 1
                ga = cho.args
                if norm(ga[0]) == norm(c.args[0]) and norm(ga[1]) == norm(c.args[2]):
                    rep.ok("R-ADAPTER-ARGS", f, c, "get_adapter(old, new).assign(old, node, new)")
                else:
                    rep.violation("R-ADAPTER-ARGS", f, c, f"{f.qualname}: the adapter is chosen for `({norm(ga[0])}, {norm(ga[1])})` but applied to `({norm(c.args[0])}, {norm(c.args[2])})`: the choice looks at another object than the one that is repaired (e.g. the Argument wrapper instead of its value), so a structural adapter is never selected and the element is re-generated as a whole", construct=f"{f.qualname}:adapter-args")
    rep.floor("R-ADAPTER-ARGS", "get_adapter(..).assign(..) sites", n, 4)


def by_key(repo: Repo, rep):
    rep.rule(
        "R-BY-KEY",
        "DictAdapter.assign and the keyword part of GenericCallAdapter.assign hand the recursive assign() the old value, the old node and the new value of the "
        "*same key*: the node is found by a lookup with that key (index of the key / mapping by name), never by position in the new value",
    )
    for key, what in (("_adapter/dict_adapter.py::DictAdapter.assign", "dict entry"), ("_adapter/generic_call_adapter.py::GenericCallAdapter.assign", "keyword argument")):
        f = repo.func(key)
        cfg = cfg_of(f)
        found = 0
        for n in cfg.live:
            for c in node_calls(n):
                if not (isinstance(c.func, ast.Attribute) and c.func.attr == "assign" and len(c.args) == 3):
                    continue
                # the loop variable that keys this iteration
                loops = [a for a in ancestors(c) if isinstance(a, ast.For)]
                if not loops:
                    continue
                keyvars = {x.id for x in ast.walk(loops[0].target) if isinstance(x, ast.Name)}
                it = norm(loops[0].iter)
                if not (".items()" in it or "keys()" in it):
                    continue  # positional loop (handled by R-SCRIPT-TABLE / star tests)
                found += 1
                kv = None
                a0 = c.args[0]
                if isinstance(a0, ast.Name):
                    a0 = resolve_alias(cfg, n, a0)
                for k in keyvars:
                    if any(isinstance(x, ast.Subscript) and norm(x.slice) == k for x in ast.walk(a0)) or any(isinstance(x, ast.Name) and x.id == k for x in ast.walk(a0)):
                        kv = k
                node_arg = c.args[1]
                src = node_arg
                if isinstance(node_arg, ast.Name):
                    ds = reaching_defs(cfg, n, node_arg.id)
                    srcs = [def_value(d, node_arg.id) for d in ds]
                else:
                    srcs = [node_arg]
                ok = kv is not None
                for s in srcs:
                    if s is None:
                        ok = False
                        continue
                    if isinstance(s, ast.Constant) and s.value is None:
                        continue
                    txt = norm(s)
                    by_lookup = (f".index({kv})" in txt) or txt.endswith(f"[{kv}]") or f".get({kv}" in txt
                    if not by_lookup:
                        ok = False
                if ok:
                    rep.ok("R-BY-KEY", f, c, f"{what}: node looked up by `{kv}`")
                else:
                    rep.violation("R-BY-KEY", f, c, f"{f.qualname}: the old node handed to the recursive assign() of a {what} is `{short(srcs[0] if srcs and srcs[0] is not None else node_arg, 50)}`, not a lookup by the entry's key: entries are matched by position, so an equal entry under a surviving key loses its text when keys are added, removed or reordered", construct=f"{what}:node")
        rep.floor("R-BY-KEY", f"keyed recursive assign() sites in {f.qualname}", found, 1)


def pair_len(repo: Repo, rep):
    rep.rule(
        "R-PAIR-LEN",
        "wherever the entries of a runtime mapping are paired by position with the `.values` of a dict display's node (zip with the mapping's keys, "
        "`node.values[list(m.keys()).index(k)]`, `values = node.values` zipped later), an equal-length test `len(m) == len(node.keys)` dominates the "
        "pairing (a display that spells a key twice has more nodes than the mapping has keys); the sites are DictAdapter.assign / items and "
        "DictValue.__getitem__ / _get_changes today, found by shape",
    )
    sites = []
    for f in repo.pkg_funcs():
        for a in body_nodes(f.node):
            if not (isinstance(a, ast.Attribute) and a.attr == "values" and isinstance(a.ctx, ast.Load)):
                continue
            par = parent(a)
            if isinstance(par, ast.Call) and par.func is a:
                continue  # mapping.values()
            base = norm(a.value)
            if "node" not in base.lower():
                continue
            # zip(node.keys, node.values): the display paired with itself, no runtime mapping involved
            if isinstance(par, ast.Call) and isinstance(par.func, ast.Name) and par.func.id == "zip" and all(isinstance(x, ast.Attribute) and norm(x.value) == base for x in par.args):
                continue
            sites.append((f, a, base))
    rep.floor("R-PAIR-LEN", "positional uses of a dict display's values", len(sites), 4)
    for f, a, base in sites:
        cfg = cfg_of(f)
        lens = []
        for c in cfg.conds():
            e = c.ast
            if isinstance(e, ast.Compare) and len(e.ops) == 1 and isinstance(e.ops[0], (ast.Eq, ast.NotEq)):
                sides = [norm(e.left), norm(e.comparators[0])]
                other = [x for x in sides if x != f"len({base}.keys)"]
                if len(other) == 1 and other[0].startswith("len(") and base not in other[0]:
                    lens.append((c, "T" if isinstance(e.ops[0], ast.Eq) else "F"))
        # a predicate helper whose answer includes the length test (`return not any(..) and len(old) == len(keys)`)
        cg_ = callgraph(repo)
        for c in cfg.conds():
            e = c.ast
            if isinstance(e, ast.Call):
                tg, _ = cg_.call_targets(f, e)
                for g in tg:
                    rets = [r for r in body_nodes(g.node) if isinstance(r, ast.Return) and r.value is not None]
                    if len(rets) != 1:
                        continue
                    v = rets[0].value
                    parts = v.values if isinstance(v, ast.BoolOp) and isinstance(v.op, ast.And) else [v]
                    for pt in parts:
                        if isinstance(pt, ast.Compare) and len(pt.ops) == 1 and isinstance(pt.ops[0], ast.Eq):
                            sides = [pt.left, pt.comparators[0]]
                            if all(isinstance(x, ast.Call) and norm(x.func) == "len" and x.args for x in sides):
                                def res(x_):
                                    y = x_.args[0]
                                    if isinstance(y, ast.Name):
                                        for st_ in body_nodes(g.node):
                                            if isinstance(st_, ast.Assign) and any(isinstance(t_, ast.Name) and t_.id == y.id for t_ in st_.targets):
                                                return norm(st_.value)
                                    return norm(y)
                                rs = [res(x) for x in sides]
                                # the helper's own receiver is the caller's receiver (a method called on self)
                                if f"{base}.keys" in rs and rs[0] != rs[1]:
                                    lens.append((c, "T"))
        nn_edges = [(x, "F") for x in cfg.conds() if norm(x.ast) == f"{base} is not None"] + [(x, "T") for x in cfg.conds() if norm(x.ast) == f"{base} is None"]
        at = cfg.nodes_containing(a)
        if not at:
            continue
        through = reach(cfg, [cfg.entry], blocked_edges=lens + nn_edges)
        if lens and not any(n in through for n in at):
            rep.ok("R-PAIR-LEN", f, a, "pairing only after the lengths were found equal")
        else:
            rep.violation(
                "R-PAIR-LEN",
                f,
                a,
                f"{f.qualname} pairs the entries of the mapping with `{base}.values` by position without checking that the display has exactly one entry per key: "
                "with a key written twice, trim deletes / fix edits the wrong entry (the last occurrence is the one that counts)",
                construct="dict-pair-len" if f.qualname == "DictAdapter.assign" else f"dict-pair-len:{f.qualname}",
            )


def align_complete(repo: Repo, rep):
    rep.rule(
        "R-ALIGN-COMPLETE",
        "every return of align() is either the all-equal early return (`'m' * n` under `start == len(a) == len(b)`) or is built from nw_align() of the "
        "window between the equal prefix and suffix: no path replaces the alignment of the window by a wholesale delete+insert (equal elements in the middle "
        "of a changed region would lose their text)",
    )
    f = repo.func("_align.py::align")
    cfg = cfg_of(f)
    n = 0
    for r in cfg.stmts(ast.Return):
        v = r.ast.value
        n += 1
        if v is None:
            rep.violation("R-ALIGN-COMPLETE", f, r.ast, "align() returns nothing on a path", construct="none")
            continue
        from ..defuse import derives_from

        uses_nw = derives_from(cfg, r, v, lambda x: isinstance(x, ast.Call) and norm(x.func) == "nw_align")
        letters = {c.value for c in ast.walk(v) if isinstance(c, ast.Constant) and isinstance(c.value, str)}
        # every definition of a name used in the result must be the alignment itself, not a literal script
        for nm in {x.id for x in ast.walk(v) if isinstance(x, ast.Name)}:
            for d in reaching_defs(cfg, r, nm):
                dv = def_value(d, nm)
                if dv is not None:
                    letters |= {c.value for c in ast.walk(dv) if isinstance(c, ast.Constant) and isinstance(c.value, str) and c.value}
        if uses_nw and letters - {"m"}:
            rep.violation("R-ALIGN-COMPLETE", f, r.ast, f"align() can build its result from the literal edit letters {sorted(letters - {'m'})} instead of nw_align() on some path: unchanged elements inside the changed region are deleted and re-inserted, losing their hand-written text", construct="bypass-nw")
            continue
        if uses_nw:
            rep.ok("R-ALIGN-COMPLETE", f, r.ast, "window aligned by nw_align")
        elif letters <= {"m"}:
            guards = [(c, "T") for c in cfg.conds() if isinstance(c.ast, ast.Compare) and "len(" in norm(c.ast) and all(isinstance(o, ast.Eq) for o in c.ast.ops)]
            from ..cfg import edges_dominate

            if guards and edges_dominate(cfg, guards, r):
                rep.ok("R-ALIGN-COMPLETE", f, r.ast, "all-equal early return")
            else:
                rep.violation("R-ALIGN-COMPLETE", f, r.ast, "align() reports everything as matched without having compared the lengths", construct="m-unguarded")
        else:
            rep.violation("R-ALIGN-COMPLETE", f, r.ast, f"align() has a path that returns `{short(v, 50)}` without aligning the window with nw_align: unchanged elements inside the changed region are deleted and re-inserted, losing their hand-written text", construct="bypass-nw")
    rep.floor("R-ALIGN-COMPLETE", "returns of align()", n, 2)


def cursor_sync(repo: Repo, rep):
    rep.rule(
        "R-CURSOR-SYNC",
        "in SequenceAdapter.assign the counter that keys the pending insertions (`to_insert[<pos>]`, later the position of ListInsert) counts the consumed "
        "old elements: inside the loop over the edit script every path that takes an element from the old iterator (`next(<old>)`) also increments the "
        "counter before the next iteration, and no path increments it without consuming one.  A branch that consumes without counting records every "
        "later insertion one slot too far left (`[a, X, b]` + insert after b -> inserted before b)",
    )
    from ..cfg import must_reach

    f = repo.func("_adapter/sequence_adapter.py::SequenceAdapter.assign")
    cfg = cfg_of(f)
    # the counter: a Name used as subscript key of a container that later feeds a ListInsert / insert helper, and incremented in a loop
    incs = [n for n in cfg.stmts(ast.AugAssign) if isinstance(n.ast.target, ast.Name) and isinstance(n.ast.op, ast.Add)]
    keyed = {x.slice.id for x in body_nodes(f.node) if isinstance(x, ast.Subscript) and isinstance(x.slice, ast.Name)}
    counters = {n.ast.target.id for n in incs} & keyed
    if not counters:
        # position taken from enumerate / computed otherwise: nothing to keep in step
        rep.ok("R-CURSOR-SYNC", f, f.node, "no hand-maintained insertion cursor")
        return
    pos = sorted(counters)[0]
    incs = [n for n in incs if n.ast.target.id == pos]
    # the old iterator: argument of next() whose definition mentions the old value / old node
    olds = set()
    for n in cfg.live:
        for c in node_calls(n):
            if isinstance(c.func, ast.Name) and c.func.id == "next" and c.args and isinstance(c.args[0], ast.Name):
                nm = c.args[0].id
                for d in defs_of(cfg, nm):
                    v = def_value(d, nm)
                    if v is not None and "old" in norm(v):
                        olds.add(nm)
    takes = [n for n in cfg.live if any(isinstance(c.func, ast.Name) and c.func.id == "next" and c.args and isinstance(c.args[0], ast.Name) and c.args[0].id in olds for c in node_calls(n))]
    rep.floor("R-CURSOR-SYNC", "sites consuming an old element", len(takes), 2)
    loops = [n for n in cfg.live if n.kind == "for" and any(t in reach(cfg, [b for b, l in n.succ if l == "iter"], blocked_nodes=[n]) for t in takes)]
    if not loops:
        rep.undecided("R-CURSOR-SYNC", "loop over the edit script not found")
        return
    head = loops[0]
    for t in takes:
        if must_reach(cfg, t, incs, [head], skip_labels=("exc",)):
            rep.ok("R-CURSOR-SYNC", f, t.ast, f"consuming an old element is followed by `{pos} += 1` on every path of the iteration")
        else:
            rep.violation(
                "R-CURSOR-SYNC",
                f,
                t.ast,
                f"a path consumes an old element (`{short(t.ast, 50)}`) and starts the next iteration without `{pos} += 1`: insertions to the right of it are keyed one slot too far left and written in front of the wrong element",
                construct=f"take-without-count:{short(t.ast, 40)}",
            )
    for i in incs:
        r = reach(cfg, [b for b, l in head.succ if l == "iter"], blocked_nodes=takes + [head])
        if i in r:
            rep.violation("R-CURSOR-SYNC", f, i.ast, f"`{pos} += 1` is reachable in an iteration that consumed no old element: later insertions are keyed too far right", construct="count-without-take")
        else:
            rep.ok("R-CURSOR-SYNC", f, i.ast, "increment only after consuming an old element")


STRUCTURAL_ASSIGNS = ("_adapter/sequence_adapter.py::SequenceAdapter.assign", "_adapter/dict_adapter.py::DictAdapter.assign", "_adapter/generic_call_adapter.py::GenericCallAdapter.assign")


def pair_recurse(repo: Repo, rep):
    rep.rule(
        "R-PAIR-RECURSE",
        "in the structural adapters (sequence, dict, call) the whole-value replacement `value_assign` is only the fall-back for the container as a whole, "
        "taken before any element is paired: no call of value_assign sits inside a loop of assign(), and every adapter recurses for paired elements through "
        "`get_adapter(old_element, new_element).assign(...)` inside a loop.  Replacing a paired element wholesale regenerates a partly changed nested "
        "container and drops the hand-written text of its unchanged parts",
    )
    for key in STRUCTURAL_ASSIGNS:
        f = repo.func(key)
        rec = 0
        for c in [x for x in body_nodes(f.node) if isinstance(x, ast.Call) and isinstance(x.func, ast.Attribute)]:
            in_loop = any(isinstance(a, (ast.For, ast.While, ast.ListComp, ast.GeneratorExp, ast.DictComp)) for a in ancestors(c) if a is not f.node)
            if c.func.attr == "value_assign" and in_loop:
                rep.violation(
                    "R-PAIR-RECURSE",
                    f,
                    c,
                    f"{f.qualname} replaces a paired element as a whole (`{short(c, 60)}` inside the element loop) instead of recursing with get_adapter(...).assign(): "
                    "a partly changed nested list/dict/call is regenerated and its unchanged hand-written parts are lost",
                    construct=f"{f.qualname}:value_assign-in-loop",
                )
            if is_recursion(repo, f, c) and in_loop:
                rec += 1
                rep.ok("R-PAIR-RECURSE", f, c, "paired elements recurse through get_adapter(...).assign()")
        if rec == 0:
            rep.violation("R-PAIR-RECURSE", f, f.node, f"{f.qualname} never recurses into paired elements with get_adapter(...).assign()", construct=f"{f.qualname}:no-recursion")


def _spelling_reads(fn_node) -> list:
    """reads of an identifier's *text*: <x>.id / <x>.attr of an ast node, __name__/__qualname__, ast.unparse/dump/get_source_segment"""
    out = []
    for x in ast.walk(fn_node):
        if isinstance(x, ast.Attribute) and x.attr in ("__name__", "__qualname__"):
            out.append(x)
        if isinstance(x, ast.Attribute) and x.attr in ("id", "attr") and isinstance(x.ctx, ast.Load):
            out.append(x)
        if isinstance(x, ast.Call) and norm(x.func) in ("ast.unparse", "ast.dump", "ast.get_source_segment"):
            out.append(x)
    return out


def callee_by_value(repo: Repo, rep):
    rep.rule(
        "R-CALLEE-BY-VALUE",
        "GenericCallAdapter.assign decides whether the call in the source constructs the value's type from the *evaluated* callee "
        "(`context.eval(old_node.func)` + check_type), never from how the callee is spelled: no condition of assign() - directly or through a helper that "
        "receives `<node>.func` - reads `.id` / `.attr` / `__name__` / an unparse of the callee.  An import alias (`from m import Point as P`), an assigned "
        "alias or a qualified name would otherwise be taken for a factory call and the whole call regenerated on every fix",
    )
    f = repo.func("_adapter/generic_call_adapter.py::GenericCallAdapter.assign")
    cfg = cfg_of(f)
    node_param = f.params[2] if len(f.params) > 2 else "old_node"
    n = 0
    bad = False
    from ..defuse import derives_from as _df

    def _from_callee(c, y):
        return _df(cfg, c, y, lambda z: isinstance(z, ast.Attribute) and z.attr == "func" and norm(z.value) == node_param)

    for c in cfg.conds():
        e = c.ast
        mentions_func = any(isinstance(x, ast.Attribute) and x.attr == "func" and norm(x.value) == node_param for x in ast.walk(e))
        if not mentions_func:
            # the same decision with the callee / its name held in locals (also the shape a helper has once it is put back at its call)
            if _df(cfg, c, e, lambda x: isinstance(x, ast.Attribute) and x.attr in ("id", "attr") and isinstance(x.ctx, ast.Load) and _from_callee(c, x.value)):
                n += 1
                bad = True
                rep.violation(
                    "R-CALLEE-BY-VALUE",
                    f,
                    e,
                    f"`{short(e, 70)}` decides on the spelling of the called name (the identifier text of `{node_param}.func` reaches this condition): a class used through an alias "
                    "(`from models import Point as P`, `Pt = Point`, `models.Point`) is treated as a factory call, any fix regenerates the whole call and drops the unchanged arguments' text",
                    construct="callee-spelling",
                )
            continue
        n += 1
        hits = [x for x in _spelling_reads(e) if not (isinstance(x, ast.Attribute) and x.attr in ("id", "attr") and False)]
        direct = [x for x in hits if isinstance(x, ast.Attribute) and x.attr in ("id", "attr", "__name__", "__qualname__")]
        via = []
        for call in [x for x in ast.walk(e) if isinstance(x, ast.Call)]:
            if any(isinstance(a, ast.Attribute) and a.attr == "func" and norm(a.value) == node_param for a in call.args):
                tgt = None
                if isinstance(call.func, ast.Attribute) and f.cls is not None:
                    tgt = repo.lookup_method(f.cls, call.func.attr)
                elif isinstance(call.func, ast.Name):
                    r = repo.resolve_name(f.module, call.func.id)
                    tgt = r[1] if r and r[0] == "func" else None
                if tgt is not None and _spelling_reads(tgt.node):
                    via.append((call, tgt))
        if direct or via or [x for x in hits if isinstance(x, ast.Call)]:
            bad = True
            rep.violation(
                "R-CALLEE-BY-VALUE",
                f,
                e,
                f"`{short(e, 70)}` decides on the spelling of the called name" + (f" (through {via[0][1].qualname})" if via else "") + ": a class used through an alias "
                "(`from models import Point as P`, `Pt = Point`, `models.Point`) is treated as a factory call, any fix regenerates the whole call and drops the unchanged arguments' text",
                construct="callee-spelling",
            )
    evals = [c for c in body_nodes(f.node) if isinstance(c, ast.Call) and isinstance(c.func, ast.Attribute) and c.func.attr == "eval" and c.args and "func" in norm(c.args[0])]
    if evals and not bad:
        rep.ok("R-CALLEE-BY-VALUE", f, evals[0], "the callee is evaluated (context.eval(node.func)) and tested with check_type")
    elif not evals:
        rep.violation("R-CALLEE-BY-VALUE", f, f.node, "GenericCallAdapter.assign no longer evaluates the callee of the source call", construct="no-eval")


def align_window(repo: Repo, rep):
    rep.rule(
        "R-ALIGN-WINDOW",
        "align(): the scan for the equal suffix is restricted to what the equal prefix left over - its iterables (or a dominating bound) mention the prefix "
        "counter - so prefix and suffix cannot overlap; otherwise `[1, 1]` vs `[1, 1, 1]` yields four `m` for sequences of length 2 and 3 and "
        "SequenceAdapter.assign runs out of elements (RuntimeError inside ==)",
    )
    f = repo.func("_align.py::align")
    loops = [x for x in f.node.body if isinstance(x, ast.For)]
    counters = []
    for lp in loops:
        inc = [a.target.id for a in ast.walk(lp) if isinstance(a, ast.AugAssign) and isinstance(a.target, ast.Name) and isinstance(a.op, ast.Add)]
        counters.append(inc[0] if inc else None)
    if len(loops) < 2 or counters[0] is None:
        rep.ok("R-ALIGN-WINDOW", f, f.node, "no separate prefix/suffix scans")
        return
    prefix = counters[0]
    second = loops[1]
    names = {x.id for x in ast.walk(second.iter) if isinstance(x, ast.Name)}
    conds = {x.id for t in ast.walk(second) if isinstance(t, (ast.If, ast.While)) for x in ast.walk(t.test) if isinstance(x, ast.Name)}
    if prefix in names or prefix in conds:
        rep.ok("R-ALIGN-WINDOW", f, second, f"the suffix scan is bounded by the prefix counter `{prefix}`")
    else:
        rep.violation(
            "R-ALIGN-WINDOW",
            f,
            second,
            f"the suffix scan `{short(second.iter, 60)}` does not exclude the first `{prefix}` elements already matched as prefix: with repeated elements prefix and suffix overlap, "
            "align() returns more `m` than the shorter sequence has elements and SequenceAdapter.assign raises inside the comparison",
            construct="suffix-overlaps-prefix",
        )


def _deciding_conds(cfg, target, scope_head=None):
    """condition nodes one of whose edges can reach `target` (without passing the loop head again) while another cannot"""
    out = []
    if scope_head is None:
        # loops whose body contains the target: a path that goes round such a loop is another iteration
        blocked = [n for n in cfg.live if n.kind in ("for", "while") and target in reach(cfg, [b for b, l in n.succ if l in ("iter", "T")], blocked_nodes=[n])]
    else:
        blocked = [scope_head]
    for c in cfg.conds():
        labs = {}
        for b, l in c.succ:
            if l in ("T", "F"):
                labs[l] = target in reach(cfg, [b], blocked_nodes=blocked) or b is target
        if len(labs) == 2 and labs["T"] != labs["F"]:
            out.append((c, "T" if labs["T"] else "F"))
    return out


def _cond_expr(cfg, c):
    """the tested expression; a bare local is replaced by the expression it was computed from"""
    e = c.ast
    if isinstance(e, ast.Name):
        ds = reaching_defs(cfg, c, e.id)
        if len(ds) == 1:
            v = def_value(ds[0], e.id)
            if v is not None:
                return v
    return e


def _role_names(e, which: str) -> bool:
    for x in ast.walk(e):
        if isinstance(x, ast.Name):
            t = x.id
            if which in t and ("old" if which == "new" else "new") not in t:
                return True
    return False


def key_routing(repo: Repo, rep):
    rep.rule(
        "R-KEY-ROUTING",
        "DictAdapter.assign and the keyword part of GenericCallAdapter.assign route every key by membership: a Delete is emitted only for a key of the OLD "
        "value/source that is decided to be absent from (or default in) the NEW value - some condition that decides whether the Delete is reached reads the new "
        "value, and it is never reached on the `key in new` side; a key is queued for insertion only on the `key not in old` side; the recursion "
        "get_adapter(old[key], new[key]).assign() only on the `key in old` side; and each of the three routes exists.  Otherwise fix leaves stale keys, "
        "inserts keys twice or pairs a new key with no old node (KeyError inside ==)",
    )
    from .C05 import facts_at
    from .emit import emission_sites

    targets = {
        "_adapter/dict_adapter.py::DictAdapter.assign": ("Delete", "DictInsert"),
        "_adapter/generic_call_adapter.py::GenericCallAdapter.assign": ("Delete", "CallArg"),
    }
    sites = emission_sites(repo)
    for key, (del_kind, ins_kind) in targets.items():
        f = repo.func(key)
        cfg = cfg_of(f)
        helpers = {key}
        for c in body_nodes(f.node):
            if isinstance(c, ast.Call) and isinstance(c.func, ast.Attribute) and isinstance(c.func.value, ast.Name) and c.func.value.id in ("self", "cls") and f.cls is not None:
                g = repo.lookup_method(f.cls, c.func.attr)
                if g is not None:
                    helpers.add(g.key)
        helpers |= {g.key for g in repo.pkg_funcs() if g.parent is not None and g.parent == f}
        mine = [s for s in sites if s.func.key in helpers]
        dels = [s for s in mine if s.kind == del_kind]
        inss = [s for s in mine if s.kind == ins_kind]
        if not dels:
            rep.violation("R-KEY-ROUTING", f, f.node, f"{f.qualname} has no reachable Delete: keys that vanished from the value stay in the snapshot after fix", construct=f"{f.qualname}:no-delete")
        if not inss:
            rep.violation("R-KEY-ROUTING", f, f.node, f"{f.qualname} has no reachable {ins_kind}: new keys are never added by fix", construct=f"{f.qualname}:no-insert")
        for s in dels:
            if s.func.key != key:
                continue  # built in a helper: judged where the helper is called (R-FLAG-LABEL)
            facts = facts_at(cfg, s.node)
            dec = _deciding_conds(cfg, s.node)
            reads_new = [c for c, _ in dec if _role_names(_cond_expr(cfg, c), "new")]
            is_positional = "LEN_DIFF" in facts
            if "IN_NEW" in facts and "NOT_IN_NEW" not in facts:
                rep.violation("R-KEY-ROUTING", f, s.call, f"{f.qualname} deletes a key on the path where it IS present in the new value (facts: {sorted(facts)}): fix removes entries that are still there and keeps the stale ones", construct=f"{f.qualname}:delete-in-new")
            elif not reads_new and not is_positional:
                rep.violation("R-KEY-ROUTING", f, s.call, f"{f.qualname}: no condition that reads the new value decides whether this Delete is reached - every key of the old value is deleted (or none)", construct=f"{f.qualname}:delete-unguarded")
            else:
                rep.ok("R-KEY-ROUTING", f, s.call, f"Delete decided by `{short(reads_new[0].ast, 50) if reads_new else 'the argument counts'}`")
        # queue for insertion: appends to a local list inside a loop over the new items; the queue is the local that an insert
        # change (DictInsert / ListInsert / CallArg) is later built from
        insert_queues = set()
        for x in body_nodes(f.node):
            if isinstance(x, ast.Call) and norm(x.func).split(".")[-1] in ("DictInsert", "ListInsert", "CallArg"):
                for y in ast.walk(x):
                    if isinstance(y, ast.Name):
                        insert_queues.add(y.id)
            if isinstance(x, (ast.For, ast.comprehension)) and isinstance(x.iter, ast.Name):
                # `for key, value in queue: yield CallArg(...)`
                if any(isinstance(z, ast.Call) and norm(z.func).split(".")[-1] in ("DictInsert", "ListInsert", "CallArg") for z in (ast.walk(x) if isinstance(x, ast.For) else [])):
                    insert_queues.add(x.iter.id)
        insert_queues = {q for q in insert_queues if any(isinstance(a_, ast.Assign) and any(isinstance(t, ast.Name) and t.id == q for t in a_.targets) and isinstance(a_.value, ast.List) and not a_.value.elts for a_ in body_nodes(f.node))}
        for n in cfg.live:
            for c in node_calls(n):
                if isinstance(c.func, ast.Attribute) and c.func.attr == "append" and isinstance(c.func.value, ast.Name) and c.func.value.id in insert_queues:
                    facts = facts_at(cfg, n)
                    if "IN_OLD" in facts and "NOT_IN_OLD" not in facts:
                        rep.violation("R-KEY-ROUTING", f, c, f"{f.qualname} queues a key for insertion on the path where it IS already present in the old value: the key is written twice", construct=f"{f.qualname}:insert-in-old")
                    elif "NOT_IN_OLD" not in facts and not [1 for cc, _ in _deciding_conds(cfg, n) if _role_names(_cond_expr(cfg, cc), "old")]:
                        rep.violation("R-KEY-ROUTING", f, c, f"{f.qualname} queues keys for insertion without testing that they are absent from the old value", construct=f"{f.qualname}:insert-unguarded")
                    else:
                        rep.ok("R-KEY-ROUTING", f, c, "insertion queued only for keys absent from the old value")
        # recursion over keys present in both
        recs = [n for n in cfg.live for c in node_calls(n) if is_recursion(repo, f, c)]
        keyed = []
        for n in recs:
            facts = facts_at(cfg, n)
            if {"IN_OLD", "NOT_IN_OLD"} & facts:
                keyed.append(n)
                if "NOT_IN_OLD" in facts and "IN_OLD" not in facts:
                    rep.violation("R-KEY-ROUTING", f, n.ast, f"{f.qualname} recurses into old[key] on the path where the key is absent from the old value (KeyError inside the comparison)", construct=f"{f.qualname}:recurse-not-in-old")
                else:
                    rep.ok("R-KEY-ROUTING", f, n.ast, "recursion only for keys present in the old value")
        if not keyed:
            rep.violation("R-KEY-ROUTING", f, f.node, f"{f.qualname}: no recursion get_adapter(...).assign() on the `key in old` side of a membership test - values of keys present in both are not compared element-wise", construct=f"{f.qualname}:no-keyed-recursion")


def argument_agree(repo: Repo, rep):
    rep.rule(
        "R-ARGUMENT-AGREE",
        "sibling agreement inside a call adapter: `argument(value, i)` hands assign() the OLD value of the i-th argument in the same form in which "
        "`arguments(new_value)` hands it the NEW one - for every positional argument that arguments() builds as `Argument(value=<E>)`, the branch "
        "`pos_or_name == i` of argument() returns the same expression <E> (over its own value parameter).  get_adapter() picks the element-wise adapter "
        "only for operands of exactly the same type; `dict(value)` on one side and the defaultdict itself on the other makes every fix regenerate the whole "
        "argument and drop the text of its unchanged entries",
    )
    g = repo.cls("GenericCallAdapter")
    n = 0
    for c in repo.subclasses(g):
        am, gm = c.methods.get("arguments"), c.methods.get("argument")
        if am is None or gm is None or len(am.params) < 2 or len(gm.params) < 3:
            continue
        vparam = am.params[1]
        exprs = None
        for r in [x for x in body_nodes(am.node) if isinstance(x, ast.Return) and isinstance(x.value, ast.Tuple) and len(x.value.elts) == 2 and isinstance(x.value.elts[0], ast.List)]:
            lst = r.value.elts[0].elts
            if lst and all(isinstance(e, ast.Call) and norm(e.func) == "Argument" for e in lst):
                exprs = []
                for e in lst:
                    v = e.args[0] if e.args else next((k.value for k in e.keywords if k.arg == "value"), None)
                    exprs.append(norm(v) if v is not None else None)
        if not exprs:
            continue
        gv, gk = gm.params[1], gm.params[2]
        gcfg = cfg_of(gm)
        for i, want in enumerate(exprs):
            if want is None:
                continue
            n += 1
            want_g = want.replace(vparam, gv) if vparam != gv else want
            conds = [(cn, "T" if isinstance(cn.ast.ops[0], ast.Eq) else "F") for cn in gcfg.conds() if isinstance(cn.ast, ast.Compare) and len(cn.ast.ops) == 1 and isinstance(cn.ast.ops[0], (ast.Eq, ast.NotEq)) and norm(cn.ast.left) == gk and isinstance(cn.ast.comparators[0], ast.Constant) and cn.ast.comparators[0].value == i]
            rets = []
            for cn, lab in conds:
                reg = reach(gcfg, [b for b, l in cn.succ if l == lab], blocked_nodes=[x for x, _ in conds if x is not cn])
                rets += [x for x in reg if x.kind == "stmt" and isinstance(x.ast, ast.Return) and x.ast.value is not None and any(b is x for b, l in cn.succ if l == lab)]
            if not rets:
                continue  # other idiom (lookup table, getattr): nothing to compare textually
            got = norm(rets[0].ast.value)
            if got == want_g:
                rep.ok("R-ARGUMENT-AGREE", gm, rets[0].ast, f"{c.name}: argument({i}) and arguments()[{i}] are both `{want_g}`")
            else:
                rep.violation(
                    "R-ARGUMENT-AGREE",
                    gm,
                    rets[0].ast,
                    f"{c.name}.argument(value, {i}) returns `{got}` while arguments() passes `{want_g}` for the same argument: old and new operand of assign() differ in type, get_adapter() falls back to the whole-value adapter and every fix regenerates the complete argument (unchanged hand-written entries lose their text)",
                    construct=f"{c.name}.argument:{i}",
                )
    rep.count("positional_argument_pairs", n)
    if n == 0:
        rep.ok("R-ARGUMENT-AGREE", repo.lookup_method(g, "assign"), None, "no adapter builds positional arguments from literal Argument(...) lists", site="call adapters: argument()/arguments()")
