"""Shared discovery helpers for the rule modules."""
from __future__ import annotations

import ast
from typing import Dict, List, Optional, Tuple

from ..cfg import CFG, Node, cfg_of, node_calls
from ..esp import NEW, OLD, Outcome, run_method, val_str, valuations
from ..model import AnalysisError, Class, Func, Repo, attr_chain, body_nodes, norm

# Python semantics of the five operations: what `x OP snapshot(v)` asks of v.
# (tag operator, left operand, right operand) with 'OLD' the stored value and
# 'X' the compared value.
DUNDER_SEMANTICS = {
    "__eq__": ("==", "OLD", "X"),
    "__le__": ("<=", "OLD", "X"),
    "__ge__": (">=", "OLD", "X"),
    "__contains__": ("in", "X", "OLD"),
}


class Op:
    def __init__(self, dunder: str, cls: Class, func: Func):
        self.dunder, self.cls, self.func = dunder, cls, func

    @property
    def label(self):
        return f"{self.cls.name}.{self.dunder}"


_ops_cache: Dict[int, List[Op]] = {}


def undecided_class(repo: Repo) -> Class:
    return repo.cls("UndecidedValue", "_snapshot/undecided_value.py")


def generic_class(repo: Repo) -> Class:
    return repo.cls("GenericValue", "_snapshot/generic_value.py")


def dispatch_ops(repo: Repo) -> List[Op]:
    """The dispatch set: read from the `self._change(<Class>)` sites of UndecidedValue."""
    if id(repo) in _ops_cache:
        return _ops_cache[id(repo)]
    uv = undecided_class(repo)
    ops: List[Op] = []
    # the class switch: a self-method whose body assigns `self.__class__ = <its parameter>` (today `_change`), or the
    # assignment `self.__class__ = <Class>` written out in the operator method itself
    switchers = set()
    for name, f in uv.methods.items():
        if len(f.params) >= 2:
            for n in body_nodes(f.node):
                if isinstance(n, ast.Assign) and any(isinstance(t, ast.Attribute) and t.attr == "__class__" and isinstance(t.value, ast.Name) and t.value.id == f.params[0] for t in n.targets) and isinstance(n.value, ast.Name) and n.value.id == f.params[1]:
                    switchers.add(name)
    for name, f in uv.methods.items():
        if name in switchers or not f.params:
            continue
        for n in body_nodes(f.node):
            target = None
            if (
                isinstance(n, ast.Call)
                and isinstance(n.func, ast.Attribute)
                and n.func.attr in switchers
                and isinstance(n.func.value, ast.Name)
                and n.func.value.id == f.params[0]
                and n.args
                and isinstance(n.args[0], ast.Name)
            ):
                target = n.args[0]
            if isinstance(n, ast.Assign) and any(isinstance(t, ast.Attribute) and t.attr == "__class__" and isinstance(t.value, ast.Name) and t.value.id == f.params[0] for t in n.targets) and isinstance(n.value, ast.Name):
                target = n.value
            if target is not None:
                n_args0 = target
                k = repo.resolve_class(uv.module, n_args0)
                if k is None:
                    raise AnalysisError(f"dispatch class {n_args0.id} of UndecidedValue.{name} not resolvable")
                m = repo.lookup_method(k, name)
                if m is None:
                    raise AnalysisError(f"{k.name} has no {name}")
                ops.append(Op(name, k, m))
    if len(ops) < 5:
        raise AnalysisError(f"dispatch set has {len(ops)} members, expected 5 (UndecidedValue._change sites not recognised)")
    _ops_cache[id(repo)] = ops
    return ops


_tables: Dict[Tuple[int, str], List[Tuple[dict, List[Outcome]]]] = {}
_table_stats: Dict[int, Dict[str, int]] = {}


def op_table(repo: Repo, op: Op) -> List[Tuple[dict, List[Outcome]]]:
    """valuation -> outcomes, for all 128 entry valuations."""
    k = (id(repo), op.label)
    if k not in _tables:
        rows = []
        st = _table_stats.setdefault(id(repo), {"valuations": 0, "outcomes": 0, "forks": 0})
        preds = set()
        for v in valuations():
            outs, eng = run_method(repo, op.func, op.cls, v)
            rows.append((v, outs))
            if not any(o.kind == "ret" for o in outs):
                raise AnalysisError(f"ESP: {op.label} has no returning path under {val_str(v)} (helper resolved to an abstract method?)")
            st["valuations"] += 1
            st["outcomes"] += len(outs)
            st["forks"] += eng.fork_count
            preds |= eng.preds_seen
        _tables[k] = rows
        _tables[(id(repo), op.label + "#preds")] = preds  # type: ignore
    return _tables[k]


def table_preds(repo: Repo, op: Op):
    op_table(repo, op)
    return _tables[(id(repo), op.label + "#preds")]


def table_stats(repo: Repo):
    return _table_stats.get(id(repo), {})


def expected_cmp(op: Op, param: str):
    sem = DUNDER_SEMANTICS.get(op.dunder)
    if sem is None:
        return None
    o, l, r = sem
    tr = {"OLD": OLD, "X": ("param", param)}
    return ("cmp", o, tr[l], tr[r])


def has_inc(o: Outcome, counter: str) -> bool:
    for e in o.p.eff:
        if e[0] == "inc" and e[1] == counter and e[2] == "Add":
            v = e[3]
            if v[0] == "const" and isinstance(v[1], (int, float)) and v[1] > 0:
                return True
    return False


def trace_str(o: Outcome) -> str:
    return " > ".join(t for t in o.trace if t)[:600]


def find_calls(f: Func, pred) -> List[ast.Call]:
    return [n for n in body_nodes(f.node) if isinstance(n, ast.Call) and pred(n)]


def is_state_attr(e: ast.AST, *attrs: str) -> bool:
    ch = attr_chain(e) if isinstance(e, (ast.Attribute, ast.Name, ast.Call)) else None
    return bool(ch) and ch[0] == "state()" and tuple(ch[1:]) == attrs


def const_str(e) -> Optional[str]:
    if isinstance(e, ast.Constant) and isinstance(e.value, str):
        return e.value
    return None


# ---------------------------------------------------------------- stale bindings


def rebound_globals(repo: Repo):
    """Module-level names that are re-bound at run time: {(module rel, name): [where]}."""
    out = {}
    for f in repo.pkg_funcs():
        gl = {nm for s in ast.walk(f.node) if isinstance(s, ast.Global) for nm in s.names}
        for x in body_nodes(f.node):
            if isinstance(x, (ast.Assign, ast.AugAssign, ast.AnnAssign)):
                tgs = x.targets if isinstance(x, ast.Assign) else [x.target]
                for t in tgs:
                    if isinstance(t, ast.Name) and t.id in gl:
                        out.setdefault((f.module.rel, t.id), []).append(f"{f.key}:{x.lineno}")
                    if isinstance(t, ast.Attribute) and isinstance(t.value, ast.Name):
                        r = repo.resolve_name(f.module, t.value.id)
                        if r and r[0] == "module" and t.attr in r[1].globals_assigned:
                            out.setdefault((r[1].rel, t.attr), []).append(f"{f.key}:{x.lineno}")
    return out


def stale_bindings(repo: Repo, rep, names, why: str, strict_rebinders=()):
    """strict_rebinders: function keys; a copy of a global that one of them re-binds is a
    VIOLATION (for that property the live value is a necessary condition), any other copy an audit."""
    """No module copies a re-bound module global with `from mod import name`."""
    rid = "R-STALE-BINDING"
    rep.rule(
        rid,
        "a module-level name that is re-bound at run time (`_config.config` in pytest_configure, the compare-only flag, the current state, the problem set) is "
        "never copied into another module with `from <module> import <name>`: the copy keeps the object of import time and silently ignores every later re-binding; "
        "it is read through the module attribute or an accessor function (a copy is reported as UNDECIDED / audit, not as a violation: whether a stale read "
        "matters depends on where the copy is used)",
    )
    rb = rebound_globals(repo)
    n = 0
    for (rel, name), where in sorted(rb.items()):
        if names is not None and name not in names:
            continue
        n += 1
        src = repo.modules[rel]
        bad = False
        for m in repo.modules.values():
            if m.rel == rel or m.rel.startswith("@"):
                continue
            for x in ast.walk(m.tree):
                if isinstance(x, ast.ImportFrom):
                    for a in x.names:
                        if a.name == name:
                            # resolve the module of this import
                            tgt = m.imports.get(a.asname or a.name)
                            if tgt and repo.module_of(tgt[0]) is src:
                                if any(w.startswith(k + ":") for w in where for k in strict_rebinders):
                                    rep.violation(rid, m, x, f"{m.rel} copies `{name}` out of {rel} with a from-import, but {where[0]} re-binds it at run time: {why}", construct=f"{m.rel}:{name}")
                                    bad = True
                                    continue
                                # a hazard, not by itself a violation of the property (the stale copy may be
                                # read where it does not matter): no verdict, ask for an audit
                                rep.undecided(rid, f"{m.rel}:{x.lineno} copies `{name}` out of {rel} with a from-import, but {where[0]} re-binds it at run time ({why}) - audit every read of the copy")
                                bad = True
        if not bad:
            rep.ok(rid, src, None, f"`{name}` (re-bound in {where[0]}) is only read through its module/accessor", site=f"{PKG_PREFIX}{rel}: global {name}")
    rep.floor(rid, "re-bound module globals in scope", n, 1)


PKG_PREFIX = "src/inline_snapshot/"


def reeval_worker(repo: Repo):
    """The function that checks a re-evaluated argument against the stored value - found by what it does (it raises the
    'snapshot value should not change' UsageError and is entered from GenericValue._re_eval with the stored old value),
    nested in GenericValue._re_eval or anywhere in generic_value.py.
    Returns (func, name of the old-value parameter, node parameter, new-value parameter, entry call in GenericValue._re_eval) or None."""
    outer = repo.find_func("_snapshot/generic_value.py", "GenericValue._re_eval")
    if outer is None:
        return None
    cands = []
    for g in repo.pkg_funcs():
        if g.module.rel != "_snapshot/generic_value.py" or g is outer:
            continue
        raises = any(isinstance(x, ast.Raise) and x.exc is not None and "UsageError" in norm(x.exc) for x in body_nodes(g.node))
        called = any(isinstance(c, ast.Call) and isinstance(c.func, ast.Name) and c.func.id == g.name for c in body_nodes(outer.node))
        if raises and called:
            cands.append(g)
    if len(cands) != 1:
        return None
    g = cands[0]
    entry = None
    for c in body_nodes(outer.node):
        if isinstance(c, ast.Call) and isinstance(c.func, ast.Name) and c.func.id == g.name:
            entry = c
    old = None
    if entry is not None:
        for i, a in enumerate(entry.args):
            if "_old_value" in norm(a) and i < len(g.params):
                old = g.params[i]
    if old is None:
        for x in body_nodes(g.node):
            if isinstance(x, ast.Call) and norm(x.func) == "isinstance" and len(x.args) == 2 and "Unmanaged" in norm(x.args[1]) and isinstance(x.args[0], ast.Name) and x.args[0].id in g.params:
                old = x.args[0].id
    if old is None:
        return None
    i = g.params.index(old)
    node = g.params[i + 1] if len(g.params) > i + 1 else None
    val = g.params[i + 2] if len(g.params) > i + 2 else None
    return g, old, node, val, entry
