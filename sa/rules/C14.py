"""C14 - each snapshot() call site has its own state; repeated evaluation aggregates."""
from __future__ import annotations

import ast
from typing import List, Set

from ..callgraph import callgraph
from ..cfg import cfg_of, edge_dominates, edges_dominate, node_calls, nodes_dominate, reach
from ..esp import NEW, OLD, STATE, UNKNOWN, run_function, val_str
from ..model import Class, Func, Repo, attr_chain, body_nodes, norm, short
from .common import dispatch_ops, generic_class, op_table, table_stats, trace_str, undecided_class

MUT_METHODS = {"append", "add", "update", "extend", "insert", "setdefault", "pop", "remove", "clear", "appendleft", "discard", "popitem"}

from .C17 import clone_def


def check(repo: Repo, rep, tier):
    rep.not_decided = "run-time uniqueness of id(code): it rests on executing keeping the code object alive (A2)"
    site_key(repo, rep)
    table_owner(repo, rep)
    no_shared_mutable(repo, rep)
    accumulate(repo, rep)
    reeval_raises(repo, rep)
    reeval_fresh(repo, rep)
    clone_def(repo, rep)
    index_bound(repo, rep)
    state_global(repo, rep)
    site_keyed_store(repo, rep)
    reeval_type(repo, rep)
    from .C16 import codegen_pure

    codegen_pure(repo, rep)
    from .C18 import changes_fresh

    changes_fresh(repo, rep)
    from .C10 import map_total
    from .C04 import xfail_marker
    from .C05 import flag_label

    # the stored value is a private copy; a test is deactivated only when pytest itself treats it as xfail; a requested key is not trimmed
    map_total(repo, rep)
    xfail_marker(repo, rep)
    flag_label(repo, rep)
    from .C18 import ctx_restore

    # a flag that leaks out of one comparison silences the recording of every other call site
    ctx_restore(repo, rep)


def wrapper_frames(repo: Repo, f: Func):
    """Number of Python-level frames the decorators of f insert between caller and f."""
    n = 0
    for d in f.node.decorator_list:
        name = d.func.id if isinstance(d, ast.Call) and isinstance(d.func, ast.Name) else d.id if isinstance(d, ast.Name) else None
        if name is None:
            return None
        r = repo.resolve_name(f.module, name)
        if not r or r[0] != "func":
            return None
        deco = r[1]
        # decorator returns Class(func) whose __call__ calls self.<attr>(...)  => one frame
        rets = [x for x in body_nodes(deco.node) if isinstance(x, ast.Return)]
        if len(rets) != 1 or not isinstance(rets[0].value, ast.Call) or not isinstance(rets[0].value.func, ast.Name):
            return None
        rc = repo.resolve_name(deco.module, rets[0].value.func.id)
        if not rc or rc[0] != "class":
            return None
        call = rc[1].methods.get("__call__")
        if call is None:
            return None
        inner = [c for c in body_nodes(call.node) if isinstance(c, ast.Call) and isinstance(c.func, ast.Attribute) and isinstance(c.func.value, ast.Name) and c.func.value.id == call.params[0]]
        if len(inner) != 1:
            return None
        n += 1
    return n


def hops(t):
    k = 0
    while isinstance(t, tuple) and t and t[0] == "attr" and t[2] == "f_back":
        k += 1
        t = t[1]
    return k, t


def site_key(repo: Repo, rep):
    rep.rule(
        "R-SITE-KEY",
        "in snapshot(): the table key is a tuple holding both id(<frame>.f_code) and <frame>.f_lasti of the very frame object that is handed to "
        "Source.executing, and that frame is inspect.currentframe() followed by exactly 1 + (number of Python-level wrapper frames inserted by snapshot's "
        "decorators) f_back hops",
    )
    f = repo.func("_inline_snapshot.py::snapshot")
    wf = wrapper_frames(repo, f)
    if wf is None:
        rep.undecided("R-SITE-KEY", "cannot determine how many frames the decorators of snapshot() insert")
        return
    want = 1 + wf
    outs, eng = run_function(repo, f, UNKNOWN)
    act = ("attr", STATE, "active")
    n = 0
    bad = {}
    for o in outs:
        if o.p.assumed(act) is not True or o.kind != "ret":
            continue
        n += 1
        ex = [e for e in o.p.eff if e[0] == "mcall" and e[2] == "executing" and e[3]]
        if not ex:
            bad.setdefault("Source.executing(frame) is not called on the active path", o)
            continue
        frame = ex[0][3][0]
        k, base = hops(frame)
        if not (isinstance(base, tuple) and base[0] == "mcall" and base[2] == "currentframe"):
            bad.setdefault(f"the frame handed to executing is not derived from inspect.currentframe() ({short(str(base), 50)})", o)
        elif k != want:
            bad.setdefault(f"the caller frame is reached by {k} f_back hops, but snapshot() runs {want} frames below its call site ({wf} wrapper frame(s) from its decorators): the key/expression belong to the wrong frame", o)
        # keys used for the table
        keys = set()
        for e in o.p.eff:
            if e[0] == "setitem" and e[1] == ("attr", STATE, "snapshots"):
                keys.add(e[2])
        for t, v in o.p.assume:
            if isinstance(t, tuple) and t[0] == "cmp" and t[1] in ("in", "not in") and t[3] == ("attr", STATE, "snapshots"):
                keys.add(t[2])
        if isinstance(o.ret, tuple) and o.ret[0] == "attr" and isinstance(o.ret[1], tuple) and o.ret[1][0] == "item" and o.ret[1][1] == ("attr", STATE, "snapshots"):
            keys.add(o.ret[1][2])
        if not keys:
            bad.setdefault("no access to state().snapshots on the active path", o)
        if len(keys) > 1:
            bad.setdefault("the table is tested, written and read with different keys", o)
        for key in keys:
            parts = key[1] if isinstance(key, tuple) and key[0] == "tuple" else ()
            has_code = ("call", "id", (("attr", frame, "f_code"),), ()) in parts
            has_lasti = ("attr", frame, "f_lasti") in parts
            if not (has_code and has_lasti):
                bad.setdefault(f"the call-site key {short(str(key), 80)} does not combine id(frame.f_code) and frame.f_lasti of the frame given to executing: different call sites can share one state", o)
    for what, o in bad.items():
        rep.violation("R-SITE-KEY", f, f.node, what, trace_str(o), construct=what.split(" (")[0][:70])
    if not bad and n:
        rep.ok("R-SITE-KEY", f, f.node, f"{n} active paths: key = (id(frame.f_code), frame.f_lasti), {want} f_back hops")
    rep.floor("R-SITE-KEY", "active returning paths of snapshot()", n, 2)


def table_owner(repo: Repo, rep):
    rep.rule(
        "R-TABLE-OWNER",
        "state().snapshots is written only in snapshot(), only under `key not in state().snapshots`; on the other edge the stored reference's "
        "_re_eval(obj, context) is called; the value returned is state().snapshots[key]._value for that key",
    )
    f = repo.func("_inline_snapshot.py::snapshot")
    # writers anywhere in the package
    for g in repo.pkg_funcs():
        for x in body_nodes(g.node):
            tgt = None
            if isinstance(x, (ast.Assign, ast.AugAssign)):
                for t in x.targets if isinstance(x, ast.Assign) else [x.target]:
                    if isinstance(t, ast.Subscript) and isinstance(t.value, ast.Attribute) and t.value.attr == "snapshots":
                        tgt = t
                    if isinstance(t, ast.Attribute) and t.attr == "snapshots":
                        tgt = t
            if isinstance(x, ast.Call) and isinstance(x.func, ast.Attribute) and x.func.attr in MUT_METHODS and isinstance(x.func.value, ast.Attribute) and x.func.value.attr == "snapshots":
                tgt = x
            if tgt is not None and g.key != f.key:
                rep.violation("R-TABLE-OWNER", g, x, f"{g.qualname} writes the call-site table state().snapshots; only snapshot() may (per-site state is created exactly once, under the site's key)", construct=f"writer:{g.qualname}")
    outs, eng = run_function(repo, f, UNKNOWN)
    act = ("attr", STATE, "active")
    snaps = ("attr", STATE, "snapshots")
    n = 0
    ok = True
    for o in outs:
        if o.p.assumed(act) is not True or o.kind != "ret":
            continue
        n += 1
        member = [(t, v) for t, v in o.p.assume if isinstance(t, tuple) and t[0] == "cmp" and t[1] in ("in", "not in") and t[3] == snaps]
        is_new = any((t[1] == "not in" and v) or (t[1] == "in" and not v) for t, v in member)
        writes = [e for e in o.p.eff if e[0] == "setitem" and e[1] == snaps]
        reev = [e for e in o.p.eff if e[0] == "mcall" and e[2] == "_re_eval"]
        if not member:
            rep.violation("R-TABLE-OWNER", f, f.node, "snapshot() does not test whether the call site is already known", trace_str(o), construct="no-test")
            ok = False
            continue
        if is_new and not writes:
            rep.violation("R-TABLE-OWNER", f, f.node, "a new call site is not recorded in state().snapshots", trace_str(o), construct="no-write")
            ok = False
        if not is_new and writes:
            rep.violation("R-TABLE-OWNER", f, f.node, "a known call site is overwritten with a fresh state: observations of earlier evaluations (loops, several tests) are lost", trace_str(o), construct="overwrite")
            ok = False

        def _entry(t):
            # the table entry itself or an attribute of it (`state().snapshots[key]._value._re_eval(...)`)
            while isinstance(t, tuple) and t and t[0] == "attr":
                t = t[1]
            return isinstance(t, tuple) and len(t) > 1 and t[0] == "item" and t[1] == snaps

        if not is_new and not any(_entry(e[1]) for e in reev):
            rep.violation("R-TABLE-OWNER", f, f.node, "a known call site is evaluated again without _re_eval(): a changed argument is not detected and unmanaged values are not refreshed", trace_str(o), construct="no-reeval")
            ok = False
        r = o.ret
        if not (isinstance(r, tuple) and r[0] == "attr" and r[2] == "_value" and isinstance(r[1], tuple) and r[1][0] == "item" and r[1][1] == snaps):
            rep.violation("R-TABLE-OWNER", f, f.node, f"snapshot() returns {short(str(r), 60)} instead of state().snapshots[key]._value", trace_str(o), construct="return")
            ok = False
    if ok and n:
        rep.ok("R-TABLE-OWNER", f, f.node, f"{n} active paths: create under `not in`, else _re_eval; returns the stored value")
    rep.floor("R-TABLE-OWNER", "active paths", n, 2)


def _scope_classes(repo: Repo) -> List[Class]:
    out = [op.cls for op in dispatch_ops(repo)] + [generic_class(repo), undecided_class(repo)]
    out += [c for c in repo.all_classes() if c.module.rel.startswith("_adapter/") or c.name in ("SnapshotReference", "MinMaxValue")]
    seen, res = set(), []
    for c in out:
        for k in repo.mro(c):
            if k.key not in seen and not k.module.rel.startswith("@"):
                seen.add(k.key)
                res.append(k)
    return res


def _is_mutable_literal(v: ast.AST) -> bool:
    if isinstance(v, (ast.List, ast.Dict, ast.Set, ast.ListComp, ast.DictComp, ast.SetComp)):
        return True
    if isinstance(v, ast.Call) and norm(v.func) in ("list", "dict", "set", "defaultdict", "collections.defaultdict", "deque", "OrderedDict"):
        return True
    return False


def no_shared_mutable(repo: Repo, rep):
    rep.rule(
        "R-NO-SHARED-MUTABLE",
        "no class of the dispatch set, GenericValue, SnapshotReference or the adapters mutates in place (.append/.add/.update/[]=/+=) a class-level "
        "mutable attribute or a mutable default argument that it has not first rebound on self on every path; the operation methods, adapters and "
        "snapshot() write no module-level state except through state() and compare_context",
    )
    classes = _scope_classes(repo)
    n = 0
    uv_init = undecided_class(repo).methods.get("__init__")
    init_attrs = set()
    if uv_init is not None:
        for x in body_nodes(uv_init.node):
            if isinstance(x, ast.Assign):
                for t in x.targets:
                    if isinstance(t, ast.Attribute) and isinstance(t.value, ast.Name) and t.value.id == uv_init.params[0]:
                        init_attrs.add(t.attr)
    for c in classes:
        muts = {a: v for a, v in c.attrs.items() if _is_mutable_literal(v)}
        for k in [c] + repo.subclasses(c):
            for m in k.methods.values():
                if not m.params:
                    continue
                n += 1
                me = m.params[0]
                cfg = None
                # class-level mutables
                for a in muts:
                    if a in init_attrs:
                        continue
                    for x in body_nodes(m.node):
                        hit = None
                        if isinstance(x, ast.Call) and isinstance(x.func, ast.Attribute) and x.func.attr in MUT_METHODS and norm(x.func.value) in (f"{me}.{a}", f"{k.name}.{a}", f"{c.name}.{a}", f"cls.{a}"):
                            hit = x
                        if isinstance(x, (ast.Assign, ast.AugAssign)):
                            for t in x.targets if isinstance(x, ast.Assign) else [x.target]:
                                if isinstance(t, ast.Subscript) and norm(t.value) in (f"{me}.{a}", f"{c.name}.{a}"):
                                    hit = x
                                if isinstance(x, ast.AugAssign) and norm(t) == f"{me}.{a}":
                                    hit = x
                        if hit is None:
                            continue
                        cfg = cfg or cfg_of(m)
                        hn = cfg.nodes_containing(hit)
                        rebinds = [nd for nd in cfg.stmts(ast.Assign) if any(norm(t) == f"{me}.{a}" for t in nd.ast.targets)]
                        from ..defuse import correlated_edges

                        if hn and rebinds and hn[0] not in reach(cfg, [cfg.entry], blocked_nodes=rebinds, blocked_edges=correlated_edges(cfg, hn[0])):
                            rep.ok("R-NO-SHARED-MUTABLE", m, hit, f"{k.name}.{a} rebound on self before it is mutated")
                        else:
                            rep.violation(
                                "R-NO-SHARED-MUTABLE",
                                m,
                                hit,
                                f"{m.qualname} mutates the class-level `{c.name}.{a}` in place: the container is shared by every instance, i.e. by every snapshot() call site",
                                construct=f"{c.name}.{a}",
                            )
                # mutable default arguments
                args = m.node.args
                pos = args.posonlyargs + args.args
                for arg, d in list(zip(pos[len(pos) - len(args.defaults):], args.defaults)) + [(a2, d2) for a2, d2 in zip(args.kwonlyargs, args.kw_defaults) if d2 is not None]:
                    if not _is_mutable_literal(d):
                        continue
                    for x in body_nodes(m.node):
                        if (isinstance(x, ast.Call) and isinstance(x.func, ast.Attribute) and x.func.attr in MUT_METHODS and norm(x.func.value) == arg.arg) or (
                            isinstance(x, ast.Assign) and any(isinstance(t, ast.Subscript) and norm(t.value) == arg.arg for t in x.targets)
                        ):
                            rep.violation("R-NO-SHARED-MUTABLE", m, x, f"{m.qualname} mutates its mutable default argument `{arg.arg}`: state leaks between calls / call sites", construct=f"default:{arg.arg}")
    rep.floor("R-NO-SHARED-MUTABLE", "methods scanned", n, 40)
    # module-level state written from per-site code
    for g in repo.pkg_funcs():
        rel = g.module.rel
        if not (rel.startswith("_snapshot/") or rel.startswith("_adapter/") or g.key == "_inline_snapshot.py::snapshot" or rel == "_inline_snapshot.py"):
            continue
        gl = {nm for s in ast.walk(g.node) if isinstance(s, ast.Global) for nm in s.names}
        for x in body_nodes(g.node):
            if isinstance(x, (ast.Assign, ast.AugAssign)):
                for t in x.targets if isinstance(x, ast.Assign) else [x.target]:
                    if isinstance(t, ast.Name) and t.id in gl:
                        rep.undecided("R-NO-SHARED-MUTABLE", f"{g.key}:{x.lineno} writes module-level `{t.id}` from per-call-site code - audit whether it is keyed by call site")
            if isinstance(x, ast.Call) and isinstance(x.func, ast.Attribute) and x.func.attr in MUT_METHODS and isinstance(x.func.value, ast.Name):
                nm = x.func.value.id
                if nm in g.module.globals_assigned and nm not in {a.arg for a in g.node.args.args} and not _is_local(g, nm):
                    rep.undecided("R-NO-SHARED-MUTABLE", f"{g.key}:{x.lineno} mutates module-level `{nm}` from per-call-site code - audit whether it is keyed by call site")
    rep.ok("R-NO-SHARED-MUTABLE", repo.func("_inline_snapshot.py::snapshot"), None, "per-site code writes no module-level state", site="src/inline_snapshot/_snapshot/*, _adapter/*, snapshot(): module-level writes")


def _is_local(g: Func, nm: str) -> bool:
    for x in body_nodes(g.node):
        if isinstance(x, ast.Assign) and any(isinstance(t, ast.Name) and t.id == nm for t in x.targets):
            return True
        if isinstance(x, (ast.For, ast.comprehension)) and any(isinstance(t, ast.Name) and t.id == nm for t in ast.walk(x.target)):
            return True
    return nm in g.params


def accumulate(repo: Repo, rep):
    rep.rule(
        "R-ACCUMULATE",
        "typestate over all valuations with a defined NEW value (a later evaluation of the same call site): a bound is overwritten exactly when the "
        "comparison of NEW with the operand is false (and then it is); `in` appends exactly when the operand is not in NEW; [key] creates a child exactly "
        "when the key is not in NEW; == never overwrites; no operation re-initialises NEW",
    )
    for op in dispatch_ops(repo):
        rows = [(v, outs) for v, outs in op_table(repo, op) if not v["NU"]]
        p = ("param", op.func.params[1])
        bad = {}
        n = 0
        for v, outs in rows:
            for o in outs:
                if o.kind != "ret":
                    continue
                n += 1
                stores = [e for e in o.p.eff if e[0] == "store" and e[1] == "_new_value"]
                appends = [e for e in o.p.eff if e[0] == "mcall" and e[1] == NEW and e[2] in ("append", "add", "extend")]
                sets = [e for e in o.p.eff if e[0] == "setitem" and e[1] == NEW]
                if op.dunder in ("__le__", "__ge__"):
                    cm = [(t, val) for t, val in o.p.assume if isinstance(t, tuple) and t[0] == "cmp" and t[2] == NEW and t[3] == p]
                    failed = any(val is False for t, val in cm)
                    if stores and not failed:
                        bad.setdefault("the recorded bound is overwritten although the new operand does not exceed it (the extreme value of earlier evaluations is lost)", (v, o))
                    if failed and not stores:
                        bad.setdefault("an operand beyond the recorded bound is not recorded (the bound is not the extreme of all evaluations)", (v, o))
                    if not cm:
                        bad.setdefault("a later evaluation does not compare the operand with the recorded bound at all", (v, o))
                elif op.dunder == "__contains__":
                    cm = [(t, val) for t, val in o.p.assume if isinstance(t, tuple) and t[0] == "cmp" and t[1] in ("in", "not in") and t[2] == p and t[3] == NEW]
                    absent = any((t[1] == "not in" and val) or (t[1] == "in" and not val) for t, val in cm)
                    if stores:
                        bad.setdefault("the list of observed members is re-initialised on a later evaluation (members observed before are lost)", (v, o))
                    if appends and not absent:
                        bad.setdefault("a member that is already recorded is appended again", (v, o))
                    if absent and not appends:
                        bad.setdefault("a new member is not added to the recorded members", (v, o))
                elif op.dunder == "__getitem__":
                    cm = [(t, val) for t, val in o.p.assume if isinstance(t, tuple) and t[0] == "cmp" and t[1] in ("in", "not in") and t[2] == p and t[3] == NEW]
                    absent = any((t[1] == "not in" and val) or (t[1] == "in" and not val) for t, val in cm)
                    if stores:
                        bad.setdefault("the mapping of sub-snapshots is re-initialised on a later access (keys recorded before are lost)", (v, o))
                    if sets and not absent:
                        bad.setdefault("an existing sub-snapshot is replaced by a fresh one on a later access", (v, o))
                    if absent and not sets:
                        bad.setdefault("a new key gets no sub-snapshot", (v, o))
                elif op.dunder == "__eq__":
                    if stores:
                        bad.setdefault("a later == evaluation overwrites the recorded value", (v, o))
        for what, (v, o) in bad.items():
            rep.violation("R-ACCUMULATE", op.func, op.func.node, f"{op.label}: {what}", [val_str(v), trace_str(o)], construct=f"{op.label}:{what[:50]}")
        if not bad:
            rep.ok("R-ACCUMULATE", op.func, op.func.node, f"{op.label}: {n} later-evaluation paths aggregate correctly")
    rep.count("valuations", table_stats(repo).get("valuations", 0))


def reeval_raises(repo: Repo, rep):
    rep.rule(
        "R-REEVAL-RAISES",
        "GenericValue._re_eval: a managed leaf whose argument no longer equals the first evaluation raises UsageError (raise on the false edge of "
        "`old == value`), containers recurse over their items; DictValue._re_eval calls the generic check and recurses into the sub-snapshots present in both maps",
    )
    from .common import reeval_worker

    w = reeval_worker(repo)
    if w is None:
        rep.undecided("R-REEVAL-RAISES", "the recursive re-evaluation check of generic_value.py was not found")
        return
    f, old, _node_p, val, entry = w
    cfg = cfg_of(f)
    raises = [n for n in cfg.stmts(ast.Raise) if "UsageError" in norm(n.ast)]
    eqs = [c for c in cfg.conds() if isinstance(c.ast, ast.Compare) and len(c.ast.ops) == 1 and isinstance(c.ast.ops[0], (ast.Eq, ast.NotEq)) and {norm(c.ast.left), norm(c.ast.comparators[0])} == {old, val}]
    if not raises or not eqs:
        rep.violation("R-REEVAL-RAISES", f, f.node, "re-evaluation no longer raises UsageError when the argument of a snapshot evaluates to a different value", construct="no-raise")
    else:
        good = False
        for c in eqs:
            lab = "F" if isinstance(c.ast.ops[0], ast.Eq) else "T"
            for r in raises:
                if edge_dominates(cfg, (c, lab), r):
                    # and the unequal edge always reaches the raise
                    starts = [b for b, l in c.succ if l == lab]
                    if cfg.ret not in reach(cfg, starts, blocked_nodes=raises, skip_labels=("exc",)):
                        good = True
        if good:
            rep.ok("R-REEVAL-RAISES", f, raises[0].ast, "changed managed leaf => UsageError")
        else:
            rep.violation("R-REEVAL-RAISES", f, raises[0].ast, "the UsageError of re-evaluation is not raised exactly when the re-evaluated argument differs from the first evaluation", construct="raise-guard")
    rec = [c for n in cfg.live for c in node_calls(n) if isinstance(c.func, ast.Name) and c.func.id == f.name]
    loops = [n for n in cfg.live if n.kind == "for" and "zip" in norm(n.ast.iter)]
    if rec and loops:
        rep.ok("R-REEVAL-RAISES", f, rec[0], "containers recurse over their items")
    else:
        rep.violation("R-REEVAL-RAISES", f, f.node, "re-evaluation does not recurse into container items: a changed element of a list/dict/call argument goes unnoticed", construct="no-recursion")
    outer = repo.func("_snapshot/generic_value.py::GenericValue._re_eval")
    calls = [entry] if entry is not None else []
    oi = f.params.index(old)
    if any(len(c.args) > oi and "_old_value" in norm(c.args[oi]) for c in calls):
        rep.ok("R-REEVAL-RAISES", outer, calls[0], "_re_eval checks the stored old value against the new argument")
    else:
        rep.violation("R-REEVAL-RAISES", outer, outer.node, "GenericValue._re_eval does not start the check from the stored old value", construct="entry")
    ocfg = cfg_of(outer)
    if entry is not None:
        en = ocfg.nodes_containing(entry)
        from ..cfg import must_reach as _mr

        if en and _mr(ocfg, ocfg.entry, en, [ocfg.ret], skip_labels=("exc",)):
            rep.ok("R-REEVAL-RAISES", outer, entry, "GenericValue._re_eval runs the check on every path")
        else:
            rep.violation(
                "R-REEVAL-RAISES",
                outer,
                outer.node,
                "GenericValue._re_eval can return without running the re-evaluation check (an `old == value` fast path): that comparison is itself a *recording* comparison when the value holds inner snapshots / Is(...) "
                "- a conditional inner snapshot records the value of the other branch - and the unmanaged parts are not refreshed",
                construct="generic-skips-worker",
            )
    # the reference delegates every re-evaluation: no "nothing changed" fast path in front of it (Is(...) parts hold the *object* of
    # the previous evaluation; equal now is not the same as identical later)
    sr = repo.find_func("_inline_snapshot.py", "SnapshotReference._re_eval")
    if sr is not None:
        scfg = cfg_of(sr)
        deleg = [nd for nd in scfg.live for c in node_calls(nd) if isinstance(c.func, ast.Attribute) and c.func.attr == "_re_eval" and "_value" in norm(c.func.value)]
        from ..cfg import must_reach

        if deleg and must_reach(scfg, scfg.entry, deleg, [scfg.ret], skip_labels=("exc",)):
            rep.ok("R-REEVAL-RAISES", sr, deleg[0].ast, "SnapshotReference._re_eval always delegates to the value's _re_eval")
        else:
            rep.violation(
                "R-REEVAL-RAISES",
                sr,
                sr.node,
                "SnapshotReference._re_eval can return without calling the value's _re_eval(): on that path a changed argument is not noticed and the Is(...) / inner-snapshot parts keep the objects of the previous evaluation "
                "(`Is(obj)` compares against a stale object when obj is mutated after the call)",
                construct="reference-skips-reeval",
            )
    # no class of the dispatch set (nor UndecidedValue) bypasses the generic check
    gv = generic_class(repo)
    for k in [op.cls for op in dispatch_ops(repo)] + [undecided_class(repo)]:
        m2 = repo.lookup_method(k, "_re_eval")
        if m2 is None:
            rep.violation("R-REEVAL-RAISES", outer, outer.node, f"{k.name} has no _re_eval", construct=f"{k.name}._re_eval")
        elif m2.cls == gv:
            rep.ok("R-REEVAL-RAISES", m2, m2.node, f"{k.name}._re_eval is the generic check", site=f"{k.name}._re_eval -> GenericValue")
        else:
            cfg2 = cfg_of(m2)
            sup = [nd for nd in cfg2.live for c in node_calls(nd) if isinstance(c.func, ast.Attribute) and c.func.attr == "_re_eval" and isinstance(c.func.value, ast.Call) and norm(c.func.value.func) == "super"]
            from ..cfg import must_reach

            if sup and must_reach(cfg2, cfg2.entry, sup, [cfg2.ret], skip_labels=("exc",)):
                rep.ok("R-REEVAL-RAISES", m2, m2.node, f"{m2.qualname} runs the generic check on every path")
            else:
                rep.violation("R-REEVAL-RAISES", m2, m2.node, f"{m2.qualname} overrides re-evaluation without running the generic check on every path: a changed snapshot argument is accepted silently", construct=f"{k.name}._re_eval")
    dv = repo.cls("DictValue", "_snapshot/dict_value.py")
    m = dv.methods.get("_re_eval")
    if m is not None:
        sup = [c for c in body_nodes(m.node) if isinstance(c, ast.Call) and isinstance(c.func, ast.Attribute) and c.func.attr == "_re_eval" and isinstance(c.func.value, ast.Call) and norm(c.func.value.func) == "super"]
        child = [c for c in body_nodes(m.node) if isinstance(c, ast.Call) and isinstance(c.func, ast.Attribute) and c.func.attr == "_re_eval" and not (isinstance(c.func.value, ast.Call))]
        if sup and child:
            rep.ok("R-REEVAL-RAISES", m, m.node, "DictValue._re_eval: generic check + sub-snapshots")
        else:
            rep.violation("R-REEVAL-RAISES", m, m.node, "DictValue._re_eval skips " + ("the generic check" if not sup else "its sub-snapshots"), construct="dict")


def reeval_fresh(repo: Repo, rep):
    rep.rule(
        "R-REEVAL-FRESH",
        "every call of _re_eval(X, context) hands over the freshly evaluated argument: X derives from the caller's own `value`/`obj` parameter (or an element "
        "of it), never from stored state (self._old_value holds already-wrapped values: handing it down makes an Unmanaged wrapper point at itself or keeps stale values)",
    )
    n = 0
    for f in repo.pkg_funcs():
        if f.module.rel.startswith(("testing/", "@")):
            continue
        for c in body_nodes(f.node):
            if not (isinstance(c, ast.Call) and isinstance(c.func, ast.Attribute) and c.func.attr == "_re_eval" and c.args):
                continue
            n += 1
            a0 = c.args[0]
            params = set(f.params[1:]) if f.cls is not None else set(f.params)
            g = f
            while g.parent is not None:
                g = g.parent
                params |= set(g.params[1:] if g.cls is not None else g.params)
            names = {x.id for x in ast.walk(a0) if isinstance(x, ast.Name)}
            stored = any(isinstance(x, ast.Attribute) and x.attr in ("_old_value", "_new_value") for x in ast.walk(a0))
            if stored or not (names & params):
                rep.violation(
                    "R-REEVAL-FRESH",
                    f,
                    c,
                    f"{f.qualname} re-evaluates a sub-snapshot with `{short(a0, 40)}` (stored, already wrapped state) instead of the freshly evaluated argument: e.g. `for i in range(2): assert i == snapshot({{'a': Is(i)}})['a']` makes the Unmanaged wrapper refer to itself (RecursionError)",
                    construct=norm(a0),
                )
            else:
                rep.ok("R-REEVAL-FRESH", f, c, f"_re_eval({short(a0, 30)}, ...) from the fresh argument")
    rep.floor("R-REEVAL-FRESH", "_re_eval call sites", n, 3)  # 4 today; the SnapshotReference delegator is optional (a refactoring may call _value._re_eval directly)


AST_LISTS = ("args", "elts", "keywords")


def index_bound(repo: Repo, rep):
    rep.rule(
        "R-INDEX-BOUND",
        "in the adapters and snapshot values, a subscript of a call/list node's child list (`<node>.args[i]`, `.elts[i]`, `.keywords[i]`) whose index does not come "
        "from iterating that very list is bounded by `i < len(<node>.<list>)` (conditional expression or dominating test): the index then counts the *value's* "
        "arguments, and the source may spell fewer (`defaultdict(list)` for a value with two arguments) - the second evaluation of such a snapshot() would "
        "raise IndexError instead of comparing",
    )
    n = 0
    for f in repo.pkg_funcs():
        if not (f.module.rel.startswith("_adapter/") or f.module.rel.startswith("_snapshot/")):
            continue
        for sub in [x for x in body_nodes(f.node) if isinstance(x, ast.Subscript)]:
            v = sub.value
            if not (isinstance(v, ast.Attribute) and v.attr in AST_LISTS and isinstance(v.value, ast.Name)):
                continue
            idx = sub.slice
            if isinstance(idx, (ast.Constant, ast.Slice)) or (isinstance(idx, ast.UnaryOp) and isinstance(idx.operand, ast.Constant)):
                continue
            n += 1
            lst = norm(v)
            want = {f"{norm(idx)} < len({lst})", f"len({lst}) > {norm(idx)}"}
            bounded = False
            # conditional expression around the subscript, or any enclosing `if` test, naming the bound
            from ..model import ancestors

            for a in ancestors(sub):
                if isinstance(a, ast.IfExp) and norm(a.test) in want and any(sub is y for y in ast.walk(a.body)):
                    bounded = True
                if isinstance(a, ast.If) and norm(a.test) in want and any(sub is y for s in a.body for y in ast.walk(s)):
                    bounded = True
                if isinstance(a, ast.Try) and any(h.type is None or "IndexError" in norm(h.type) or norm(h.type) in ("Exception", "LookupError") for h in a.handlers) and any(sub is y for s in a.body for y in ast.walk(s)):
                    bounded = True
                if a is f.node:
                    break
            if not bounded:
                # any other spelling of the bound (`i >= len(..)` with an early exit, `len(..) <= i`, min(..)): a comparison
                # of this index with the length of this list somewhere in the function - accepted without judging its direction
                for cmpn in [x for x in body_nodes(f.node) if isinstance(x, ast.Compare)]:
                    t = norm(cmpn)
                    if f"len({lst})" in t and any(isinstance(y, ast.Name) and y.id == norm(idx) for y in ast.walk(cmpn)):
                        bounded = True
            # index produced by enumerating the same list
            for a in ancestors(sub):
                its = []
                if isinstance(a, ast.For):
                    its.append((a.target, a.iter))
                if isinstance(a, (ast.ListComp, ast.GeneratorExp, ast.SetComp, ast.DictComp)):
                    its += [(g.target, g.iter) for g in a.generators]
                for tgt, it in its:
                    if norm(idx) in {norm(x) for x in ast.walk(tgt) if isinstance(x, ast.Name)} and lst in norm(it):
                        bounded = True
                if a is f.node:
                    break
            if bounded:
                rep.ok("R-INDEX-BOUND", f, sub, f"`{norm(sub)}` is bounded")
            else:
                rep.violation(
                    "R-INDEX-BOUND",
                    f,
                    sub,
                    f"`{norm(sub)}` in {f.qualname}: the index counts the value's arguments, not the nodes of the source; a call that omits a default-valued argument "
                    f"(`snapshot(defaultdict(list))` evaluated twice) raises IndexError",
                    construct=f"{f.qualname}:{norm(sub)}",
                )
    rep.floor("R-INDEX-BOUND", "runtime-indexed AST child lists", n, 1)


def state_global(repo: Repo, rep):
    rep.rule(
        "R-STATE-GLOBAL",
        "the session's State is process-wide: state() returns the module-level name that enter/leave_snapshot_context rebind (a plain global), and "
        "_global_state.py uses no per-thread / per-context store (contextvars, threading.local).  A snapshot() evaluated in a worker thread must find the "
        "same table of call sites as the main thread; with a context-local store the evaluations of one call site in other threads are neither recorded "
        "nor aggregated (trim then deletes members that were only seen there)",
    )
    m = repo.module("_global_state.py")
    st = repo.func("_global_state.py::state")
    bad = []
    for x in ast.walk(m.tree):
        if isinstance(x, ast.ImportFrom) and x.module in ("contextvars", "threading"):
            bad.append(x)
        if isinstance(x, ast.Import) and any(a.name in ("contextvars", "threading") for a in x.names):
            bad.append(x)
        if isinstance(x, ast.Call) and norm(x.func).split(".")[-1] in ("ContextVar", "local") and ("ContextVar" in norm(x.func) or "threading" in norm(x.func)):
            bad.append(x)
    rets = [r for r in body_nodes(st.node) if isinstance(r, ast.Return) and r.value is not None]
    plain = rets and all(isinstance(r.value, ast.Name) and r.value.id in m.globals_assigned for r in rets)
    if bad:
        rep.violation("R-STATE-GLOBAL", st, bad[0], f"_global_state.py keeps the current State in a per-thread / per-context store (`{short(bad[0], 50)}`): snapshot() calls made from another thread see an empty, inactive state", construct="context-local-state")
    elif not plain:
        rep.violation("R-STATE-GLOBAL", st, st.node, "state() does not return the module-level State object directly", construct="state-not-global")
    else:
        rep.ok("R-STATE-GLOBAL", st, rets[0], f"state() returns the module global `{rets[0].value.id}`")


def site_keyed_store(repo: Repo, rep):
    rep.rule(
        "R-SITE-KEYED-STORE",
        "per-evaluation data is never parked in a module-level container under a key coarser than the call site: in _inline_snapshot.py, _snapshot/ and "
        "_adapter/ a subscript store `<module-level name>[k] = v` is allowed only when k is the call-site key of snapshot() (id(code), f_lasti); a cache "
        "keyed by the source file / type hands the frame (globals, locals) or value of the first evaluation to every other call site",
    )
    n = 0
    for g in repo.pkg_funcs():
        rel = g.module.rel
        if not (rel.startswith("_snapshot/") or rel.startswith("_adapter/") or rel == "_inline_snapshot.py"):
            continue
        for x in body_nodes(g.node):
            if not isinstance(x, (ast.Assign, ast.AugAssign)):
                continue
            for t in x.targets if isinstance(x, ast.Assign) else [x.target]:
                if isinstance(t, ast.Subscript) and isinstance(t.value, ast.Name) and t.value.id in g.module.globals_assigned and not _is_local(g, t.value.id):
                    n += 1
                    k = t.slice
                    is_site_key = False
                    if isinstance(k, ast.Name):
                        for a in body_nodes(g.node):
                            if isinstance(a, ast.Assign) and any(isinstance(tt, ast.Name) and tt.id == k.id for tt in a.targets):
                                txt = norm(a.value)
                                if "f_lasti" in txt and "f_code" in txt:
                                    is_site_key = True
                    if is_site_key:
                        rep.ok("R-SITE-KEYED-STORE", g, x, "module-level table keyed by the call site")
                    else:
                        rep.violation(
                            "R-SITE-KEYED-STORE",
                            g,
                            x,
                            f"{g.qualname} stores per-evaluation data in the module-level `{t.value.id}` under the key `{short(k, 30)}`, which is not the call-site key: every later call site with the same key re-uses the first one's data (e.g. the frame whose globals/locals resolve the names in the snapshot)",
                            construct=f"{g.qualname}:{t.value.id}",
                        )
    rep.count("module_level_subscript_stores", n)
    if n == 0:
        rep.ok("R-SITE-KEYED-STORE", repo.func("_inline_snapshot.py::snapshot"), None, "no module-level subscript store in per-call-site code", site="src/inline_snapshot/_inline_snapshot.py, _snapshot/*, _adapter/*: module-level stores")


def reeval_type(repo: Repo, rep):
    rep.rule(
        "R-REEVAL-TYPE",
        "sibling agreement between the adapters' map() and the re-evaluation check: SequenceAdapter.map / DictAdapter.map rebuild the stored value as the "
        "*base* type (`cls.value_type(...)`, a dict display), so a subclass instance (OrderedDict, a list subclass) is stored as plain dict / list; the "
        "type check of the re-evaluation worker therefore accepts a subclass of the stored type (isinstance), it does not demand the identical type "
        "(`type(old) is type(new)`) - else the second evaluation of `snapshot(OrderedDict(a=1))` raises AssertionError",
    )
    from .common import reeval_worker

    w = reeval_worker(repo)
    if w is None:
        rep.undecided("R-REEVAL-TYPE", "re-evaluation worker not found")
        return
    f, old, _n, val, _e = w
    lossy = []
    for key in ("_adapter/sequence_adapter.py::SequenceAdapter.map", "_adapter/dict_adapter.py::DictAdapter.map"):
        m = repo.find_func(*key.split("::"))
        if m is None:
            continue
        keeps = any(isinstance(x, ast.Call) and norm(x.func) in (f"type({m.params[1]})",) for x in body_nodes(m.node)) if len(m.params) > 1 else False
        if not keeps:
            lossy.append(m)
    strict = [a for a in body_nodes(f.node) if isinstance(a, ast.Assert) and isinstance(a.test, ast.Compare) and len(a.test.ops) == 1 and isinstance(a.test.ops[0], ast.Is) and norm(a.test.left).startswith("type(") and norm(a.test.comparators[0]).startswith("type(")]
    if strict and lossy:
        rep.violation(
            "R-REEVAL-TYPE",
            f,
            strict[0],
            f"`{short(strict[0], 60)}` demands the identical type although {lossy[0].qualname} stores subclasses as their base type: `for _ in (1, 2): assert OrderedDict(a=1) == snapshot(OrderedDict(a=1))` raises AssertionError on the second evaluation",
            construct="strict-type",
        )
    else:
        rep.ok("R-REEVAL-TYPE", f, f.node, "type check of the re-evaluation is compatible with what map() stores")
    # the orientation of that check: the *new* value is an instance of the *stored* value's type (the stored one is the base type)
    for a in [x for x in body_nodes(f.node) if isinstance(x, ast.Call) and norm(x.func) == "isinstance" and len(x.args) == 2 and isinstance(x.args[1], ast.Call) and norm(x.args[1].func) == "type" and x.args[1].args]:
        first, inner = norm(a.args[0]), norm(a.args[1].args[0])
        olds = {old, "current"}
        if first == val and inner != val:
            rep.ok("R-REEVAL-TYPE", f, a, "isinstance(<new value>, type(<stored value>))")
        elif inner == val:
            rep.violation("R-REEVAL-TYPE", f, a, f"`{norm(a)}` asks whether the stored value is an instance of the *new* value's type: the stored copy of an OrderedDict / a list subclass is a plain dict / list, so the second evaluation of such a snapshot raises AssertionError", construct="isinstance-swapped")
    # both evaluations have the same number of parts: a shorter (or longer) container is a changed snapshot value, not a prefix match
    cfg = cfg_of(f)
    zips = [(n_, c) for n_ in cfg.live for c in node_calls(n_) if isinstance(c.func, ast.Name) and c.func.id == "zip" and len(c.args) == 2 and all(isinstance(x, ast.Name) for x in c.args)]
    for n_, c in zips:
        a0, a1 = c.args[0].id, c.args[1].id
        eqs = []
        for cn in cfg.conds():
            e = cn.ast
            if isinstance(e, ast.Compare) and len(e.ops) == 1 and isinstance(e.ops[0], (ast.Eq, ast.NotEq)):
                sides = {norm(e.left), norm(e.comparators[0])}
                if sides == {f"len({a0})", f"len({a1})"}:
                    eqs.append((cn, "T" if isinstance(e.ops[0], ast.Eq) else "F"))
        from ..cfg import edges_dominate as _ed

        if eqs and _ed(cfg, eqs, n_):
            rep.ok("R-REEVAL-TYPE", f, c, f"zip({a0}, {a1}) only for equally many parts")
        else:
            rep.violation("R-REEVAL-TYPE", f, c, f"`{norm(c)}` pairs the parts of the two evaluations without `len({a0}) == len({a1})` on that path: zip() truncates - a container that became shorter (or longer) on a later evaluation is accepted silently and the value of the first evaluation is used", construct="reeval-length")
