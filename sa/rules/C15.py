"""C15 - faults while rewriting never leave a half-written file or a dangling external."""
from __future__ import annotations

import ast
from typing import List

from ..callgraph import callgraph, open_mode, primitive_effect
from ..cfg import cfg_of, edge_dominates, must_reach, node_calls, nodes_dominate, path_from, reach
from ..defuse import def_value, defs_of, derives_from, reaching_defs, resolve_alias
from ..model import Repo, ancestors, attr_chain, body_nodes, norm, parent, short


def check(repo: Repo, rep, tier):
    rep.not_decided = "atomicity against a crash inside file.write() itself; what an arbitrary format-command prints"
    compute_before_open(repo, rep)
    fmt_degrade(repo, rep)
    problems_total(repo, rep)
    fmt_taint(repo, rep)
    fmt_no_cache(repo, rep)
    persist_before_write(repo, rep)
    always_pop(repo, rep)
    err_dropped(repo, rep)
    parse_before_write(repo, rep)
    from .C12 import utf8

    utf8(repo, rep)
    from .C03 import io_encoding

    io_encoding(repo, rep)
    from .C13 import storage_no_cache

    storage_no_cache(repo, rep)
    from .C13 import persist_remove

    persist_remove(repo, rep)
    from .C13 import persist_unique, persist_pattern

    persist_unique(repo, rep)
    persist_pattern(repo, rep)
    from .C03 import source_bom, line_model

    source_bom(repo, rep)
    line_model(repo, rep)
    from .C13 import suffix_shape

    suffix_shape(repo, rep)
    from .C03 import import_position
    from .C13 import scan_total

    import_position(repo, rep)
    scan_total(repo, rep)


def _calls_of(f, cfg, cg, key):
    out = []
    for n in cfg.live:
        for c in node_calls(n):
            tg, _ = cg.call_targets(f, c)
            if any(t.key == key for t in tg):
                out.append((n, c))
    return out


def _cannot_fail(v, module) -> bool:
    if isinstance(v, ast.Constant):
        return True
    if isinstance(v, ast.Attribute) and isinstance(v.value, ast.Name) and v.value.id in module.imports and module.imports[v.value.id][1] is None:
        return True
    return False


def compute_before_open(repo: Repo, rep):
    rep.rule(
        "R-COMPUTE-BEFORE-OPEN",
        "in every function that opens a tracked file for writing (SourceFile.rewrite): after the truncating open no call resolves to package code, "
        "the formatter or a subprocess, and every value written was defined before the open",
    )
    cg = callgraph(repo)
    sites = 0
    for key, ps in cg.prims.items():
        f = repo.funcs[key]
        if not f.module.rel == "_rewrite_code.py":
            continue
        for c, kind, desc in ps:
            if kind != "FS_WRITE" or not desc.startswith("open("):
                continue
            sites += 1
            cfg = cfg_of(f)
            on = cfg.nodes_containing(c)
            if not on:
                continue
            on = on[0]
            after = reach(cfg, [b for b, l in on.succ])
            bad = False
            for n in after:
                for cc in node_calls(n):
                    tg, how = cg.call_targets(f, cc)
                    tg = [t for t in tg if not t.module.rel.startswith("@")]
                    pe = primitive_effect(cc, f.module)
                    if tg or (pe and pe[0] in ("PROC", "EXEC")):
                        rep.violation(
                            "R-COMPUTE-BEFORE-OPEN",
                            f,
                            cc,
                            f"`{short(cc, 50)}` runs after the file was opened for writing (truncated): if it fails, the file is left empty or half written",
                            construct=norm(cc.func),
                        )
                        bad = True
                    # value written must be defined before the open
                    if isinstance(cc.func, ast.Attribute) and cc.func.attr in ("write", "writelines") and cc.args:
                        for nm in {x.id for x in ast.walk(cc.args[0]) if isinstance(x, ast.Name)}:
                            ds = reaching_defs(cfg, n, nm)
                            # a definition that cannot fail (a constant, an attribute of an imported module: `prefix = codecs.BOM_UTF8`) is no computation
                            if any(d in after and not _cannot_fail(def_value(d, nm), f.module) for d in ds):
                                rep.violation("R-COMPUTE-BEFORE-OPEN", f, cc, f"the written value `{nm}` is computed after the file was opened for writing", construct=f"late:{nm}")
                                bad = True
            if not bad:
                rep.ok("R-COMPUTE-BEFORE-OPEN", f, c, f"{len(after)} CFG nodes after the open contain no package/formatter call")
    rep.floor("R-COMPUTE-BEFORE-OPEN", "truncating open sites in _rewrite_code.py", sites, 1)


def _raise_problem_nodes(f, cfg, cg):
    return [n for n, c in _calls_of(f, cfg, cg, "_problems.py::raise_problem")]


def formatter_funcs(repo: Repo):
    """format_code and the helpers of _format.py it delegates to with `return helper(<text>, ...)` (the text parameter handed
    through as first argument): the failure branches of the format-command may live in such a helper."""
    f = repo.func("_format.py::format_code")
    out = [f]
    if not f.params:
        return out
    for r in [x for x in body_nodes(f.node) if isinstance(x, ast.Return) and isinstance(x.value, ast.Call) and isinstance(x.value.func, ast.Name)]:
        c = r.value
        idx = [i for i, a in enumerate(c.args) if isinstance(a, ast.Name) and a.id == f.params[0]]
        if idx:
            t = repo.resolve_name(f.module, c.func.id)
            if t and t[0] == "func" and t[1].module is f.module and t[1] not in out:
                g = t[1]
                _text_param[g.key] = g.params[idx[0]] if idx[0] < len(g.params) else (g.params[0] if g.params else None)
                out.append(g)
    return out


_text_param = {}


def text_param_of(f):
    """the parameter of a formatter function that carries the unformatted text"""
    return _text_param.get(f.key, f.params[0] if f.params else None)


def fmt_degrade(repo: Repo, rep):
    rep.rule(
        "R-FMT-DEGRADE",
        "in format_code every failure branch (non-zero exit status of the format-command; ImportError of black; any exception of format_str) calls "
        "raise_problem and returns the unformatted parameter; no exception leaves a handler; format_str is called inside a catch-all try; both drivers reach "
        "report_problems on the paths that write",
    )
    cg = callgraph(repo)
    n_handlers = n_branches = n_fs = 0
    for f in formatter_funcs(repo):
        a, b, c = _fmt_degrade_in(repo, rep, f, cg)
        n_handlers += a
        n_branches += b
        n_fs += c
    rep.floor("R-FMT-DEGRADE", "exception handlers in format_code", n_handlers, 2)
    rep.floor("R-FMT-DEGRADE", "failure branches", n_branches, 3)
    rep.floor("R-FMT-DEGRADE", "format_str call sites", n_fs, 1)
    # drivers report problems
    for key in ("pytest_plugin.py::pytest_sessionfinish", "testing/_example.py::Example.run_inline"):
        d = repo.func(key)
        dcfg = cfg_of(d)
        fixes = _calls_of(d, dcfg, cg, "_rewrite_code.py::ChangeRecorder.fix_all")
        reps = [n for n, c in _calls_of(d, dcfg, cg, "_problems.py::report_problems")]
        for n, c in fixes:
            if reps and (nodes_dominate(dcfg, reps, n) or must_reach(dcfg, n, reps, [dcfg.ret], skip_labels=("exc",))):
                rep.ok("R-FMT-DEGRADE", d, c, "report_problems on the writing path")
            else:
                rep.violation("R-FMT-DEGRADE", d, c, f"{d.qualname} writes files on a path that never calls report_problems(): formatter failures stay invisible", construct="noreport")


def problems_total(repo: Repo, rep):
    rep.rule(
        "R-PROBLEMS-TOTAL",
        "a formatter failure is *reported*: raise_problem() records every message it is given - the store is filled on every path through the function, "
        "not filtered by a memo of what an earlier session of the same process already showed (pytest.main() twice, pytester in-process, several "
        "Example.run_inline in one test): the second session would degrade to unformatted code silently",
    )
    m = repo.module("_problems.py")
    f = m.funcs.get("raise_problem")
    if f is None:
        rep.undecided("R-PROBLEMS-TOTAL", "raise_problem not found in _problems.py")
        return
    cfg = cfg_of(f)
    adds = [n_ for n_ in cfg.live for c in node_calls(n_) if isinstance(c.func, ast.Attribute) and c.func.attr in ("add", "append") and any(isinstance(a_, ast.Name) and a_.id in f.params for a_ in c.args)]
    rep.floor("R-PROBLEMS-TOTAL", "stores of the message in raise_problem", len(adds), 1)
    if adds and must_reach(cfg, cfg.entry, adds, [cfg.ret], skip_labels=("exc",)):
        rep.ok("R-PROBLEMS-TOTAL", f, adds[0].ast, "every message is recorded")
    elif adds:
        rep.violation("R-PROBLEMS-TOTAL", f, adds[0].ast, "raise_problem() can return without recording the message (it is filtered against something remembered from before): a repeated formatter failure - the same command failing in the next in-process session - is no longer reported, the file is written unformatted without a word", construct="message-filtered")


def _fmt_degrade_in(repo: Repo, rep, f, cg):
    cfg = cfg_of(f)
    if not f.params:
        rep.undecided("R-FMT-DEGRADE", f"{f.qualname} has no parameter")
        return 0, 0, 0
    text = text_param_of(f)
    rp = _raise_problem_nodes(f, cfg, cg)

    def returns_text(n):
        return n.kind == "stmt" and isinstance(n.ast, ast.Return) and isinstance(n.ast.value, ast.Name) and n.ast.value.id == text and not defs_of(cfg, text)

    handlers = [n for n in cfg.live if n.kind == "handler"]
    branches = [(h, [b for b, _ in h.succ], "handler `" + h.text() + "`") for h in handlers]
    for c in cfg.conds():
        e = c.ast
        if isinstance(e, ast.Compare) and "returncode" in norm(e.left) and len(e.ops) == 1 and isinstance(e.comparators[0], ast.Constant) and e.comparators[0].value == 0:
            lab = "T" if isinstance(e.ops[0], (ast.NotEq, ast.Gt)) else "F" if isinstance(e.ops[0], ast.Eq) else None
            if lab:
                branches.append((c, [b for b, l in c.succ if l == lab], "non-zero exit status"))
    for hn, starts, label in branches:
        region = reach(cfg, starts)
        rets = [n for n in region if n.kind == "stmt" and isinstance(n.ast, ast.Return)]
        ok = True
        if cfg.exc in reach(cfg, starts, blocked_nodes=[]):
            # an explicit raise inside the branch
            raisers = [n for n in region if n.kind == "stmt" and isinstance(n.ast, ast.Raise)]
            if raisers:
                rep.violation("R-FMT-DEGRADE", f, raisers[0].ast, f"the {label} branch raises instead of degrading to the unformatted text: the session aborts before (or while) files are written", construct=f"raise:{label}")
                ok = False
        for r in rets:
            if not returns_text(r):
                rep.violation("R-FMT-DEGRADE", f, r.ast, f"the {label} branch returns `{short(r.ast.value, 40)}` instead of the unformatted input", construct=f"ret:{label}")
                ok = False
        if not rets:
            rep.violation("R-FMT-DEGRADE", f, hn.ast, f"the {label} branch does not return the unformatted input", construct=f"noret:{label}")
            ok = False
        # raise_problem on every path of the branch to RET
        r2 = reach(cfg, starts, blocked_nodes=rp)
        if cfg.ret in r2 and not any(s in rp for s in starts):
            rep.violation("R-FMT-DEGRADE", f, hn.ast, f"the {label} branch can return without raise_problem(): the failure is silent", construct=f"silent:{label}")
            ok = False
        if ok:
            rep.ok("R-FMT-DEGRADE", f, hn.ast, f"{label}: raise_problem + return {text}")
    # the input comes back unformatted only from a failure branch: a `return <input>` that is reachable without passing a handler or
    # the exit-status test is a formatter that declines to format - `code == format_code(code)` is then trivially true, the
    # whole-file pass does nothing and a clean file does not stay clean
    failure_nodes = set()
    for hn, starts, label in branches:
        failure_nodes |= set(reach(cfg, starts))
    if f.name == "format_code" or any(norm(c.func).endswith("format_str") for n_ in cfg.live for c in node_calls(n_)):
        for r in [n_ for n_ in cfg.live if returns_text(n_) and n_ not in failure_nodes]:
            rep.violation(
                "R-FMT-DEGRADE",
                f,
                r.ast,
                f"{f.qualname} returns its input unformatted on a path that is no failure of the formatter (no exception handler, no exit status): for the inputs that take this path nothing is formatted - "
                "not the generated fragment, not the final whole-file pass - and a formatter-clean file does not stay clean",
                construct="declines-to-format",
            )
    # the exit status alone says whether the command failed: the returncode test is not combined with anything else (output on stderr
    # is what linters / black without -q produce on success)
    for x in body_nodes(f.node):
        if isinstance(x, ast.BoolOp) and any(isinstance(v_, ast.Compare) and "returncode" in norm(v_) for v_ in x.values) and len(x.values) > 1:
            rep.violation(
                "R-FMT-DEGRADE",
                f,
                x,
                f"`{short(x, 60)}`: success of the format-command is decided by more than its exit status: a formatter that exits 0 and writes to stderr counts as failed - every call returns its input unformatted, "
                "so the file that was clean for the project's formatter is written unformatted",
                construct="failure-widened",
            )
    # format_str inside a catch-all try
    fs = [(n, c) for n in cfg.live for c in node_calls(n) if norm(c.func).endswith("format_str")]
    for n, c in fs:
        hs = [b for b, l in n.succ if l == "exc"]
        caught = False
        for d in hs:
            r = reach(cfg, [d], skip_labels=())
            # catch-all: dispatch has no edge to EXC other than through handlers
            direct_exc = any(b is cfg.exc for b, l in d.succ)
            catch_all = any(b.kind == "handler" and (b.ast.type is None or norm(b.ast.type) in ("Exception", "BaseException")) for b, l in d.succ)
            if catch_all and not direct_exc:
                caught = True
        if caught:
            rep.ok("R-FMT-DEGRADE", f, c, "format_str guarded by a catch-all handler")
        else:
            rep.violation("R-FMT-DEGRADE", f, c, "an exception of the formatter is not caught: a formatter crash aborts the rewrite", construct="format_str-unguarded")
    # the import of the optional formatter: guarded by a handler that takes every ImportError (a formatter that is installed but
    # fails while it is imported - a broken dependency, a shadowing module - raises ImportError, not its subclass ModuleNotFoundError)
    for t in [x for x in body_nodes(f.node) if isinstance(x, ast.Try)]:
        imps = [st for st in t.body if isinstance(st, (ast.Import, ast.ImportFrom)) and "black" in (getattr(st, "module", None) or "") + " ".join(a_.name for a_ in st.names)]
        if not imps:
            continue
        types = []
        for h in t.handlers:
            if h.type is None:
                types.append("*")
            else:
                types += [norm(x) for x in (h.type.elts if isinstance(h.type, ast.Tuple) else [h.type])]
        if any(x in ("*", "ImportError", "Exception", "BaseException") for x in types):
            rep.ok("R-FMT-DEGRADE", f, imps[0], "a formatter that cannot be imported degrades to the unformatted text")
        else:
            rep.violation(
                "R-FMT-DEGRADE",
                f,
                imps[0],
                f"the import of the formatter is guarded by `except {', '.join(types) or '<nothing>'}` only: an installed black that fails while it is imported raises a plain ImportError, "
                "which escapes format_code - the comparison in the test raises and nothing is written, instead of unformatted but correct code plus a reported problem",
                construct="import-handler",
            )
    return len(handlers), len(branches), len(fs)


def fmt_no_cache(repo: Repo, rep):
    rep.rule(
        "R-FMT-NO-CACHE",
        "no function of _format.py is memoised (functools.lru_cache / cache) and none keeps results in a module-level container: what the formatter "
        "returns depends on an external program and on files (pyproject.toml), not on the arguments alone.  A failure - which degrades to the unformatted "
        "text - remembered from the report pass would be replayed for the final write: the file is written unformatted although the command works again",
    )
    m = repo.module("_format.py")
    n = 0
    bad = 0
    for f in m.funcs.values():
        n += 1
        for d in f.decorators:
            if d.split(".")[-1].split("(")[0] in ("lru_cache", "cache", "cached", "memoize"):
                bad += 1
                rep.violation("R-FMT-NO-CACHE", f, f.node, f"{f.qualname} is decorated with @{d}: its error path (the unformatted text) is cached like a result and handed out again when the file is finally written", construct=f"{f.qualname}:cache")
        for x in body_nodes(f.node):
            if isinstance(x, (ast.Assign, ast.AugAssign)):
                for t in x.targets if isinstance(x, ast.Assign) else [x.target]:
                    if isinstance(t, ast.Subscript) and isinstance(t.value, ast.Name) and t.value.id in m.globals_assigned and t.value.id not in f.params:
                        bad += 1
                        rep.violation("R-FMT-NO-CACHE", f, x, f"{f.qualname} stores formatter results in the module-level `{t.value.id}`", construct=f"{f.qualname}:{t.value.id}")
    if not bad:
        rep.ok("R-FMT-NO-CACHE", repo.func("_format.py::format_code"), None, f"{n} functions of _format.py, none memoised", site="src/inline_snapshot/_format.py: caches")


def fmt_taint(repo: Repo, rep):
    rep.rule(
        "R-FMT-TAINT/whole-file",
        "the output of a configured format-command (an arbitrary external program) is returned by format_code only after a validity check - "
        "ast.parse/compile of it inside a try whose handler degrades like R-FMT-DEGRADE; black's format_str on a module is trusted (A3)",
    )
    cg = callgraph(repo)
    n_src = 0
    for f, cfg, r in [(g, gc, r) for g in formatter_funcs(repo) for gc in [cfg_of(g)] for r in gc.stmts(ast.Return)]:
        v = r.ast.value
        if v is None:
            continue
        tainted = derives_from(cfg, r, v, lambda x: isinstance(x, ast.Attribute) and x.attr in ("stdout",))
        if not tainted:
            continue
        n_src += 1
        # sanitiser: a node calling ast.parse/compile on the same value, in a try, dominating the return
        san = []
        for n in cfg.live:
            for c in node_calls(n):
                if norm(c.func) in ("ast.parse", "compile", "parse") and c.args:
                    a0 = c.args[0]
                    same = norm(a0) == norm(v) or (isinstance(a0, ast.Name) and isinstance(v, ast.Name) and a0.id == v.id)
                    if same and any(l == "exc" for _, l in n.succ):
                        san.append(n)
        if san and nodes_dominate(cfg, san, r):
            rep.ok("R-FMT-TAINT/whole-file", f, r.ast, "format-command output validated before it is returned")
        else:
            rep.violation(
                "R-FMT-TAINT/whole-file",
                f,
                r.ast,
                "the format-command's output is returned unvalidated: a command that exits 0 but prints something that is not Python makes run_inline write it verbatim and crashes the plugin with SyntaxError instead of degrading",
                construct="stdout-unvalidated",
            )
    rep.floor("R-FMT-TAINT/whole-file", "returns of format-command output", n_src, 1)


def persist_before_write(repo: Repo, rep):
    rep.rule("R-PERSIST-BEFORE-WRITE", "in pytest_sessionfinish no persist() is reachable after fix_all(), and fix_all() is reachable after every persist()")
    f = repo.func("pytest_plugin.py::pytest_sessionfinish")
    cfg = cfg_of(f)
    cg = callgraph(repo)
    fixes = _calls_of(f, cfg, cg, "_rewrite_code.py::ChangeRecorder.fix_all")
    pers = _calls_of(f, cfg, cg, "_external.py::DiscStorage.persist")
    rep.floor("R-PERSIST-BEFORE-WRITE", "persist sites", len(pers), 1)
    for pn, pc in pers:
        bad = False
        for fn, fc in fixes:
            if pn in reach(cfg, [b for b, _ in fn.succ]):
                rep.violation("R-PERSIST-BEFORE-WRITE", f, pc, "persist can run after the files were rewritten: an interruption in between leaves a reference to data that the next session prunes", construct="after")
                bad = True
        if not any(fn in reach(cfg, [pn]) for fn, _ in fixes):
            rep.violation("R-PERSIST-BEFORE-WRITE", f, pc, "no fix_all() follows this persist", construct="nofix")
            bad = True
        if not bad:
            rep.ok("R-PERSIST-BEFORE-WRITE", f, pc, "persist strictly before fix_all")


def always_pop(repo: Repo, rep):
    rep.rule(
        "R-ALWAYS-POP",
        "with every call treated as possibly raising: pytest_sessionfinish passes leave_snapshot_context() on every exit; suspend_global_capture is "
        "followed by resume_global_capture on every exit; snapshot_env passes leave_snapshot_context() on every exit after enter (including an exception thrown in at the yield)",
    )
    cg = callgraph(repo)
    f = repo.func("pytest_plugin.py::pytest_sessionfinish")
    cfg = cfg_of(f, all_raise=True)
    leaves = [n for n, c in _calls_of(f, cfg, cg, "_global_state.py::leave_snapshot_context")]
    if leaves and must_reach(cfg, cfg.entry, leaves, [cfg.ret, cfg.exc]):
        rep.ok("R-ALWAYS-POP", f, leaves[0].ast, f"leave_snapshot_context on all exits ({len(leaves)} copies of the finally body)")
    else:
        rep.violation(
            "R-ALWAYS-POP",
            f,
            f.node,
            "an exit of pytest_sessionfinish (normal or by exception) skips leave_snapshot_context(): the session state stays pushed",
            path_from(cfg, cfg.entry, [cfg.ret, cfg.exc], blocked_nodes=leaves) or "",
            construct="leave",
        )
    # wherever the capture is suspended (the hook itself, or a context manager it uses): resumed on every exit of that function -
    # for a @contextmanager that includes the exception thrown in at its yield
    n_sus = 0
    for h in repo.pkg_funcs():
        if not any(isinstance(c, ast.Call) and isinstance(c.func, ast.Attribute) and c.func.attr == "suspend_global_capture" for c in body_nodes(h.node)):
            continue
        hcfg = cfg if h.key == f.key else cfg_of(h, all_raise=True)
        sus = [n for n in hcfg.live for c in node_calls(n) if isinstance(c.func, ast.Attribute) and c.func.attr == "suspend_global_capture"]
        res = [n for n in hcfg.live for c in node_calls(n) if isinstance(c.func, ast.Attribute) and c.func.attr == "resume_global_capture"]
        n_sus += len(sus)
        for s_ in sus:
            if res and must_reach(hcfg, s_, res, [hcfg.ret, hcfg.exc], skip_labels=()):
                # the suspend call's own exceptional edge does not need a resume
                rep.ok("R-ALWAYS-POP", h, s_.ast, "capture resumed on every exit")
            else:
                starts = [b for b, l in s_.succ if l != "exc"]
                r = reach(hcfg, starts, blocked_nodes=res)
                if hcfg.ret in r or hcfg.exc in r:
                    rep.violation("R-ALWAYS-POP", h, s_.ast, "global capture is suspended and an exit (normal or exceptional) does not resume it", construct="capture")
                else:
                    rep.ok("R-ALWAYS-POP", h, s_.ast, "capture resumed on every exit")
        if h.key != f.key:
            # a helper that suspends may only be used as a context manager
            if "contextmanager" not in " ".join(h.decorators):
                rep.violation("R-ALWAYS-POP", h, h.node, f"{h.qualname} suspends the global capture but is not a context manager: its caller has to pair it with a resume on every exit, which is not checked", construct="capture-helper")
            for cf, c, how in cg.callers.get(h.key, []):
                if not any(isinstance(a, (ast.With, ast.AsyncWith)) and any(i.context_expr is c for i in a.items) for a in ancestors(c)):
                    rep.violation("R-ALWAYS-POP", cf, c, f"{h.qualname} is called outside a with statement: the capture stays suspended", construct="capture-helper-call")
    rep.floor("R-ALWAYS-POP", "suspend_global_capture sites", n_sus, 1)
    g = repo.func("_global_state.py::snapshot_env")
    gcfg = cfg_of(g, all_raise=True)
    ent = [n for n, c in _calls_of(g, gcfg, cg, "_global_state.py::enter_snapshot_context")]
    lv = [n for n, c in _calls_of(g, gcfg, cg, "_global_state.py::leave_snapshot_context")]
    # the same two steps written out in place: `<global> = State()` pushes, `<global> = <stack>.pop()` pops
    gl = {nm for s in ast.walk(g.node) if isinstance(s, ast.Global) for nm in s.names}
    for n in gcfg.stmts(ast.Assign):
        if any(isinstance(t, ast.Name) and t.id in gl for t in n.ast.targets):
            v = n.ast.value
            if isinstance(v, ast.Call) and norm(v.func) == "State":
                ent.append(n)
            elif isinstance(v, ast.Call) and isinstance(v.func, ast.Attribute) and v.func.attr == "pop":
                lv.append(n)
    rep.floor("R-ALWAYS-POP", "enter_snapshot_context in snapshot_env", len(ent), 1)
    for e in ent:
        starts = [b for b, l in e.succ if l != "exc"]
        r = reach(gcfg, starts, blocked_nodes=lv)
        if gcfg.ret in r or gcfg.exc in r:
            rep.violation("R-ALWAYS-POP", g, e.ast, "snapshot_env can exit (e.g. by an exception thrown into the generator at the yield) without leave_snapshot_context(): the private state of an xfail test / example leaks into the session", construct="snapshot_env")
        else:
            rep.ok("R-ALWAYS-POP", g, e.ast, "snapshot_env restores on every exit")


def err_dropped(repo: Repo, rep):
    rep.rule(
        "R-ERR-DROPPED",
        "no handler of the storage error type (HashError) anywhere in the package, and no exception handler at all inside the storage class DiscStorage, swallows its "
        "exception (body without raise, raise_problem, warning or logging): on the way from 'reference will be written' to 'data persisted' a dropped error leaves a dangling reference",
    )
    cg = callgraph(repo)
    n = 0
    for f in repo.pkg_funcs():
        for h in [x for x in body_nodes(f.node) if isinstance(x, ast.ExceptHandler)]:
            storage_layer = f.module.rel == "_external.py" and f.cls is not None and f.cls.name == "DiscStorage"
            if storage_layer and not (h.type is not None and "HashError" in norm(h.type)):
                # a handler inside the storage class counts when its try block performs a storage operation (file system access, a
                # lookup); a try block that only parses the name it was given (`external(name)._path`) drops no storage error
                tr = parent(h)
                ops_ = [c for s_ in getattr(tr, "body", []) for c in ast.walk(s_) if isinstance(c, ast.Call) and isinstance(c.func, ast.Attribute) and (c.func.attr in ("rename", "replace", "unlink", "read_bytes", "write_bytes", "read_text", "write_text", "glob", "iterdir", "mkdir", "exists", "open", "touch", "rmdir") or c.func.attr.startswith("_lookup") or c.func.attr in ("save", "read", "remove", "persist", "lookup_all"))]
                if not ops_:
                    continue
            if not ((h.type is not None and "HashError" in norm(h.type)) or storage_layer):
                continue
            n += 1
            body_calls = [norm(c.func) for s in h.body for c in ast.walk(s) if isinstance(c, ast.Call)]
            reraises = any(isinstance(x, ast.Raise) for s in h.body for x in ast.walk(s))
            reports = any(("raise_problem" in b or "warn" in b or "logging" in b or "print" in b) for b in body_calls)
            if reraises or reports:
                rep.ok("R-ERR-DROPPED", f, h, "HashError handled visibly")
            else:
                rep.violation(
                    "R-ERR-DROPPED",
                    f,
                    h,
                    (f"{f.qualname} swallows HashError: with an ambiguous hash prefix (e.g. hash-length=1) the reference is written while the data stays -new and is pruned at the next session start")
                    if h.type is not None and "HashError" in norm(h.type)
                    else (f"{f.qualname} swallows `{norm(h.type) if h.type else 'every exception'}` of a storage operation: when e.g. the rename of a -new file fails, the session goes on and writes a reference to data that is not persisted"),
                    construct=f"except {norm(h.type) if h.type else ''}: " + " ".join(norm(s) for s in h.body)[:60],
                )
    rep.floor("R-ERR-DROPPED", "HashError handlers", n, 1)


def parse_before_write(repo: Repo, rep):
    rep.rule(
        "R-PARSE-BEFORE-WRITE",
        "pytest_sessionfinish parses the complete new content of EVERY file of the final recorder (ast.parse(<file>.new_code()) on every iteration of the loop "
        "over <recorder>.files(), unconditionally) before fix_all() writes anything: unparsable content in any file aborts the session with all files untouched",
    )
    f = repo.func("pytest_plugin.py::pytest_sessionfinish")
    cfg = cfg_of(f)
    cg = callgraph(repo)
    fixes = _calls_of(f, cfg, cg, "_rewrite_code.py::ChangeRecorder.fix_all")
    rep.floor("R-PARSE-BEFORE-WRITE", "fix_all sites", len(fixes), 1)
    for fn, fc in fixes:
        rec = fc.func.value.id if isinstance(fc.func, ast.Attribute) and isinstance(fc.func.value, ast.Name) else None
        loops = [n for n in cfg.live if n.kind == "for" and rec and norm(n.ast.iter) == f"{rec}.files()" and fn in reach(cfg, [n])]
        good = False
        for lp in loops:
            parses = [n for n in cfg.live for c in node_calls(n) if norm(c.func) in ("ast.parse", "compile") and c.args and "new_code()" in norm(c.args[0]) and isinstance(lp.ast.target, ast.Name) and lp.ast.target.id in norm(c.args[0])]
            body_start = [b for b, l in lp.succ if l == "iter"]
            # every path of one iteration (from the loop's iter edge back to the loop head) passes a parse
            r = reach(cfg, body_start, blocked_nodes=parses + [lp])
            reaches_head = any(lp in [b for b, _ in x.succ] for x in r) or any(b is lp for x in body_start for b, _ in x.succ if x in parses and False)
            if parses and not reaches_head and nodes_dominate(cfg, [lp], fn):
                good = True
            # a failed parse must keep the write from happening: its exceptional edge never leads to fix_all
            for pn in parses:
                exc_starts = [b for b, l in pn.succ if l == "exc"]
                if exc_starts and fn in reach(cfg, exc_starts):
                    good = False
                    rep.violation(
                        "R-PARSE-BEFORE-WRITE",
                        f,
                        pn.ast,
                        "a failed parse of the new content is caught and the hook goes on to fix_all(): the parse was the only thing that kept unparsable generated code off the disk, now the broken file is written",
                        construct="parse-error-swallowed",
                    )
        if good:
            rep.ok("R-PARSE-BEFORE-WRITE", f, fc, "every file's new code is parsed before fix_all")
        else:
            rep.violation("R-PARSE-BEFORE-WRITE", f, fc, "fix_all() can write although the new content of some file was never parsed (the check is skipped or conditional): a value whose repr is not an expression leaves a test file that no longer compiles", construct="unparsed-write")
