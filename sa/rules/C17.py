"""C17 - what is recorded is the value at comparison time (tag dataflow)."""
from __future__ import annotations

import ast

from ..cfg import cfg_of as cfg_of_, node_calls as node_calls_, reach as reach_
from ..model import short as short_

from ..esp import UNKNOWN, NEW, OLD, SELF, run_function, val_str, valuations
from ..model import body_nodes, Repo, norm
from .common import dispatch_ops, op_table, table_stats, trace_str

MUTATORS = {"append", "add", "insert", "extend", "update", "setdefault", "appendleft", "push"}


NONALIAS_CALLS = {"len", "repr", "str", "int", "float", "bool", "bytes", "hash", "id", "type", "isinstance", "issubclass", "callable", "hasattr", "any", "all", "sum", "ord", "chr", "format", "code_repr", "value_to_token"}
NONALIAS_METHODS = {"deepcopy", "encode", "decode", "format", "join", "keys", "count", "index", "startswith", "endswith", "to_set", "lookup_all", "__repr__", "hexdigest", "_value_to_code", "_token_to_code", "_token_of_node"}
KEYED_METHODS = {"get", "pop", "setdefault"}


def aliases_param(t):
    """Parameter names that tag t may alias: copy propagation, container construction,
    attribute/element access, and the *arguments* of calls (a function may return or
    keep its argument: min(a, b), list(x), Wrapper(x)) - but not the receiver of a
    method call, lookup keys, comparison results, or known non-aliasing calls."""
    if not isinstance(t, tuple) or not t:
        return []
    k = t[0]
    if k == "param":
        return [t[1]]
    if k in ("list", "tuple", "set", "dict"):
        return [x for e in t[1] for x in aliases_param(e)]
    if k == "comp":
        return [x for e in t[2] for x in aliases_param(e)]
    if k in ("star", "elem", "with", "yielded"):
        return aliases_param(t[1]) if len(t) > 1 else []
    if k in ("attr", "item", "unpack"):
        return aliases_param(t[1])
    if k == "call":
        if t[1].split(".")[-1] in NONALIAS_CALLS or t[1].endswith("deepcopy"):
            return []
        return [x for e in t[2] for x in aliases_param(e)] + [x for _, e in (t[3] if len(t) > 3 else ()) for x in aliases_param(e)]
    if k == "mcall":
        if t[2] in NONALIAS_METHODS:
            return []
        args = t[3][1:] if t[2] in KEYED_METHODS else t[3]
        return [x for e in args for x in aliases_param(e)] + [x for _, e in (t[4] if len(t) > 4 else ()) for x in aliases_param(e)]
    if k == "new":
        return [x for e in t[2] for x in aliases_param(e)]
    return []


def is_self_storage(b) -> bool:
    if b in (OLD, NEW):
        return True
    if isinstance(b, tuple) and b:
        if b[0] == "self":
            return True
        if b[0] in ("attr", "item") and is_self_storage(b[1]):
            return True
    return False


def check(repo: Repo, rep, tier):
    rep.not_decided = "that deepcopy really copies a given object; equality semantics of user types"
    rep.rule(
        "R-CLONE-SINK",
        "in every operation method, under all 128 entry valuations, no value that directly aliases the compared operand (the parameter, "
        "containers built from it, its attributes/elements, shallow copies) reaches a persistent sink - a store to self.*, a mutation of a "
        "self-owned container, the new-value argument of an adapter assign() - unless it went through clone(); mapping keys are exempt (A5)",
    )
    rep.rule(
        "R-CLONE-DEF",
        "clone() returns copy.deepcopy(<its parameter>) on every returning path, each such path has taken the '<param> == <copy>' true edge, "
        "and the false edge raises UsageError",
    )
    _uec(repo, rep)
    store_before_clone(repo, rep)
    ops = dispatch_ops(repo)
    clone_sinks = set()
    for op in ops:
        rows = op_table(repo, op)
        bad = {}
        for v, outs in rows:
            for o in outs:
                for e in o.p.eff:
                    sink = None
                    if e[0] == "store":
                        sink = (f"self.{e[1]} = ...", e[2])
                    elif e[0] == "mcall" and e[2] in MUTATORS and is_self_storage(e[1]):
                        for a in e[3]:
                            sink = (f"self-owned container .{e[2]}(...)", a)
                            chk(sink, bad, v, o, clone_sinks, op)
                        continue
                    elif e[0] == "setitem" and is_self_storage(e[1]):
                        sink = ("self-owned container [key] = ...", e[3])
                    elif e[0] == "mcall" and e[2] == "assign" and len(e[3]) >= 3:
                        sink = ("adapter.assign(old, node, <new value>)", e[3][2])
                    elif e[0] == "attrstore" and is_self_storage(e[1]):
                        sink = (f"self-owned .{e[2]} = ...", e[3])
                    if sink:
                        chk(sink, bad, v, o, clone_sinks, op)
        for (desc, pname), (v, o) in bad.items():
            rep.violation(
                "R-CLONE-SINK",
                op.func,
                op.func.node,
                f"{op.label}: the compared value `{pname}` is recorded without clone() at sink {desc}: a later mutation of the object changes what is written",
                [val_str(v), trace_str(o)],
                construct=f"{op.label}:{desc}",
            )
        if not bad:
            rep.ok("R-CLONE-SINK", op.func, op.func.node, f"{op.label}: all sinks carry clone() or no operand")
    rep.floor("R-CLONE-SINK", "sinks fed by clone()", len(clone_sinks), 5)
    rep.count("valuations", table_stats(repo).get("valuations", 0))
    rep.extra["clone_sinks"] = sorted(clone_sinks)
    clone_def(repo, rep)


def _bare_deepcopy(t):
    """deepcopy(<param>) that did not go through clone(): the copy is stored before / without the equality self-check"""
    if isinstance(t, tuple) and t:
        if t[0] == "clone":
            return None
        if (t[0] == "mcall" and t[2] == "deepcopy" and t[3] and t[3][0][0] == "param") or (t[0] == "call" and t[1].endswith("deepcopy") and t[2] and t[2][0][0] == "param"):
            return (t[3] if t[0] == "mcall" else t[2])[0][1]
        for x in t:
            r = _bare_deepcopy(x)
            if r:
                return r
    return None


def chk(sink, bad, v, o, clone_sinks, op):
    desc, tag = sink
    al = aliases_param(tag)
    bd = _bare_deepcopy(tag)
    if al:
        bad.setdefault((desc, al[0]), (v, o))
    elif bd:
        bad.setdefault((desc + " (a bare copy.deepcopy stored before the `copy == original` self-check of clone() has passed: when the check then raises UsageError, the unequal copy is already recorded and is written at session end)", bd), (v, o))
    elif has_clone(tag):
        clone_sinks.add(f"{op.label}: {desc}")


def has_clone(t) -> bool:
    if isinstance(t, tuple):
        if t and t[0] == "clone":
            return True
        return any(has_clone(x) for x in t)
    return False


def store_before_clone(repo: Repo, rep):
    rep.rule(
        "R-STORE-WITH-CLONE",
        "a comparison whose value is rejected (clone() raises the usage error) leaves the snapshot as it was: in the operation methods no store to "
        "`self._new_value` of something that did not come through clone() is followed, later in the same call, by a clone() - the first store of a "
        "collection is `[clone(item)]`, not `[]` followed by an append.  Otherwise a snapshot whose only compared value was rejected is 'recorded' as "
        "empty: create writes `snapshot([])`, trim deletes every element",
    )
    n = 0
    for op in dispatch_ops(repo):
        f = op.func
        cfg = cfg_of_(f)
        stores = [s_ for s_ in cfg.stmts(ast.Assign) if any(isinstance(t, ast.Attribute) and t.attr == "_new_value" for t in s_.ast.targets)]
        clones = [n_ for n_ in cfg.live for c in node_calls_(n_) if isinstance(c.func, ast.Name) and c.func.id == "clone"]
        for s_ in stores:
            n += 1
            if any(isinstance(x, ast.Call) and isinstance(x.func, ast.Name) and x.func.id == "clone" for x in ast.walk(s_.ast.value)):
                rep.ok("R-STORE-WITH-CLONE", f, s_.ast, "the stored value comes through clone()")
                continue
            after = reach_(cfg, [b for b, l in s_.succ if l != "exc"])
            later = [c for c in clones if c in after and c is not s_]
            if later:
                rep.violation("R-STORE-WITH-CLONE", f, s_.ast, f"{f.qualname} stores `{short_(s_.ast, 40)}` and calls clone() afterwards: when clone() rejects the value (not equal to its copy) the snapshot already counts as recorded - `snapshot()` is created as an empty collection, an existing one is trimmed to nothing", construct=f"{f.qualname}:store-before-clone")
            else:
                rep.ok("R-STORE-WITH-CLONE", f, s_.ast, "no clone() after this store")
    rep.floor("R-STORE-WITH-CLONE", "stores to _new_value in the operation methods", n, 3)


def _uec(repo, rep):
    from .C07 import usage_error_class

    usage_error_class(repo, rep)


def clone_def(repo: Repo, rep):
    f = repo.func("_snapshot/generic_value.py::clone")
    if not f.params:
        rep.undecided("R-CLONE-DEF", "clone has no parameter")
        return
    pname = f.params[0]
    v = UNKNOWN
    outs, eng = run_function(repo, f, v)
    rets = [o for o in outs if o.kind == "ret"]
    excs = [o for o in outs if o.kind == "exc"]
    if not rets:
        # the typestate run found no returning path (a recursive / non-inlinable helper in the way): decide the self-check on the CFG -
        # every return is dominated by the true edge of `<parameter> == <the deepcopy>` on the whole objects
        from ..cfg import cfg_of, edges_dominate

        cfg = cfg_of(f)
        copies = {t.id for n_ in cfg.stmts(ast.Assign) if isinstance(n_.ast.value, ast.Call) and norm(n_.ast.value.func).endswith("deepcopy") for t in n_.ast.targets if isinstance(t, ast.Name)}
        eqs = []
        for c_ in cfg.conds():
            e = c_.ast
            if isinstance(e, ast.Compare) and len(e.ops) == 1 and isinstance(e.ops[0], (ast.Eq, ast.NotEq)) and isinstance(e.left, ast.Name) and isinstance(e.comparators[0], ast.Name) and {e.left.id, e.comparators[0].id} & copies and pname in (e.left.id, e.comparators[0].id):
                eqs.append((c_, "T" if isinstance(e.ops[0], ast.Eq) else "F"))
        rs = cfg.stmts(ast.Return)
        if not rs or not copies:
            rep.undecided("R-CLONE-DEF", "clone has no returning path")
            return
        if not eqs or not all(edges_dominate(cfg, eqs, r_) for r_ in rs):
            rep.violation(
                "R-CLONE-DEF",
                f,
                rs[0].ast,
                f"clone returns the copy without the direct self-check `{pname} == <copy>` of the whole object on that path (the comparison was delegated / weakened): a value that differs from its deep copy in a part "
                "the delegate does not look at (dict keys, repr=False fields, state of a subclass) is recorded without the usage error",
                construct="selfcheck",
            )
        else:
            rep.ok("R-CLONE-DEF", f, rs[0].ast, "every return behind `obj == copy` (CFG fall-back)")
        return

    def is_deepcopy(t):
        return isinstance(t, tuple) and t and ((t[0] == "mcall" and t[2] == "deepcopy") or (t[0] == "call" and t[1].endswith("deepcopy"))) and (t[3] if t[0] == "mcall" else t[2]) and (t[3] if t[0] == "mcall" else t[2])[0] == ("param", pname)

    ok = True
    for o in rets:
        if not is_deepcopy(o.ret):
            rep.violation("R-CLONE-DEF", f, f.node, f"clone returns {short_tag(o.ret)} instead of copy.deepcopy({pname}): recorded values alias the live object", trace_str(o), construct="return")
            ok = False
            continue
        eq = [(t, val) for t, val in o.p.assume if t[0] == "cmp" and t[1] in ("==", "!=") and {t[2], t[3]} == {("param", pname), o.ret}]
        good = any((t[1] == "==" and val) for t, val in eq)
        if not good and any((t[1] == "!=" and not val) for t, val in eq):
            rep.violation("R-CLONE-DEF", f, f.node, "clone checks its copy with `!=`: a class can define __eq__ (dataclass) and inherit an unrelated __ne__ - for such a value `obj != copy` and `obj == copy` are both False and the unequal copy is recorded; the check has to be the `==` the later comparisons use", trace_str(o), construct="selfcheck-ne")
            ok = False
            continue
        if not good:
            rep.violation("R-CLONE-DEF", f, f.node, "clone returns the copy without having checked that it equals the original (a wrong copy is recorded silently)", trace_str(o), construct="selfcheck")
            ok = False
    # deepcopy is called with the object alone: a memo handed in from outside (a registry of "shared" objects) makes
    # deepcopy return those very objects, i.e. the recorded value aliases live objects again
    for c in [x for x in body_nodes(f.node) if isinstance(x, ast.Call) and norm(x.func).endswith("deepcopy")]:
        if len(c.args) + len(c.keywords) != 1:
            rep.violation("R-CLONE-DEF", f, c, f"`{norm(c)[:60]}` passes a memo to deepcopy: objects registered in it are not copied, the recorded value shares them with the test (a later mutation changes what is written)", construct="deepcopy-memo")
            ok = False
    # the failing edge raises UsageError
    raised = [o for o in excs if "UsageError" in str(o.ret)]
    if not raised:
        rep.violation("R-CLONE-DEF", f, f.node, "no path of clone raises UsageError for a copy that differs from the original", construct="raise")
        ok = False
    if ok:
        rep.ok("R-CLONE-DEF", f, f.node, f"{len(rets)} returning path(s): deepcopy + equality self-check; unequal copy raises UsageError")


def short_tag(t):
    s = str(t)
    return s if len(s) < 80 else s[:77] + "..."
