"""C03 - rewriting touches only the arguments of snapshot() calls."""
from __future__ import annotations

import ast
from typing import List, Set

from ..callgraph import callgraph
from ..cfg import cfg_of, dominating_edges, edge_dominates, edges_dominate, node_calls, reach
from ..defuse import def_value, defs_of, derives_from, reaching_defs, resolve_alias
from ..model import Repo, ancestors, body_nodes, norm, parent, short
from .C18 import nonoverlap

EDIT_MODULES = ("_change.py", "_find_external.py", "_source_file.py")
BYTE_ATTRS = {"col_offset", "end_col_offset"}
# audited upward / sideways navigation in edit-producing code: (function, normalised expression) -> reason
AUDITED_HOPS = {
    ("_change.py::apply_all", "cast(EnhancedAST, change.node).parent"): "a Delete is applied to the container holding the deleted element",
    ("_change.py::apply_all", "node.parent"): "a deleted keyword value is removed together with its `name=`",
    ("_change.py::apply_all.arg_token_range", "node.parent"): "token range of `name=value` for a keyword argument",
    ("_find_external.py::ensure_import", "tree.body"): "the single module-level edit: import insertion after the last top-level import",
    ("_find_external.py::ensure_import", "tree.body[0].first_token"): "import insertion point when the module has no import",
    ("_find_external.py::ensure_import", "last_import.last_token"): "import insertion point after the last import",
    ("_find_external.py::contains_import", "tree.body"): "read-only scan for an existing import",
}
UP_ATTRS = {"parent", "prev_token", "body", "first_token", "last_token"}


def check(repo: Repo, rep, tier):
    rep.not_decided = "correctness of asttokens' token positions; that black keeps the syntax tree of a module"
    range_prov(repo, rep)
    char_units(repo, rep)
    nonoverlap(repo, rep)
    wholefile_gate(repo, rep)
    import_only(repo, rep)
    import_scope(repo, rep)
    import_position(repo, rep)
    file_identity(repo, rep)
    io_newline(repo, rep)
    io_encoding(repo, rep)
    source_bom(repo, rep)
    line_model(repo, rep)
    element_parens(repo, rep)
    from .C15 import parse_before_write

    parse_before_write(repo, rep)
    from .C04 import session_gate

    session_gate(repo, rep)
    from .C20 import mode_table, one_mode

    # the whole-file gate compares against black run with *this file's* options: a mode that belongs to another file / project
    # re-wraps code outside the snapshot() arguments
    one_mode(repo, rep)
    mode_table(repo, rep)
    from .C01 import import_step

    import_step(repo, rep)


def edit_calls(repo: Repo):
    """Call sites of _rewrite_code.Change.replace/insert/delete: `<x>.replace(range, text, filename=...)`."""
    out = []
    for f in repo.pkg_funcs():
        if f.module.rel.startswith("testing/"):
            continue
        for c in body_nodes(f.node):
            if isinstance(c, ast.Call) and isinstance(c.func, ast.Attribute) and c.func.attr in ("replace", "insert", "delete") and any(k.arg == "filename" for k in c.keywords):
                out.append((f, c))
    return out


def _is_paren_expander(g) -> bool:
    """prev_token/next_token walk that continues only over `(` / `)` and is bounded by token indices (the container's braces)"""
    calls = {c.func.attr for c in body_nodes(g.node) if isinstance(c, ast.Call) and isinstance(c.func, ast.Attribute)}
    consts = {x.value for x in body_nodes(g.node) if isinstance(x, ast.Constant) and isinstance(x.value, str)}
    bounded = any(isinstance(x, ast.Compare) and any(isinstance(y, ast.Attribute) and y.attr == "index" for y in ast.walk(x)) and any(isinstance(o, (ast.LtE, ast.GtE, ast.Lt, ast.Gt)) for o in x.ops) for x in body_nodes(g.node))
    return {"prev_token", "next_token"} <= calls and {"(", ")"} <= consts and bounded


def range_prov(repo: Repo, rep):
    rep.rule(
        "R-RANGE-PROV",
        "every range handed to Change.replace/insert/delete is built only from get_text_positions(node, ...) or start_of/end_of of tokens obtained from "
        "get_tokens(node)/next_token; edit-producing code (_change.py, _find_external.py, _source_file.py) navigates upwards or sideways in the tree "
        "(.parent, prev_token, .body, first/last_token) only at the audited sites: the Delete -> container hop (+ keyword hop) and the single import insertion",
    )
    sites = edit_calls(repo)
    rep.floor("R-RANGE-PROV", "Change.replace/insert/delete call sites", len(sites), 4)
    for f, c in sites:
        if f.module.rel == "_rewrite_code.py":
            rep.ok("R-RANGE-PROV", f, c, "internal forwarding inside Change")
            continue
        cfg = cfg_of(f)
        nn = cfg.nodes_containing(c)
        rng = c.args[0] if c.args else None
        if rng is None or not nn:
            rep.undecided("R-RANGE-PROV", f"{f.key}:{c.lineno} edit call without a range argument")
            continue

        def good_atom(e, depth=0) -> bool:
            if isinstance(e, (ast.Tuple, ast.List)):
                return all(good_atom(x, depth) for x in e.elts)
            if isinstance(e, ast.Call):
                fn = norm(e.func)
                if fn.endswith("get_text_positions"):
                    return True
                if fn in ("start_of", "end_of", "range_of") and e.args:
                    return token_like(e.args[0], depth)
                return False
            if isinstance(e, ast.Name) and depth < 4:
                ds = reaching_defs(cfg, nn[0], e.id)
                vals = [def_value(d, e.id) for d in ds]
                return bool(vals) and all(v is not None and good_atom(v, depth + 1) for v in vals)
            return False

        def token_like(e, depth, seen=frozenset()) -> bool:
            # decided by where the value comes from, not by what the variable is called
            t = norm(e)
            if isinstance(e, ast.Name):
                if e.id in f.params or e.id in seen:
                    return True  # a parameter (token ranges are passed in) / a loop-carried variable already being traced
                ds = reaching_defs(cfg, nn[0], e.id)
                if not ds or depth > 6:
                    return "token" in e.id  # closure variable / too deep: fall back to the naming convention
                for d in ds:
                    v = def_value(d, e.id)
                    if v is None:
                        continue  # unpacked from a token range / loop variable over get_tokens()
                    if d.kind == "for":
                        continue
                    if not (token_like(v, depth + 1, seen | {e.id}) or ("token" in norm(v) and not isinstance(v, ast.Name))):
                        return False
                return True
            if isinstance(e, ast.Attribute) and e.attr in ("first_token", "last_token"):
                return True
            if isinstance(e, ast.Call) and ("get_tokens" in t or "next_token" in t or "prev_token" in t):
                return True
            if isinstance(e, ast.Subscript):
                return token_like(e.value, depth, seen)
            return False

        if good_atom(rng):
            rep.ok("R-RANGE-PROV", f, c, f"range `{short(rng, 50)}` built from token positions")
        else:
            rep.violation("R-RANGE-PROV", f, c, f"{f.qualname}: the range `{short(rng, 60)}` handed to Change.{c.func.attr} is not built from get_text_positions / token positions of the changed node", construct=norm(rng))
    # upward / sideways navigation
    hops = 0
    for m in repo.modules.values():
        if m.rel not in EDIT_MODULES:
            continue
        for f in m.funcs.values():
            for x in body_nodes(f.node):
                if isinstance(x, ast.Attribute) and x.attr in UP_ATTRS and isinstance(x.ctx, ast.Load):
                    # skip method calls named like that on token helpers (token.next_token(...) is a call on the asttokens object)
                    if isinstance(parent(x), ast.Call) and parent(x).func is x:
                        if x.attr != "prev_token":
                            continue
                    hops += 1
                    key = (f.key, norm(x))
                    audited = AUDITED_HOPS.get(key)
                    if audited is None and m.rel == "_find_external.py" and x.attr in ("body", "first_token", "last_token"):
                        audited = "module _find_external.py is the import step: the single module-level edit (import insertion) and the read-only import scan"
                    if audited is None and m.rel == "_change.py" and x.attr == "parent":
                        # the two audited upward hops, recognised by their guards wherever the code lives
                        fcfg = cfg_of(f)
                        xn = fcfg.nodes_containing(x)
                        from ..cfg import dominating_edges as _de

                        for cn, lab in (_de(fcfg, xn[0]) if xn else []):
                            t = norm(cn.ast)
                            if cn.kind == "cond" and lab == "T" and "isinstance" in t and ("Delete" in t or "ast.keyword" in t):
                                audited = "Delete -> container hop / keyword hop (guarded by the isinstance test)"
                        if xn and xn[0].kind == "cond" and "ast.keyword" in norm(xn[0].ast):
                            audited = "test whether the node is a keyword value"
                    if audited is None and m.rel == "_change.py" and x.attr == "prev_token" and _is_paren_expander(f):
                        audited = "parenthesis expansion: steps outwards only over a matching `(` `)` pair whose token indices lie strictly inside the container's brace tokens"
                    if audited is not None:
                        rep.ok("R-RANGE-PROV", f, x, f"audited hop `{norm(x)}`: {audited}")
                    else:
                        rep.violation(
                            "R-RANGE-PROV",
                            f,
                            x,
                            f"{f.qualname} navigates with `{norm(x)}` in edit-producing code; outside the audited Delete/keyword/import sites an edit must stay inside the node of its Change (text outside the snapshot() argument can be touched)",
                            construct=norm(x),
                        )
    rep.floor("R-RANGE-PROV", "upward/sideways navigation sites", hops, 5)


def char_units(repo: Repo, rep):
    rep.rule(
        "R-CHAR-UNITS",
        "no SourcePosition / range endpoint / line_to_offset argument is derived from ast byte offsets (col_offset, end_col_offset): token positions and "
        "get_text_positions are (line, character) pairs; byte offsets differ whenever a multi-byte character precedes the call on its line",
    )
    n = 0
    bad = 0
    for f in repo.pkg_funcs():
        if f.module.rel.startswith("testing/"):
            continue
        for c in body_nodes(f.node):
            if not isinstance(c, ast.Call):
                continue
            fn = norm(c.func)
            if fn in ("SourcePosition", "SourceRange", "start_of", "end_of", "range_of") or fn.endswith("line_to_offset") or (isinstance(c.func, ast.Attribute) and c.func.attr in ("replace", "insert", "delete") and any(k.arg == "filename" for k in c.keywords)):
                n += 1
                args = list(c.args) + [k.value for k in c.keywords]
                for a in args:
                    for x in ast.walk(a):
                        if isinstance(x, ast.Attribute) and x.attr in BYTE_ATTRS:
                            base = x.value
                            # SourcePosition's own fields (self.col_offset inside the dataclass) are character columns
                            if isinstance(base, ast.Name) and base.id == "self" and f.cls is not None and f.cls.name == "SourcePosition":
                                continue
                            # `<range>.start.col_offset` / `<range>.end.col_offset`: the fields of a SourceRange are SourcePositions
                            if isinstance(base, ast.Attribute) and base.attr in ("start", "end") and not any(k in norm(base).lower() for k in ("node", "token", "tok")):
                                continue
                            bad += 1
                            rep.violation("R-CHAR-UNITS", f, c, f"{f.qualname} builds a source position from the ast byte offset `{norm(x)}`: with non-ASCII text before the call on the same line the edit lands at the wrong column and corrupts the file", construct=norm(x))
    # a position built from a token takes line and column from the *same* end of the token (a triple-quoted string starts and ends on
    # different lines: `start[0]` with `end[1]` is a point inside some other line)
    for f in repo.pkg_funcs():
        if f.module.rel.startswith("testing/"):
            continue
        for c in body_nodes(f.node):
            if isinstance(c, ast.Call) and norm(c.func) == "SourcePosition":
                vals = list(c.args) + [k.value for k in c.keywords]
                ends = []
                for v_ in vals:
                    if isinstance(v_, ast.Subscript) and isinstance(v_.value, ast.Attribute) and v_.value.attr in ("start", "end") and isinstance(v_.slice, ast.Constant):
                        ends.append((norm(v_.value.value), v_.value.attr))
                if len(ends) == 2 and ends[0][0] == ends[1][0] and ends[0][1] != ends[1][1]:
                    bad += 1
                    rep.violation("R-CHAR-UNITS", f, c, f"`{short(c, 70)}` in {f.qualname} mixes the two ends of a token: for a token that spans several lines (a triple-quoted string) the position lies on the wrong line - an edit next to such an element removes or damages it", construct=f"{f.qualname}:mixed-endpoints")
    # the other direction: a character column must not be *converted* as if it were a byte offset
    for f in repo.pkg_funcs():
        if f.module.rel not in POSITION_MODULES:
            continue
        for c in body_nodes(f.node):
            if isinstance(c, ast.Call) and isinstance(c.func, ast.Attribute) and c.func.attr in ("from_utf8_col", "utf8_to_col", "byte_to_char") or (isinstance(c, ast.Call) and isinstance(c.func, ast.Attribute) and c.func.attr == "line_to_offset" and any(isinstance(x, ast.Call) and isinstance(x.func, ast.Attribute) and x.func.attr in ("encode", "decode") for a in c.args for x in ast.walk(a))):
                bad += 1
                rep.violation("R-CHAR-UNITS", f, c, f"{f.qualname} converts a column with `{short(c, 50)}` as if it were a utf-8 byte offset; the columns in this pipeline come from asttokens and are already characters: with non-ASCII text before the snapshot on its line the edit is shifted to the left", construct=f"{f.qualname}:{c.func.attr}")
    if not bad:
        rep.ok("R-CHAR-UNITS", repo.module("_rewrite_code.py"), None, f"{n} position-building calls, none uses ast byte offsets", site="src/inline_snapshot: SourcePosition/start_of/end_of/line_to_offset/Change.replace call sites")
    rep.floor("R-CHAR-UNITS", "position-building calls", n, 8)
    # positive example: the rule must match a known-bad fragment on every run
    probe = ast.parse("SourcePosition(node.lineno, node.col_offset)").body[0].value
    hit = any(isinstance(x, ast.Attribute) and x.attr in BYTE_ATTRS for a in probe.args for x in ast.walk(a))
    if not hit:
        rep.undecided("R-CHAR-UNITS", "positive example not matched (rule broken)")


def wholefile_gate(repo: Repo, rep):
    rep.rule(
        "R-WHOLEFILE-GATE",
        "in SourceFile.new_code the whole new text is passed to format_code only under a variable whose single definition is "
        "`enforce_formatting() or <original text> == format_code(<original text>, ...)`, the original text being what was read from the file",
    )
    f = repo.func("_rewrite_code.py::SourceFile.new_code")
    cfg = cfg_of(f)
    cg = callgraph(repo)
    fcalls = [(n, c) for n in cfg.live for c in node_calls(n) if any(t.key == "_format.py::format_code" for t in cg.call_targets(f, c)[0])]
    rep.floor("R-WHOLEFILE-GATE", "format_code calls in new_code", len(fcalls), 2)
    gate_ok = False
    for n, c in fcalls:
        # is this call part of a gate definition `g = enforce_formatting() or x == format_code(x)` ?
        if n.kind == "stmt" and isinstance(n.ast, ast.Assign) and isinstance(n.ast.value, ast.BoolOp) and isinstance(n.ast.value.op, ast.Or):
            continue
        if n.kind == "stmt" and isinstance(n.ast, ast.Assign) and isinstance(n.ast.value, ast.Compare) and len(n.ast.value.ops) == 1 and isinstance(n.ast.value.ops[0], ast.Eq) and c in (n.ast.value.left, n.ast.value.comparators[0]):
            continue  # the second stage of a gate written in two steps: `g = enforce_formatting()`, `if not g: g = code == format_code(code)`
        if n.kind == "cond" and any(isinstance(x, ast.Compare) for x in ast.walk(n.ast)):
            continue  # part of a decomposed gate definition
        # a formatting application: must be under a gate variable
        gates = []
        for cnd in cfg.conds():
            if isinstance(cnd.ast, ast.Name) and edge_dominates(cfg, (cnd, "T"), n):
                gates.append(cnd)
        good = False
        for g in gates:
            ds = reaching_defs(cfg, g, g.ast.id)
            if not ds:
                continue
            # the disjuncts of the gate: one `a or b` definition, or the same written in steps (`g = a`, `if not g: g = b`)
            disj = []
            for d_ in ds:
                v = def_value(d_, g.ast.id)
                if isinstance(v, ast.Name):
                    v = resolve_alias(cfg, d_, v)
                if isinstance(v, ast.BoolOp) and isinstance(v.op, ast.Or):
                    disj += [(d_, x) for x in v.values]
                elif len(ds) > 1 and v is not None:
                    disj.append((d_, v))
            if disj:
                has_enf = any(isinstance(x, ast.Call) and norm(x.func).endswith("enforce_formatting") for _, x in disj)
                fix = False
                for d0, x in disj:
                    if isinstance(x, ast.Compare) and len(x.ops) == 1 and isinstance(x.ops[0], ast.Eq):
                        a, b = x.left, x.comparators[0]
                        for p, q in ((a, b), (b, a)):
                            if isinstance(q, ast.Call) and norm(q.func).endswith("format_code") and q.args and norm(q.args[0]) == norm(p) and isinstance(p, ast.Name):
                                src = resolve_alias(cfg, d0, p)
                                if "read_text" in norm(src) or "read_bytes" in norm(src) or "read(" in norm(src):
                                    fix = True
                if has_enf and fix:
                    good = True
        if good:
            gate_ok = True
            rep.ok("R-WHOLEFILE-GATE", f, c, "whole-file formatting only if enforced or the original file was a fixed point of the formatter")
            # ... and then always: on the gate's true edge every normal path to the end passes the formatting
            from ..cfg import must_reach as _mr

            for g in gates:
                starts = [b for b, l in g.succ if l == "T"]
                r_ = reach(cfg, starts, blocked_nodes=[n], skip_labels=("exc",))
                if cfg.ret in r_ and n not in starts:
                    rep.violation("R-WHOLEFILE-GATE", f, g.ast, "a file that was formatter-clean (or has a format-command) can be written without the final whole-file pass: a further condition sits between the gate and format_code(), so e.g. a statement that fits on one line again after a trim stays wrapped and `black --check` fails on the result", construct="format-skipped")
        else:
            rep.violation("R-WHOLEFILE-GATE", f, c, "the whole file is re-formatted although it was not formatter-clean before and no format-command is set: text outside the snapshot() arguments is rewritten", construct="ungated-format")
    if not gate_ok and not any(o.verdict == "violation" and o.rule == "R-WHOLEFILE-GATE" for o in rep.obl):
        rep.undecided("R-WHOLEFILE-GATE", "no gated whole-file formatting found")


def import_table(dv, resolve=None):
    """the import requests written as a table comprehension -> [(name, cond expression)], None if dv is no such comprehension:
         [name for name, needed in (("external", <cond>), ("HasRepr", <cond>)) if needed]
         [name for check, name in [(used_externals, "external"), (used_hasrepr, "HasRepr")] if check(tree)]
       the table may be held in a local (`resolve(name_node)` gives its definition)"""
    if not isinstance(dv, (ast.ListComp, ast.GeneratorExp)) or len(dv.generators) != 1:
        return None
    g = dv.generators[0]
    if not (isinstance(g.target, ast.Tuple) and len(g.target.elts) == 2 and all(isinstance(x, ast.Name) for x in g.target.elts)):
        return None
    if not (isinstance(dv.elt, ast.Name) and len(g.ifs) == 1):
        return None
    names = [x.id for x in g.target.elts]
    if dv.elt.id not in names:
        return None
    ni = names.index(dv.elt.id)
    other = names[1 - ni]
    test = g.ifs[0]
    if isinstance(test, ast.Name) and test.id == other:
        mode = "value"
    elif isinstance(test, ast.Call) and isinstance(test.func, ast.Name) and test.func.id == other:
        mode = "call"
    else:
        return None
    it = g.iter
    if isinstance(it, ast.Name) and resolve is not None:
        it = resolve(it)
    if not isinstance(it, (ast.Tuple, ast.List)):
        return None
    out = []
    for row in it.elts:
        if not (isinstance(row, (ast.Tuple, ast.List)) and len(row.elts) == 2 and isinstance(row.elts[ni], ast.Constant)):
            return None
        cond = row.elts[1 - ni]
        if mode == "call":
            cond = ast.copy_location(ast.Call(func=cond, args=list(test.args), keywords=[]), cond)
        out.append((row.elts[ni].value, cond))
    return out


def _joined_pieces(v):
    """`"".join(<piece> for ... in <queue>)`: the comprehension, or None"""
    if isinstance(v, ast.Call) and isinstance(v.func, ast.Attribute) and v.func.attr == "join" and isinstance(v.func.value, ast.Constant) and v.func.value.value == "" and len(v.args) == 1 and isinstance(v.args[0], (ast.GeneratorExp, ast.ListComp)):
        return v.args[0]
    return None


def import_only(repo: Repo, rep):
    rep.rule(
        "R-IMPORT-ONLY",
        "ensure_import is called only from the session-finish hook (and the in-process driver), only for module 'inline_snapshot' and the names "
        "external / HasRepr; the text it inserts is built only from `from {module} import {name}` lines for names that contains_import() does not find",
    )
    cg = callgraph(repo)
    callers = cg.callers.get("_find_external.py::ensure_import", [])
    allowed = {"pytest_plugin.py::pytest_sessionfinish", "testing/_example.py::Example.run_inline"}
    rep.floor("R-IMPORT-ONLY", "callers of ensure_import", len(callers), 1)
    for cf, c, how in callers:
        if cf.key not in allowed:
            rep.violation("R-IMPORT-ONLY", cf, c, f"{cf.qualname} inserts imports into a source file; only the session-finish step may edit outside snapshot() arguments", construct=f"caller:{cf.qualname}")
            continue
        cfg = cfg_of(cf)
        nn = cfg.nodes_containing(c)
        imp = c.args[1] if len(c.args) > 1 else None
        ok = isinstance(imp, ast.Dict) and len(imp.keys) == 1 and isinstance(imp.keys[0], ast.Constant) and imp.keys[0].value == "inline_snapshot"
        names: Set[str] = set()
        if ok:
            v = imp.values[0]
            if isinstance(v, ast.Name) and nn:
                for d in defs_of(cfg, v.id):
                    dv = def_value(d, v.id)
                    if isinstance(dv, (ast.List, ast.Tuple)):
                        names |= {e.value if isinstance(e, ast.Constant) else "?" for e in dv.elts}
                    elif import_table(dv, lambda nm__: resolve_alias(cfg, nn[0], nm__)) is not None:
                        names |= {nm_ for nm_, _ in import_table(dv, lambda nm__: resolve_alias(cfg, nn[0], nm__))}
                for n2 in cfg.live:
                    for cc in node_calls(n2):
                        if isinstance(cc.func, ast.Attribute) and cc.func.attr in ("append", "extend", "add") and isinstance(cc.func.value, ast.Name) and cc.func.value.id == v.id:
                            names |= {a.value if isinstance(a, ast.Constant) else "?" for a in cc.args}
            elif isinstance(v, (ast.List, ast.Tuple)):
                names |= {e.value if isinstance(e, ast.Constant) else "?" for e in v.elts}
            else:
                names.add("?")
        # the names are decided per file: the list is (re)initialised inside the loop over the files
        if ok and isinstance(imp.values[0], ast.Name) and nn:
            v = imp.values[0]
            loops = [a for a in ancestors(c) if isinstance(a, ast.For)]
            if loops:
                loop = loops[0]
                ln = [x for x in cfg.live if x.kind == "for" and x.ast is loop]
                inits = [d for d in defs_of(cfg, v.id) if d.kind == "stmt" and isinstance(d.ast, ast.Assign)]
                if ln:
                    body_start = [b for b, l in ln[0].succ if l == "iter"]
                    r = reach(cfg, body_start, blocked_nodes=inits + [ln[0]])
                    if nn[0] in r:
                        rep.violation(
                            "R-IMPORT-ONLY",
                            cf,
                            c,
                            f"`{v.id}` is not re-initialised for every file: imports needed by one rewritten file are also inserted into the files processed after it",
                            construct="names-accumulate",
                        )
        if ok and names and names <= {"external", "HasRepr"}:
            rep.ok("R-IMPORT-ONLY", cf, c, f"imports {sorted(names)} from inline_snapshot")
        else:
            rep.violation("R-IMPORT-ONLY", cf, c, f"ensure_import is asked for `{short(imp, 50)}` (names {sorted(names)}): only `from inline_snapshot import external|HasRepr` may be added to a test file", construct="names")
    f = repo.func("_find_external.py::ensure_import")
    cfg = cfg_of(f)
    ins = [(n, c) for n in cfg.live for c in node_calls(n) if isinstance(c.func, ast.Attribute) and c.func.attr == "insert" and any(k.arg == "filename" for k in c.keywords)]
    rep.floor("R-IMPORT-ONLY", "insert sites in ensure_import", len(ins), 1)
    for n, c in ins:
        txt = c.args[1] if len(c.args) > 1 else None
        ok = False
        if isinstance(txt, ast.Name):
            parts = []
            for d in defs_of(cfg, txt.id):
                if d.kind == "stmt" and isinstance(d.ast, ast.AugAssign):
                    parts.append(d.ast.value)
                elif d.kind == "stmt" and isinstance(d.ast, ast.Assign):
                    j = _joined_pieces(d.ast.value)
                    parts.append(j.elt if j is not None else d.ast.value)
            ok = bool(parts)
            for p in parts:
                if isinstance(p, ast.Constant) and p.value == "":
                    continue
                if isinstance(p, ast.JoinedStr):
                    consts = "".join(v.value for v in p.values if isinstance(v, ast.Constant))
                    if consts.replace("\n", "").replace(" ", "") != "fromimport":
                        ok = False
                else:
                    ok = False
        if ok:
            rep.ok("R-IMPORT-ONLY", f, c, "inserted text consists of `from {module} import {name}` lines only")
        else:
            rep.violation("R-IMPORT-ONLY", f, c, "ensure_import inserts text that is not made only of `from <module> import <name>` lines", construct="inserted-text")
    # names already imported are skipped
    # the queue of missing imports is the list the inserted text is built from (`for module, name in <queue>: code += ...`)
    queues = set()
    for n, c in ins:
        txt = c.args[1] if len(c.args) > 1 else None
        if isinstance(txt, ast.Name):
            for d in defs_of(cfg, txt.id):
                if d.kind == "stmt" and isinstance(d.ast, ast.AugAssign):
                    for a_ in ancestors(d.ast):
                        if isinstance(a_, ast.For) and isinstance(a_.iter, ast.Name):
                            queues.add(a_.iter.id)
                elif d.kind == "stmt" and isinstance(d.ast, ast.Assign) and _joined_pieces(d.ast.value) is not None:
                    for g_ in _joined_pieces(d.ast.value).generators:
                        if isinstance(g_.iter, ast.Name) and not g_.ifs:
                            queues.add(g_.iter.id)
        elif txt is not None:
            for g_ in [x for x in ast.walk(txt) if isinstance(x, ast.comprehension) and isinstance(x.iter, ast.Name)]:
                queues.add(g_.iter.id)
    adds = [n for n in cfg.live for c in node_calls(n) if isinstance(c.func, ast.Attribute) and c.func.attr == "append" and norm(c.func.value) in queues]
    conds = [(cnd, "F") for cnd in cfg.conds() if isinstance(cnd.ast, ast.Call) and norm(cnd.ast.func).endswith("contains_import")]
    # the queue built by one comprehension whose filter is the negated contains_import() test
    comp_ok = False
    for q in queues:
        for d in defs_of(cfg, q):
            dv = def_value(d, q)
            if isinstance(dv, (ast.ListComp, ast.GeneratorExp, ast.SetComp)):
                tests = [t for g_ in dv.generators for t in g_.ifs]
                if any(isinstance(t, ast.UnaryOp) and isinstance(t.op, ast.Not) and isinstance(t.operand, ast.Call) and norm(t.operand.func).endswith("contains_import") for t in tests):
                    comp_ok = True
    if comp_ok and not adds:
        rep.ok("R-IMPORT-ONLY", f, f.node, "an import is queued only if contains_import() does not find it (comprehension filter)")
    elif adds and conds and all(edges_dominate(cfg, conds, a) for a in adds):
        rep.ok("R-IMPORT-ONLY", f, adds[0].ast, "an import is added only if contains_import() does not find it")
    else:
        rep.violation("R-IMPORT-ONLY", f, f.node, "ensure_import adds an import without checking that it is missing (duplicate import lines on every run)", construct="no-contains-check")


def import_scope(repo: Repo, rep):
    rep.rule(
        "R-IMPORT-SCOPE",
        "whether a test module already imports a name is decided from its module-level statements only: every loop / comprehension of _find_external.py "
        "that tests its variable with isinstance(.., ast.ImportFrom / ast.Import) iterates over `<tree>.body`.  An import inside a function, a class body or "
        "an `if TYPE_CHECKING:` block (found by ast.walk or a recursive search) does not bind the name for the snapshot() argument: the generated "
        "`external(...)` / `HasRepr(...)` raises NameError, and externals used by such a module are not counted as used",
    )
    m = repo.module("_find_external.py")
    n = 0
    for f in m.funcs.values():
        cfg = None
        for x in body_nodes(f.node):
            if not isinstance(x, (ast.For, ast.comprehension)) or not isinstance(x.target, ast.Name):
                continue
            v = x.target.id
            scope = x if isinstance(x, ast.For) else parent(x)
            tests = [c for c in ast.walk(scope) if isinstance(c, ast.Call) and norm(c.func) == "isinstance" and len(c.args) == 2 and norm(c.args[0]) == v and "Import" in norm(c.args[1])]
            if not tests:
                continue
            n += 1
            it = x.iter
            if isinstance(it, ast.Name):
                cfg = cfg or cfg_of(f)
                at = cfg.nodes_containing(it)
                if at:
                    it = resolve_alias(cfg, at[0], it)
            if isinstance(it, ast.Attribute) and it.attr == "body" and isinstance(it.value, ast.Name):
                rep.ok("R-IMPORT-SCOPE", f, tests[0], f"imports are looked for in `{norm(it)}` (module level)")
            else:
                rep.violation(
                    "R-IMPORT-SCOPE",
                    f,
                    tests[0],
                    f"{f.qualname} looks for imports in `{short(it, 40)}`, not in the module-level statements: an import local to a function / class / not-executed branch counts as "
                    "'the module imports it', the module-level import is not added and the generated external(...) / HasRepr(...) raises NameError",
                    construct=f"{f.qualname}:scan-scope",
                )
    rep.floor("R-IMPORT-SCOPE", "import scans in _find_external.py", n, 2)


PATH_NORMALISERS = ("realpath", "abspath", "normpath", "normcase", "resolve", "absolute", "expanduser", "relative_to", "relpath", "as_posix")


def import_position(repo: Repo, rep):
    rep.rule(
        "R-IMPORT-POSITION",
        "(1) the scan that decides whether a name is already imported looks at *every* module-level statement: its loop over `<tree>.body` is left only "
        "by the `return True` of a match (an import behind `pytest.importorskip(..)`, a docstring or an assignment is still an import; stopping at the first "
        "other statement adds the import a second time).  (2) a new import is inserted at the end of the *physical line* of the last leading import: "
        "the walk starts at `<last import>.last_token` (not its first token: a parenthesised import spans lines) and advances with next_token() in a "
        "loop while the next token ends on the same line (`import sys; sys.path.insert(..)` has more tokens on that line) - otherwise the text is "
        "inserted inside the import or inside the line and the file no longer parses (this edit is applied after the ast.parse check of the session)",
    )
    m = repo.module("_find_external.py")
    n = 0
    for f in m.funcs.values():
        cfg = None
        for lp in [x for x in body_nodes(f.node) if isinstance(x, ast.For) and isinstance(x.target, ast.Name)]:
            v = lp.target.id
            tests = [c for c in ast.walk(lp) if isinstance(c, ast.Call) and norm(c.func) == "isinstance" and len(c.args) == 2 and norm(c.args[0]) == v and "ImportFrom" in norm(c.args[1])]
            rets_true = [r for r in ast.walk(lp) if isinstance(r, ast.Return) and isinstance(r.value, ast.Constant) and r.value.value is True]
            if not tests or not rets_true:
                continue  # the other loop over the leading imports (ensure_import) stops at the first non-import on purpose
            n += 1
            leaves = [x for x in ast.walk(lp) if isinstance(x, (ast.Break,)) or (isinstance(x, ast.Return) and not (isinstance(x.value, ast.Constant) and x.value.value is True))]
            if leaves:
                rep.violation(
                    "R-IMPORT-POSITION",
                    f,
                    leaves[0],
                    f"{f.qualname} leaves its scan of the module-level statements early (`{short(leaves[0], 30)}`): an import that stands behind another statement is not seen, "
                    "the import is added a second time - a line of the test file outside any snapshot() changes although nothing there was approved",
                    construct=f"{f.qualname}:scan-left-early",
                )
            else:
                rep.ok("R-IMPORT-POSITION", f, lp, "every module-level statement is looked at")
    # the same scan written as `return any(<test> for node in <tree>.body)`: total by construction (no filter on the generator)
    for f in m.funcs.values():
        for c in [x for x in body_nodes(f.node) if isinstance(x, ast.Call) and norm(x.func) == "any" and x.args and isinstance(x.args[0], (ast.GeneratorExp, ast.ListComp))]:
            g_ = c.args[0].generators[0]
            if "ImportFrom" in norm(c.args[0].elt) and isinstance(g_.iter, ast.Attribute) and g_.iter.attr == "body":
                n += 1
                if g_.ifs:
                    rep.violation("R-IMPORT-POSITION", f, c, f"{f.qualname} filters the module-level statements it scans for an existing import (`{short(g_.ifs[0], 40)}`)", construct=f"{f.qualname}:scan-left-early")
                else:
                    rep.ok("R-IMPORT-POSITION", f, c, "every module-level statement is looked at (any() over the body)")
    rep.floor("R-IMPORT-POSITION", "import scans that answer True", n, 1)
    f = repo.func("_find_external.py::ensure_import")
    # (3) the header the import is put behind starts with the module docstring: the loop over the leading statements recognises a
    # string-constant expression statement and does not stop at it (an import in front of the docstring makes a following
    # `from __future__ import ...` a SyntaxError - the edit is applied after the ast.parse check)
    hdr = [lp for lp in body_nodes(f.node) if isinstance(lp, ast.For) and isinstance(lp.iter, ast.Attribute) and lp.iter.attr == "body" and any(isinstance(x, ast.Break) for x in ast.walk(lp))]
    # (4) the header ends at the first statement that is neither the docstring nor an import: the loop that remembers the last header
    # statement (`<last> = <loop variable>`) has a way out.  Without it the "last import" is the last import of the whole module - the new
    # import lands behind code that may already use the name (a module-level snapshot(HasRepr(..)): NameError on import)
    for lp in [x for x in body_nodes(f.node) if isinstance(x, ast.For) and isinstance(x.iter, ast.Attribute) and x.iter.attr == "body" and isinstance(x.target, ast.Name)]:
        remembers = [a_ for a_ in ast.walk(lp) if isinstance(a_, ast.Assign) and isinstance(a_.value, ast.Name) and a_.value.id == lp.target.id]
        if remembers and not any(isinstance(x, (ast.Break, ast.Return)) for x in ast.walk(lp)):
            rep.violation("R-IMPORT-POSITION", f, lp, f"ensure_import walks *all* module-level statements for the place of the new import (no `break` at the first statement that is not an import): the import is put behind the last import of the whole module, i.e. behind code that can already use the name at import time", construct="ensure_import:header-unbounded")
    if hdr:
        doc_ifs = [t for t in ast.walk(hdr[0]) if isinstance(t, ast.If) and "ast.Expr" in norm(t.test) and ("ast.Constant" in norm(t.test) or "ast.Str" in norm(t.test))]
        if doc_ifs and not any(isinstance(y, (ast.Break, ast.Return)) for t in doc_ifs for s_ in t.body for y in ast.walk(s_)):
            rep.ok("R-IMPORT-POSITION", f, hdr[0], "a leading docstring belongs to the header")
        else:
            rep.violation("R-IMPORT-POSITION", f, hdr[0], "ensure_import stops its search for the end of the header at a module docstring: the new import is inserted in front of it - the docstring is none any more and a following `from __future__ import ...` makes the rewritten file a SyntaxError", construct="ensure_import:docstring")
    cfg = cfg_of(f)
    ends = [(n_, c) for n_ in cfg.live for c in node_calls(n_) if norm(c.func) == "end_of" and c.args and isinstance(c.args[0], ast.Name)]
    rep.floor("R-IMPORT-POSITION", "end_of(<token>) positions in ensure_import", len(ends), 1)
    for n_, c in ends:
        tv = c.args[0].id
        ds = reaching_defs(cfg, n_, tv)
        starts = [d for d in ds if def_value(d, tv) is not None and isinstance(def_value(d, tv), ast.Attribute)]
        steps = [d for d in ds if d not in starts]
        ok_start = bool(starts) and all(def_value(d, tv).attr == "last_token" for d in starts)
        # the advancing definitions: `tok = nxt` with nxt = <x>.next_token(tok), inside a loop, under a same-line comparison
        ok_loop = False
        for d in steps:
            dv = def_value(d, tv)
            src = resolve_alias(cfg, d, dv) if isinstance(dv, ast.Name) else dv
            in_loop = any(isinstance(a_, (ast.While, ast.For)) for a_ in ancestors(d.ast)) if d.ast is not None else False
            same_line = any(isinstance(cn.ast, ast.Compare) and ".end[0]" in norm(cn.ast) or (isinstance(cn.ast, ast.Compare) and ".start[0]" in norm(cn.ast)) for cn, lab in dominating_edges(cfg, d) if cn.kind == "cond")
            if isinstance(src, ast.Call) and norm(src.func).endswith("next_token") and in_loop and same_line:
                ok_loop = True
        if not ok_start:
            bad = [d for d in starts if def_value(d, tv).attr != "last_token"]
            rep.violation(
                "R-IMPORT-POSITION",
                f,
                (bad[0].ast if bad else c),
                f"the walk to the end of the import's line starts at `{short(def_value(bad[0], tv), 40) if bad else '?'}`, not at the last token of the last leading import: for an import that spans several lines "
                "(parentheses, backslash) the new import is inserted inside it and the file no longer parses",
                construct="ensure_import:start-token",
            )
        elif not ok_loop:
            rep.violation(
                "R-IMPORT-POSITION",
                f,
                c,
                "the end of the import's physical line is not searched by a loop over next_token() that compares line numbers: with more tokens on that line (`import sys; sys.path.insert(0, ..)`, a comment) "
                "the new import is inserted in the middle of the line and the rest of the line becomes an indented fragment",
                construct="ensure_import:line-walk",
            )
        else:
            rep.ok("R-IMPORT-POSITION", f, c, "inserted behind the physical line of the last leading import")


def file_identity(repo: Repo, rep):
    rep.rule(
        "R-FILE-IDENTITY",
        "all edits of one test file meet in one SourceFile of the ChangeRecorder: the recorder keys its files by the file name it is handed, so every "
        "`filename` accessor of the source wrappers (Change.filename, SourceFile.filename) and every `filename=` argument of an edit call passes the "
        "name on as executing reported it - none of them applies a path normaliser (realpath / abspath / resolve / relative_to ...).  A second spelling of "
        "the same file gives it a second entry: fix_all() then writes the file twice, the second time applying positions of the original text to the "
        "already rewritten one (code outside the snapshot() argument is overwritten)",
    )

    def normaliser_in(e):
        for x in ast.walk(e):
            if isinstance(x, ast.Call):
                nm = norm(x.func).split(".")[-1]
                if nm in PATH_NORMALISERS:
                    return nm
        return None

    n_acc = 0
    for f in repo.pkg_funcs():
        if f.name != "filename" or f.module.rel.startswith("testing/") or f.module.rel == "_rewrite_code.py":
            continue
        n_acc += 1
        cfg = cfg_of(f)
        bad = None
        for r in cfg.stmts(ast.Return):
            v = r.ast.value
            if v is None:
                continue
            exprs = [v]
            for nm in [x for x in ast.walk(v) if isinstance(x, ast.Name)]:
                for d in reaching_defs(cfg, r, nm.id):
                    dv = def_value(d, nm.id)
                    if dv is not None:
                        exprs.append(dv)
            for e in exprs:
                bad = bad or normaliser_in(e)
        if bad:
            rep.violation("R-FILE-IDENTITY", f, f.node, f"{f.qualname} returns the file name through `{bad}()`: changes recorded through this accessor and changes recorded with the name executing reports land in two SourceFile entries when the two spellings differ (symlinked checkout, relative invocation): the file is rewritten twice", construct=f"{f.qualname}:normalised")
        else:
            rep.ok("R-FILE-IDENTITY", f, f.node, "the file name is passed on unchanged")
    rep.floor("R-FILE-IDENTITY", "filename accessors of the source wrappers", n_acc, 2)
    sites = [(f, c) for f, c in edit_calls(repo) if f.module.rel != "_rewrite_code.py"]
    for f, c in sites:
        e = next(k.value for k in c.keywords if k.arg == "filename")
        cfg = cfg_of(f)
        at = cfg.nodes_containing(c)
        exprs = [e]
        if isinstance(e, ast.Name) and at:
            for d in reaching_defs(cfg, at[0], e.id):
                dv = def_value(d, e.id)
                if dv is not None:
                    exprs.append(dv)
        bad = None
        for x in exprs:
            bad = bad or normaliser_in(x)
        if bad:
            rep.violation("R-FILE-IDENTITY", f, c, f"{f.qualname} records an edit under a file name normalised with `{bad}()`: a second spelling of the same file", construct=f"{f.qualname}:edit-normalised")
        else:
            rep.ok("R-FILE-IDENTITY", f, c, "edit recorded under the name as reported")
    rep.floor("R-FILE-IDENTITY", "edit call sites", len(sites), 4)


def io_newline(repo: Repo, rep):
    rep.rule(
        "R-IO-NEWLINE",
        "the text that the replacements are applied to is read in a newline-preserving way (bytes + decode, or newline='') when the result is written back "
        "in binary: a universal-newline text read feeding a binary write silently turns every CRLF of the file into LF",
    )
    f = repo.func("_rewrite_code.py::SourceFile.new_code")
    w = repo.func("_rewrite_code.py::SourceFile.rewrite")
    binary_write = any(isinstance(c, ast.Call) and norm(c.func) == "open" and len(c.args) > 1 and isinstance(c.args[1], ast.Constant) and "b" in str(c.args[1].value) for c in body_nodes(w.node)) or any(
        isinstance(c, ast.Call) and isinstance(c.func, ast.Attribute) and c.func.attr == "write_bytes" for c in body_nodes(w.node)
    )
    reads = [c for c in body_nodes(f.node) if isinstance(c, ast.Call) and isinstance(c.func, ast.Attribute) and c.func.attr in ("read_text", "read_bytes", "read")]
    rep.floor("R-IO-NEWLINE", "reads of the file in new_code", len(reads), 1)
    for c in reads:
        preserving = c.func.attr == "read_bytes" or any(k.arg == "newline" and isinstance(k.value, ast.Constant) and k.value.value == "" for k in c.keywords)
        if preserving or not binary_write:
            rep.ok("R-IO-NEWLINE", f, c, "newline-preserving read / matching write")
        else:
            rep.violation(
                "R-IO-NEWLINE",
                f,
                c,
                "SourceFile.new_code reads the file with universal newlines (read_text) while rewrite() writes the result in binary: a CRLF test file comes back with LF on every line although only a snapshot argument was changed",
                construct=f"{c.func.attr}:universal-newlines",  # the codec argument is no part of this finding
            )


def _utf8(e, reading: bool = False) -> bool:
    # a reader may use utf-8-sig (UTF-8 that drops a leading byte order mark); a writer using it would add a mark to every file
    ok = ("utf-8", "utf8", "utf-8-sig") if reading else ("utf-8", "utf8")
    return isinstance(e, ast.Constant) and isinstance(e.value, str) and e.value.lower().replace("_", "-") in ok


def io_encoding(repo: Repo, rep):
    rep.rule(
        "R-IO-ENCODING",
        "reader/writer agreement on the test file: every text-mode access of the file in _rewrite_code.py (read_text / write_text / open without 'b') names "
        "UTF-8 explicitly, and a binary access converts with str.encode()/bytes.decode() whose codec is the default or 'utf-8' - a locale-dependent default "
        "(write_text(text), open(f, 'w')) writes Latin-1 / fails with UnicodeEncodeError after truncating the file under a non-UTF-8 locale",
    )
    n = 0
    for f in repo.pkg_funcs():
        if f.module.rel != "_rewrite_code.py":
            continue
        for c in [x for x in body_nodes(f.node) if isinstance(x, ast.Call)]:
            name = c.func.attr if isinstance(c.func, ast.Attribute) else norm(c.func)
            kw = {k.arg: k.value for k in c.keywords if k.arg}
            if name in ("read_text", "write_text"):
                n += 1
                enc = kw.get("encoding")
                if enc is None:
                    pos = 0 if name == "read_text" else 1
                    enc = c.args[pos] if len(c.args) > pos else None
                if enc is not None and _utf8(enc, reading=name == "read_text"):
                    rep.ok("R-IO-ENCODING", f, c, f"{name} with explicit UTF-8")
                else:
                    rep.violation("R-IO-ENCODING", f, c, f"`{short(c, 60)}` in {f.qualname} uses the locale's default encoding: the file is read as UTF-8 elsewhere, so under a non-UTF-8 locale non-ASCII text is written in another encoding or the write fails after the file was truncated", construct=f"{f.qualname}:{name}")
            elif name == "open" and c.args:
                n += 1
                mode = c.args[1] if len(c.args) > 1 else kw.get("mode")
                m = mode.value if isinstance(mode, ast.Constant) else "r"
                if "b" in str(m):
                    rep.ok("R-IO-ENCODING", f, c, "binary open")
                elif _utf8(kw.get("encoding"), reading="r" in str(m) or str(m) == "") if kw.get("encoding") is not None else False:
                    rep.ok("R-IO-ENCODING", f, c, "text open with explicit UTF-8")
                else:
                    rep.violation("R-IO-ENCODING", f, c, f"`{short(c, 60)}` in {f.qualname} opens the test file in text mode without encoding='utf-8'", construct=f"{f.qualname}:open")
            elif name in ("encode", "decode") and isinstance(c.func, ast.Attribute):
                n += 1
                enc = c.args[0] if c.args else kw.get("encoding")
                if enc is None or _utf8(enc):
                    rep.ok("R-IO-ENCODING", f, c, f".{name}() with UTF-8")
                else:
                    rep.violation("R-IO-ENCODING", f, c, f"`{short(c, 60)}` converts the file content with a codec other than UTF-8", construct=f"{f.qualname}:{name}")
    rep.floor("R-IO-ENCODING", "file accesses / conversions in _rewrite_code.py", n, 3)


def source_bom(repo: Repo, rep):
    rep.rule(
        "R-SOURCE-BOM",
        "a test module may start with a UTF-8 byte order mark (Python accepts it; editors on Windows write it): text of a test file that reaches "
        "ast.parse(), the formatter or the line/offset table is decoded with `utf-8-sig`, because a str that still carries U+FEFF is a SyntaxError for "
        "ast.parse / black and shifts every column of the first line; and the writer puts the mark back when the file had one.  Otherwise every session "
        "that touches such a file ends with an internal error and nothing is written",
    )
    n = 0
    for f in repo.pkg_funcs():
        if f.module.rel not in ("_rewrite_code.py", "_find_external.py"):
            continue
        for c in [x for x in body_nodes(f.node) if isinstance(x, ast.Call) and isinstance(x.func, ast.Attribute) and x.func.attr == "read_text"]:
            kw = {k.arg: k.value for k in c.keywords if k.arg}
            enc = kw.get("encoding") or (c.args[0] if c.args else None)
            n += 1
            if isinstance(enc, ast.Constant) and str(enc.value).lower().replace("_", "-") == "utf-8-sig":
                rep.ok("R-SOURCE-BOM", f, c, "decoded with utf-8-sig")
            else:
                rep.violation(
                    "R-SOURCE-BOM",
                    f,
                    c,
                    f"`{short(c, 50)}` in {f.qualname} keeps a leading byte order mark in the text: ast.parse() / black reject U+FEFF, so a session over a test file saved as 'UTF-8 with BOM' ends with a SyntaxError "
                    "(internal error, nothing written) even when no snapshot changes",
                    construct=f"{f.qualname}:read_text",
                )
    rep.floor("R-SOURCE-BOM", "text reads of test files", n, 3)
    w = repo.func("_rewrite_code.py::SourceFile.rewrite")
    # the writer: rewrite() and the methods of its class it hands the writing to (`self._write_code(new_code, has_bom)`)
    writers, todo = [w], [w]
    while todo:
        g = todo.pop()
        for c in [x for x in body_nodes(g.node) if isinstance(x, ast.Call) and isinstance(x.func, ast.Attribute) and isinstance(x.func.value, ast.Name) and g.params and x.func.value.id == g.params[0]]:
            m_ = repo.lookup_method(w.cls, c.func.attr) if w.cls is not None else None
            if m_ is not None and m_ not in writers and m_.module is w.module:
                writers.append(m_)
                todo.append(m_)
    restored = None
    for g in writers:
        marks = [x for x in body_nodes(g.node) if (isinstance(x, ast.Attribute) and x.attr == "BOM_UTF8") or (isinstance(x, ast.Constant) and x.value in (b"\xef\xbb\xbf", "\ufeff"))]
        writes = [x for x in body_nodes(g.node) if isinstance(x, ast.Call) and isinstance(x.func, ast.Attribute) and x.func.attr in ("write", "write_bytes")]
        # a local that holds the mark (`prefix = codecs.BOM_UTF8` / `prefix = BOM if has_bom else b""`)
        carriers = {t.id for st in body_nodes(g.node) if isinstance(st, ast.Assign) and any(m is y for m in marks for y in ast.walk(st.value)) for t in st.targets if isinstance(t, ast.Name)}
        if writes and (any(any(m is y for y in ast.walk(wr)) for wr in writes for m in marks) or any(isinstance(y, ast.Name) and y.id in carriers for wr in writes for y in ast.walk(wr)) or (len(writes) > 1 and marks)):
            restored = (g, writes[0])
    if restored:
        rep.ok("R-SOURCE-BOM", restored[0], restored[1], "the writer restores the byte order mark of a file that had one")
    else:
        rep.violation("R-SOURCE-BOM", w, w.node, "SourceFile.rewrite never writes a byte order mark: a file saved as 'UTF-8 with BOM' silently loses it when a snapshot in it is rewritten", construct="rewrite:no-bom")


POSITION_MODULES = ("_rewrite_code.py", "_change.py", "_find_external.py", "_source_file.py")
_TAINT_THROUGH = {"len", "sum", "list", "tuple", "enumerate", "zip", "range", "sorted", "reversed", "min", "max", "iter", "next", "accumulate", "itertools.accumulate", "map", "filter", "itertools.chain", "chain", "islice", "itertools.islice", "dict", "set", "frozenset", "bisect", "bisect.bisect", "bisect_right", "bisect.bisect_right", "bisect_left", "bisect.bisect_left", "array", "deque"}


def line_model(repo: Repo, rep):
    rep.rule(
        "R-LINE-MODEL",
        "positions in a test file are (line, column) pairs of the Python tokenizer, whose lines end at \\n, \\r\\n and \\r only; `str.splitlines()` also splits at "
        "\\f, \\v, \\x1c-\\x1e, \\x85, U+2028 and U+2029.  In the modules that compute positions / offsets no value derived from `.splitlines()` (through "
        "indexing, len(), arithmetic, loops, comprehensions, container methods) reaches a return value, a position/offset argument, or a subscript index: "
        "a form feed in a licence header or a U+2028 inside a string literal shifts every later edit by a line.  Passing the lines to a diff/report "
        "function is not a position use",
    )
    n = 0
    # fields of a class that hold a value derived from splitlines() (a self-made line table filled in __init__ and read by another
    # method): class name -> field names; two rounds, the second sees the fields the first found
    tainted_fields: dict = {}
    work = [f for f in repo.pkg_funcs() if f.module.rel in POSITION_MODULES]
    for f in work + work:
        own_fields = tainted_fields.get(f.cls.name, set()) if f.cls is not None else set()
        selfname = f.params[0] if f.cls is not None and f.params else None
        srcs = [c for c in body_nodes(f.node) if isinstance(c, ast.Call) and isinstance(c.func, ast.Attribute) and c.func.attr == "splitlines"]
        fsrcs = [x for x in body_nodes(f.node) if isinstance(x, ast.Attribute) and isinstance(x.ctx, ast.Load) and isinstance(x.value, ast.Name) and x.value.id == selfname and x.attr in own_fields]
        if not srcs and not fsrcs:
            continue
        if (f.key, "done") in tainted_fields:
            continue
        tainted_names: set = set()
        tainted_nodes = {id(c) for c in srcs} | {id(c) for c in fsrcs}

        def tainted(e) -> bool:
            if id(e) in tainted_nodes:
                return True
            if isinstance(e, ast.Name):
                return e.id in tainted_names
            if isinstance(e, ast.Call):
                fn = norm(e.func)
                if fn in _TAINT_THROUGH:
                    return any(tainted(a) for a in e.args)
                if isinstance(e.func, ast.Attribute) and e.func.attr in ("copy", "index", "count", "__len__"):
                    return tainted(e.func.value)
                return False  # any other call (unified_diff, join, print...) consumes the lines as text
            if isinstance(e, (ast.Subscript,)):
                return tainted(e.value) or tainted(e.slice)
            if isinstance(e, ast.Attribute):
                return tainted(e.value)
            if isinstance(e, (ast.BinOp,)):
                return tainted(e.left) or tainted(e.right)
            if isinstance(e, ast.UnaryOp):
                return tainted(e.operand)
            if isinstance(e, (ast.Tuple, ast.List, ast.Set)):
                return any(tainted(x) for x in e.elts)
            if isinstance(e, ast.IfExp):
                return tainted(e.body) or tainted(e.orelse)
            if isinstance(e, ast.Starred):
                return tainted(e.value)
            if isinstance(e, (ast.ListComp, ast.GeneratorExp, ast.SetComp)):
                loc = set()
                for g in e.generators:
                    if tainted(g.iter):
                        loc |= {x.id for x in ast.walk(g.target) if isinstance(x, ast.Name)}
                old = set(tainted_names)
                tainted_names.update(loc)
                r = tainted(e.elt)
                tainted_names.clear()
                tainted_names.update(old)
                return r
            return False

        # fixed point over the function's assignments / loops / container updates
        for _ in range(6):
            before = len(tainted_names)
            for st in body_nodes(f.node):
                if isinstance(st, ast.Assign) and tainted(st.value):
                    for t in st.targets:
                        tainted_names |= {x.id for x in ast.walk(t) if isinstance(x, ast.Name) and isinstance(x.ctx, ast.Store)}
                if isinstance(st, ast.AugAssign) and tainted(st.value) and isinstance(st.target, ast.Name):
                    tainted_names.add(st.target.id)
                if isinstance(st, ast.For) and tainted(st.iter):
                    tainted_names |= {x.id for x in ast.walk(st.target) if isinstance(x, ast.Name)}
                if isinstance(st, ast.Call) and isinstance(st.func, ast.Attribute) and st.func.attr in ("append", "extend", "insert", "add") and isinstance(st.func.value, ast.Name) and any(tainted(a) for a in st.args):
                    tainted_names.add(st.func.value.id)
                # the same into a field of the object
                if f.cls is not None:
                    tgt = None
                    if isinstance(st, ast.Assign) and tainted(st.value):
                        tgt = [t for t in st.targets if isinstance(t, ast.Attribute) and isinstance(t.value, ast.Name) and t.value.id == selfname]
                    elif isinstance(st, ast.Call) and isinstance(st.func, ast.Attribute) and st.func.attr in ("append", "extend", "insert", "add") and isinstance(st.func.value, ast.Attribute) and isinstance(st.func.value.value, ast.Name) and st.func.value.value.id == selfname and any(tainted(a) for a in st.args):
                        tgt = [st.func.value]
                    for t in tgt or []:
                        tainted_fields.setdefault(f.cls.name, set()).add(t.attr)
            if len(tainted_names) == before:
                break
        sinks = []
        for st in body_nodes(f.node):
            if isinstance(st, ast.Return) and st.value is not None and tainted(st.value):
                sinks.append((st, "is returned"))
            if isinstance(st, ast.Subscript) and id(st) not in tainted_nodes and not tainted(st.value) and tainted(st.slice):
                sinks.append((st, "indexes another sequence"))
            if isinstance(st, ast.Call) and id(st) not in tainted_nodes:
                fn = norm(st.func)
                last = fn.split(".")[-1]
                if (last in ("SourcePosition", "SourceRange", "insert", "replace", "line_to_offset", "offset_to_line") or "offset" in last.lower()) and (any(tainted(a) for a in st.args) or any(tainted(k.value) for k in st.keywords)):
                    sinks.append((st, f"is handed to {fn}()"))
        if srcs or sinks:
            tainted_fields[(f.key, "done")] = True
        if fsrcs and not srcs and sinks:
            st, how = sinks[0]
            rep.violation(
                "R-LINE-MODEL",
                f,
                fsrcs[0],
                f"{f.qualname}: `{norm(fsrcs[0])}` holds a table computed from str.splitlines() and {how} (line {getattr(st, 'lineno', 0)}): a self-made line table has more line boundaries than the tokenizer "
                "that produced the (line, column) positions - an edit lands on the wrong line when the file contains \\f, \\x1c-\\x1e, \\x85, U+2028 or U+2029",
                construct=f"{f.qualname}:splitlines-field",
            )
        for c in srcs:
            n += 1
            if sinks:
                st, how = sinks[0]
                rep.violation(
                    "R-LINE-MODEL",
                    f,
                    c,
                    f"{f.qualname}: a value computed from `{short(c, 50)}` {how} (line {getattr(st, 'lineno', 0)}): str.splitlines() has more line boundaries than the tokenizer that produced "
                    "the (line, column) positions, so an edit lands on the wrong line when the file contains \\f, \\x1c-\\x1e, \\x85, U+2028 or U+2029",
                    construct=f"{f.qualname}:splitlines",
                )
            else:
                rep.ok("R-LINE-MODEL", f, c, "splitlines() result is used as text only (diff / report)")
    rep.count("splitlines_calls_in_position_modules", n)
    # the conversion itself: SourcePosition.offset must delegate to a line_to_offset of the line-number table it is given
    off = repo.find_func("_rewrite_code.py", "SourcePosition.offset")
    if off is not None:
        rets = [r for r in body_nodes(off.node) if isinstance(r, ast.Return) and r.value is not None]
        good = rets and all(isinstance(r.value, ast.Call) and isinstance(r.value.func, ast.Attribute) and r.value.func.attr == "line_to_offset" for r in rets)
        if good:
            rep.ok("R-LINE-MODEL", off, rets[0], "offsets come from LineNumbers.line_to_offset (asttokens' own line table)")


def element_parens(repo: Repo, rep):
    rep.rule(
        "R-ELEMENT-PARENS",
        "the token range of a container element that apply_all hands to generic_sequence_update includes the parentheses around the element: every helper "
        "that computes such a range (the nested *_token_range functions referenced in the element list) passes it through the parenthesis-expanding "
        "function of _change.py (the one that walks prev_token / next_token while they are `(` and `)`), or generic_sequence_update does so itself.  "
        "asttokens gives `1` for the element `(1)` and the string tokens for a string black wrapped in parentheses; deleting such an element or inserting "
        "next to it would leave one parenthesis behind (`[(1), (2), (4)]` -> `[(1, 3]`, SyntaxError at session end)",
    )
    m = repo.module("_change.py")
    expanders = []
    for g in repo.pkg_funcs():
        if g.module is not m:
            continue
        calls = {c.func.attr for c in body_nodes(g.node) if isinstance(c, ast.Call) and isinstance(c.func, ast.Attribute)}
        consts = {x.value for x in body_nodes(g.node) if isinstance(x, ast.Constant) and isinstance(x.value, str)}
        if _is_paren_expander(g):
            expanders.append(g)
    f = repo.func("_change.py::apply_all")
    gsu = repo.find_func("_change.py", "generic_sequence_update")
    names = {g.name for g in expanders}
    central = gsu is not None and any(isinstance(c, ast.Call) and norm(c.func).split(".")[-1] in names for c in body_nodes(gsu.node))
    helpers = [g for g in repo.pkg_funcs() if (g.parent is not None and g.parent == f) or (g.module is m and g.parent is None and g.cls is None and g is not f and g not in expanders)]
    used = set()
    for c in [x for x in body_nodes(f.node) if isinstance(x, ast.Call) and norm(x.func).endswith("generic_sequence_update") and len(x.args) > 3]:
        for x in ast.walk(c.args[3]):
            if isinstance(x, ast.Call) and isinstance(x.func, ast.Name):
                used.add(x.func.id)
    n = 0
    for g in helpers:
        if g.name not in used:
            continue
        n += 1
        exp_calls = [c for c in body_nodes(g.node) if isinstance(c, ast.Call) and norm(c.func).split(".")[-1] in names]
        mixed = None
        for c in exp_calls:
            rng = next((a for a in c.args if isinstance(a, ast.Tuple) and len(a.elts) == 2), None)
            if rng is not None:
                roots = [norm(x.value) if isinstance(x, ast.Subscript) else norm(x) for x in rng.elts]
                if roots[0] != roots[1]:
                    mixed = c
        if mixed is not None:
            rep.violation("R-ELEMENT-PARENS", g, mixed, f"{g.qualname} extends one range that starts in one node and ends in another (`{short(mixed, 60)}`): the expansion only happens when BOTH ends are next to parentheses, so an entry whose key alone or value alone is parenthesised keeps a dangling parenthesis when its neighbour is deleted / something is inserted next to it", construct=f"{g.name}:mixed-range")
        elif central or exp_calls:
            rep.ok("R-ELEMENT-PARENS", g, g.node, f"{g.name}: range extended over enclosing parentheses")
        else:
            rep.violation("R-ELEMENT-PARENS", g, g.node, f"{g.qualname} returns the bare token range of the element: parentheses around it (`(1)`, a wrapped string) stay behind when the element is deleted or something is inserted next to it - unbalanced code, SyntaxError at session end", construct=f"{g.name}:no-parens")
    rep.floor("R-ELEMENT-PARENS", "element range helpers of apply_all", n, 3)
    if not expanders:
        rep.violation("R-ELEMENT-PARENS", f, f.node, "_change.py has no function that extends a token range over enclosing parentheses", construct="no-expander")
