"""C12 - every string is written as a literal that reads back identically."""
from __future__ import annotations

import ast
from typing import List

from ..callgraph import callgraph
from ..cfg import cfg_of, dominating_edges, edges_dominate, node_calls, nodes_dominate, reach
from ..defuse import def_value, derives_from, reaching_defs, resolve_alias
from ..esp import UNKNOWN, run_function
from ..model import Func, Repo, body_nodes, norm, short
from .common import stale_bindings, trace_str


def check(repo: Repo, rep, tier):
    rep.not_decided = "the escaping of _str_literal_helper per code point: it is delegated to the run-time self-check whose presence on every path is what is decided here"
    string_tokens(repo, rep)
    fmt_taint_fragment(repo, rep)
    utf8(repo, rep)
    escape_once(repo, rep)
    escape_nonprintable(repo, rep)
    codegen_text(repo, rep)
    from .C01 import repr_parse

    repr_parse(repo, rep)
    from .C16 import no_nondet

    no_nondet(repo, rep)
    from .C03 import io_encoding

    io_encoding(repo, rep)
    from .C03 import char_units, range_prov, line_model, element_parens

    line_model(repo, rep)
    # a string that black wrapped in parentheses is one element: an edit next to it must not cut the parentheses apart
    element_parens(repo, rep)

    # the literal has to land on the characters of the old one: positions in character units
    range_prov(repo, rep)
    char_units(repo, rep)
    stale_bindings(repo, rep, {"config"}, "e.g. a copied `config` never sees the format-command read in pytest_configure, so code fragments are piped through the wrong formatter path")
    from .C15 import fmt_degrade

    fmt_degrade(repo, rep)


def string_tokens(repo: Repo, rep):
    rep.rule(
        "R-STRING-TOKENS",
        "in value_to_token every token returned by the string mapper either carries tok.string unchanged (Python's own repr) or a rewritten literal whose "
        "return lies on the true edge of `ast.literal_eval(<rewritten>) == <literal_eval of the original token>`; the rewriting branch is entered only for "
        "isinstance(value, str); every generated token goes through the mapper",
    )
    outer = repo.func("_utils.py::value_to_token")
    # the string mapper is the function every token of the returned comprehension is sent through (nested or module level)
    # the string mapper is the function of _utils.py (nested in value_to_token or at module level) that rewrites a token with triple_quote()
    cands = [g for g in outer.module.funcs.values() if g.name != "triple_quote" and g.params and any(isinstance(c, ast.Call) and norm(c.func).endswith("triple_quote") for c in body_nodes(g.node)) and g.key != outer.key]
    f = cands[0] if len(cands) == 1 else None
    if f is None:
        rep.undecided("R-STRING-TOKENS", f"string mapper not found: expected one function of _utils.py that rewrites a token with triple_quote(), found {[g.qualname for g in cands]}")
        return
    tok = ("param", f.params[0])
    orig = ("attr", tok, "string")
    outs, _ = run_function(repo, f, UNKNOWN)
    rets = [o for o in outs if o.kind == "ret"]
    n = 0
    bad = False
    for o in rets:
        n += 1
        r = o.ret
        if not (isinstance(r, tuple) and r[0] in ("new", "call") and len(r) > 2 and len(r[2]) >= 2):
            rep.violation("R-STRING-TOKENS", f, f.node, f"the string mapper returns {short(str(r), 60)}, not a (type, string) token", trace_str(o), construct="shape")
            bad = True
            continue
        s = r[2][1]
        if s == orig:
            continue
        # rewritten literal: needs the literal_eval self check on this path
        def is_le(t, arg):
            return isinstance(t, tuple) and t[0] in ("mcall", "call") and "literal_eval" in str(t[2] if t[0] == "mcall" else t[1]) and (t[3] if t[0] == "mcall" else t[2]) and (t[3] if t[0] == "mcall" else t[2])[0] == arg

        checked = False
        decoded = None
        for t, v in o.p.assume:
            if isinstance(t, tuple) and t[0] == "cmp" and t[1] in ("==", "!=") and ((t[1] == "==") == bool(v)):
                for a, b in ((t[2], t[3]), (t[3], t[2])):
                    if is_le(a, s) and (is_le(b, orig) or b == ("localdecoded",)):
                        checked = True
        is_str = any(isinstance(t, tuple) and t[0] == "call" and t[1] == "isinstance" and len(t[2]) == 2 and is_le(t[2][0], orig) and t[2][1] == ("name", "str") and v is True for t, v in o.p.assume)
        if not checked:
            rep.violation(
                "R-STRING-TOKENS",
                f,
                f.node,
                f"a rewritten string literal ({short(str(s), 50)}) is returned without the `literal_eval(rewritten) == original` self-check on that path: a wrong escape is written into the test file silently",
                trace_str(o),
                construct="unchecked-literal",
            )
            bad = True
        elif not is_str:
            rep.violation("R-STRING-TOKENS", f, f.node, "the triple-quote rewriting can be applied to a value that is not a str (bytes literals would lose their b prefix / be decoded)", trace_str(o), construct="non-str")
            bad = True
    if not bad:
        rep.ok("R-STRING-TOKENS", f, f.node, f"{n} returning paths: original token or self-checked rewritten literal")
    rep.floor("R-STRING-TOKENS", "returning paths of the string mapper", n, 2)
    # all tokens go through the mapper
    rets = [r for r in body_nodes(outer.node) if isinstance(r, ast.Return) and r.value is not None]
    ok = False
    for r in rets:
        v = r.value
        if isinstance(v, (ast.ListComp, ast.GeneratorExp)) and isinstance(v.elt, ast.Call) and isinstance(v.elt.func, ast.Name) and v.elt.func.id == f.name:
            ok = True
        if isinstance(v, ast.Call) and any(isinstance(x, ast.Name) and x.id == f.name for x in ast.walk(v)):
            ok = True
    if ok:
        rep.ok("R-STRING-TOKENS", outer, rets[0], "every generated token is mapped")
    else:
        rep.violation("R-STRING-TOKENS", outer, outer.node, "value_to_token no longer sends every token through the string mapper", construct="unmapped")


def _is_ast_compare(repo: Repo, fn: Func) -> bool:
    """Does this helper answer truthy only through a comparison of ast.dump(ast.parse(x)) / literal_eval / token lists of its two arguments?
    Every `return` must be that comparison or a constant False / None: a shortcut such as `if a.split() == b.split(): return True` in
    front of the parse accepts text whose string literals differ in their whitespace."""
    found = False
    for r in body_nodes(fn.node):
        if isinstance(r, ast.Return):
            v = r.value
            if v is None or (isinstance(v, ast.Constant) and not v.value):
                continue
            ok = False
            for x in ast.walk(v):
                if isinstance(x, ast.Compare) and len(x.ops) == 1 and isinstance(x.ops[0], (ast.Eq, ast.NotEq)):
                    t = norm(x)
                    # the two dumps held in locals: `dump_a = ast.dump(ast.parse(a))` ... `return dump_a == dump_b`
                    sides = []
                    for side in (x.left, x.comparators[0]):
                        if isinstance(side, ast.Name):
                            vs = [a_.value for a_ in body_nodes(fn.node) if isinstance(a_, ast.Assign) and any(isinstance(t_, ast.Name) and t_.id == side.id for t_ in a_.targets)]
                            sides.append(norm(vs[0]) if len(vs) == 1 else norm(side))
                        else:
                            sides.append(norm(side))
                    if all(("ast.dump" in s_ and "parse" in s_) or "literal_eval" in s_ for s_ in sides):
                        ok = True
                    if ("ast.dump" in t and "parse" in t) or "literal_eval" in t or "_token_of" in t or "value_to_token" in t:
                        ok = True
            if isinstance(v, ast.Name):
                # the comparison kept in a local
                for a_ in body_nodes(fn.node):
                    if isinstance(a_, ast.Assign) and any(isinstance(t_, ast.Name) and t_.id == v.id for t_ in a_.targets):
                        t = norm(a_.value)
                        if isinstance(a_.value, ast.Constant) and not a_.value.value:
                            continue
                        if not (isinstance(a_.value, ast.Compare) and (("ast.dump" in t and "parse" in t) or "literal_eval" in t)):
                            return False
                        ok = True
            if not ok:
                return False
            found = True
    return found


def fmt_taint_fragment(repo: Repo, rep):
    rep.rule(
        "R-FMT-TAINT/fragment",
        "formatter output that becomes the code of a *fragment* (an expression handed to format_code, which has module semantics: black treats a lone "
        "leading string as a docstring and strips it) is used only after a sanitiser - equality of ast.dump(ast.parse(.)) / literal_eval / token lists "
        "between input and output - whose failing edge falls back to the unformatted text",
    )
    m = repo.module("_source_file.py")
    cg = callgraph(repo)
    n = 0
    for f in m.funcs.values():
        cfg = cfg_of(f)
        fcalls = [(nd, c) for nd in cfg.live for c in node_calls(nd) if any(t.key == "_format.py::format_code" for t in cg.call_targets(f, c)[0])]
        for nd, c in fcalls:
            n += 1
            # returns that carry the formatter's output
            tainted_rets = []
            for r in cfg.stmts(ast.Return):
                if r.ast.value is None:
                    continue
                if any(x is c for x in ast.walk(r.ast.value)) or derives_from(cfg, r, r.ast.value, lambda x: x is c):
                    tainted_rets.append(r)
            if not tainted_rets:
                rep.ok("R-FMT-TAINT/fragment", f, c, "formatter output is not returned")
                continue
            for r in tainted_rets:
                san = []
                for cnd in cfg.conds():
                    e = cnd.ast
                    lab = None
                    if isinstance(e, ast.Compare) and len(e.ops) == 1 and isinstance(e.ops[0], (ast.Eq, ast.NotEq)):
                        t = norm(e)
                        if ("ast.dump" in t and "parse" in t) or "literal_eval" in t:
                            lab = "T" if isinstance(e.ops[0], ast.Eq) else "F"
                    if isinstance(e, ast.Call):
                        tg, _ = cg.call_targets(f, e)
                        if any(_is_ast_compare(repo, t) for t in tg) and len(e.args) >= 2:
                            lab = "T"
                    if isinstance(e, ast.Name):
                        # `same = ast.dump(parse(a)) == ast.dump(parse(b))` (False in the SyntaxError handler), then `if not same:`
                        vals = [def_value(d, e.id) for d in reaching_defs(cfg, cnd, e.id)]
                        cmp_ = [v for v in vals if isinstance(v, ast.Compare) and len(v.ops) == 1 and isinstance(v.ops[0], ast.Eq) and (("ast.dump" in norm(v) and "parse" in norm(v)) or "literal_eval" in norm(v))]
                        rest = [v for v in vals if v not in cmp_]
                        if cmp_ and all(isinstance(v, ast.Constant) and v.value is False for v in rest):
                            lab = "T"
                    if lab:
                        san.append((cnd, lab))
                if san and edges_dominate(cfg, san, r):
                    rep.ok("R-FMT-TAINT/fragment", f, r.ast, "formatted fragment returned only after the AST-equality check")
                else:
                    rep.violation(
                        "R-FMT-TAINT/fragment",
                        f,
                        r.ast,
                        f"{f.qualname} returns the formatter's output for an expression fragment unchecked: black formats it as a module and strips a lone string like a docstring, so `assert \"  a  \" == snapshot()` + create writes `snapshot(\"a\")`",
                        construct="fragment-unvalidated",
                    )
        # the fall-back of the sanitiser is the *input*: every return of such a function that does not carry the formatter's output
        # returns the text parameter itself (not a second, hand-made rendering of the value)
        if fcalls and f.params:
            tp = [p_ for p_ in f.params if p_ not in ("self", "cls")]
            tp = tp[0] if tp else None
            for r in cfg.stmts(ast.Return):
                v_ = r.ast.value
                if v_ is None or any(x is c_ for _, c_ in fcalls for x in ast.walk(v_)) or any(derives_from(cfg, r, v_, (lambda x, c_=c_: x is c_)) for _, c_ in fcalls):
                    continue
                if isinstance(v_, ast.Name) and v_.id == tp:
                    continue
                rep.violation(
                    "R-FMT-TAINT/fragment",
                    f,
                    r.ast,
                    f"{f.qualname} falls back to `{short(v_, 50)}` instead of the unformatted text it was given: a second rendering of the value (json.dumps, repr, ...) has its own escaping rules - "
                    "characters outside the BMP come back as lone surrogates, the literal no longer evaluates to the value",
                    construct="fallback-not-input",
                )
    rep.floor("R-FMT-TAINT/fragment", "format_code call sites in _source_file.py", n, 1)


def codegen_text(repo: Repo, rep):
    rep.rule(
        "R-CODEGEN-TEXT",
        "the text of a generated value is the untokenised token list, formatted - and nothing else: in the function of _source_file.py that turns tokens "
        "into code, untokenize() receives the token parameter itself (a token filter such as normalize() drops the comma of `(3,)`: the tuple becomes an "
        "int) and the result passes only through the fragment formatter and strip-like methods (a textual replace / re.sub on generated code also rewrites "
        "the *inside* of string literals: six quotes in a row are data in `a,\"\"\"\"\"\",b`)",
    )
    m = repo.module("_source_file.py")
    n = 0
    for f in m.funcs.values():
        un = [c for c in body_nodes(f.node) if isinstance(c, ast.Call) and norm(c.func).endswith("untokenize")]
        if not un:
            continue
        tparams = [p_ for p_ in f.params if p_ not in ("self", "cls")]
        for c in un:
            n += 1
            a0 = c.args[0] if c.args else None
            if not (isinstance(a0, ast.Name) and a0.id in tparams):
                rep.violation("R-CODEGEN-TEXT", f, c, f"`{short(c, 60)}`: the tokens are filtered / rewritten before they become text: normalisations meant for *comparing* token lists (dropping trailing commas, merging strings) change the value when applied to generated code - `(3,)` is written as `(3)`", construct=f"{f.qualname}:untokenize-arg")
            else:
                rep.ok("R-CODEGEN-TEXT", f, c, "untokenize(<the tokens given>)")
        cfg = cfg_of(f)
        for r in cfg.stmts(ast.Return):
            v_ = r.ast.value
            if v_ is None:
                continue
            exprs = [v_]
            for nm in [x for x in ast.walk(v_) if isinstance(x, ast.Name)]:
                for d in reaching_defs(cfg, r, nm.id):
                    dv = def_value(d, nm.id)
                    if dv is not None:
                        exprs.append(dv)
            if not any(any(x is c for x in ast.walk(e_)) for e_ in exprs for c in un):
                continue
            for e_ in exprs:
                for x in ast.walk(e_):
                    if isinstance(x, ast.Call) and isinstance(x.func, ast.Attribute) and x.func.attr in ("replace", "translate", "sub", "subn", "format", "removeprefix", "removesuffix", "expandtabs", "lower", "upper") and not any(x is c for c in un):
                        rep.violation("R-CODEGEN-TEXT", f, x, f"{f.qualname} post-processes the generated code with `{short(x, 50)}`: a textual substitution cannot tell code from the contents of a string literal, so values that contain the pattern are written damaged", construct=f"{f.qualname}:text-surgery")
    rep.floor("R-CODEGEN-TEXT", "untokenize calls in _source_file.py", n, 1)


def utf8(repo: Repo, rep):
    rep.rule(
        "R-UTF8",
        "text exchanged with the format-command is converted explicitly with UTF-8 on both sides (bytes in, bytes out): no text=True / universal_newlines / "
        "locale-default encoding, no errors='replace' - under a non-UTF-8 locale every non-ASCII character of the file would be replaced silently",
    )
    fm = repo.module("_format.py")
    f = repo.func("_format.py::format_code")
    runs = []
    for g in fm.funcs.values():
        for c in body_nodes(g.node):
            if isinstance(c, ast.Call) and norm(c.func) in ("sp.run", "subprocess.run", "sp.Popen", "subprocess.Popen", "sp.check_output", "subprocess.check_output"):
                runs.append((g, c))
    rep.floor("R-UTF8", "subprocess calls in _format.py", len(runs), 1)
    for f, c in runs:
        kws = {k.arg: k.value for k in c.keywords if k.arg}
        textmode = any(k in kws and not (isinstance(kws[k], ast.Constant) and kws[k].value in (False, None)) for k in ("text", "universal_newlines"))
        enc = kws.get("encoding")
        lossy = "errors" in kws and isinstance(kws["errors"], ast.Constant) and kws["errors"].value in ("replace", "ignore")
        inp = kws.get("input")
        if isinstance(inp, ast.Name):
            # the bytes held in a local: `input_bytes = text.encode("utf-8")`
            cfg_f = cfg_of(f)
            at = cfg_f.nodes_containing(c)
            if at:
                inp = resolve_alias(cfg_f, at[0], inp)
        explicit_in = inp is None or (isinstance(inp, ast.Call) and isinstance(inp.func, ast.Attribute) and inp.func.attr == "encode" and inp.args and isinstance(inp.args[0], ast.Constant) and str(inp.args[0].value).lower().replace("-", "") == "utf8")
        if lossy or (textmode and not (isinstance(enc, ast.Constant) and str(enc.value).lower().replace("-", "") == "utf8")) or (not textmode and not explicit_in):
            rep.violation("R-UTF8", f, c, "the format-command is fed/read with a locale-dependent or lossy text conversion instead of explicit UTF-8 bytes: under LC_ALL=C every non-ASCII character of the test file is written back as `?`", construct="subprocess-encoding")
        else:
            rep.ok("R-UTF8", f, c, "UTF-8 bytes in")
    decs = [(g, c) for g in fm.funcs.values() for c in body_nodes(g.node) if isinstance(c, ast.Call) and isinstance(c.func, ast.Attribute) and c.func.attr == "decode" and ("stdout" in norm(c.func.value))]
    for f, c in decs:
        ok = c.args and isinstance(c.args[0], ast.Constant) and str(c.args[0].value).lower().replace("-", "") == "utf8" and not any(k.arg == "errors" for k in c.keywords)
        if ok:
            rep.ok("R-UTF8", f, c, "UTF-8 bytes out")
        else:
            rep.violation("R-UTF8", f, c, f"`{short(c, 40)}` decodes the formatter's output without an explicit strict UTF-8", construct="decode:" + norm(c)[:40])


def _is_backslash_prefix(e: ast.AST):
    """`"\\" + X` (or `... + "\\" + X`): returns X."""
    if isinstance(e, ast.BinOp) and isinstance(e.op, ast.Add):
        l = e.left
        if isinstance(l, ast.BinOp) and isinstance(l.op, ast.Add):
            l = l.right
        if isinstance(l, ast.Constant) and l.value == "\\":
            return e.right
    if isinstance(e, ast.JoinedStr) and len(e.values) >= 2 and isinstance(e.values[-2], ast.Constant) and str(e.values[-2].value).endswith("\\") and isinstance(e.values[-1], ast.FormattedValue):
        return e.values[-1].value
    return None


def escape_once(repo: Repo, rep):
    rep.rule(
        "R-ESCAPE-ONCE",
        "in the string-literal helper a character gets at most one escaping backslash: where a nested per-character escape prepends a backslash to the "
        "quote character held in a variable V of the helper (`if c == V: return '\\\\' + c`), the later statement that prepends a backslash to the *last* "
        "character (`s[:-1] + '\\\\' + s[-1]`) is dominated by a condition that mentions V - otherwise a string that ends in V is escaped twice (`\\\\\"`), "
        "the literal ends in a backslash plus an unescaped quote and no longer evaluates to the value",
    )
    n = 0
    # (a) per-character escapes of a quote variable: function -> {name of the variable it compares the character with}
    escapers = {}
    for g in repo.pkg_funcs():
        if g.module.rel != "_utils.py" or not g.params:
            continue
        c = g.params[0]
        gcfg = cfg_of(g)
        for r in gcfg.stmts(ast.Return):
            x = _is_backslash_prefix(r.ast.value) if r.ast.value is not None else None
            if isinstance(x, ast.Name) and x.id == c:
                for cond, lab in dominating_edges(gcfg, r):
                    t = cond.ast
                    if lab == "T" and isinstance(t, ast.Compare) and len(t.ops) == 1 and isinstance(t.ops[0], ast.Eq):
                        for a_, b_ in ((t.left, t.comparators[0]), (t.comparators[0], t.left)):
                            if isinstance(a_, ast.Name) and a_.id == c and isinstance(b_, ast.Name) and b_.id != c:
                                escapers.setdefault(g.key, (g, set()))[1].add(b_.id)
    # the functions that use such an escaper, and under which local name they hold the quote variable
    users = {}
    for g, vs in escapers.values():
        for v in vs:
            if g.parent is not None and v not in g.params:
                users.setdefault(g.parent.key, (g.parent, set()))[1].add(v)  # closure variable of the enclosing function
            elif v in g.params:
                idx = g.params.index(v)
                for f in repo.pkg_funcs():
                    if f.module.rel != "_utils.py":
                        continue
                    for call in [x for x in ast.walk(f.node) if isinstance(x, ast.Call) and isinstance(x.func, ast.Name) and x.func.id == g.name]:
                        arg = call.args[idx] if len(call.args) > idx else next((k.value for k in call.keywords if k.arg == v), None)
                        if isinstance(arg, ast.Name):
                            users.setdefault(f.key, (f, set()))[1].add(arg.id)
    for f, quote_vars in users.values():
        cfg = cfg_of(f)
        # (b) escape of the last character
        for a in cfg.stmts(ast.Assign):
            x = _is_backslash_prefix(a.ast.value)
            if isinstance(x, ast.Name):
                # the last character held in a local: `last = s[-1]` ... `s[:-1] + "\\" + last`
                x = resolve_alias(cfg, a, x)
            if not (isinstance(x, ast.Subscript) and isinstance(x.slice, ast.UnaryOp) and isinstance(x.slice.op, ast.USub)):
                continue
            n += 1
            mentions = [c for c in cfg.conds() if any(isinstance(y, ast.Name) and y.id in quote_vars for y in ast.walk(c.ast))]
            if mentions and nodes_dominate(cfg, mentions, a):
                rep.ok("R-ESCAPE-ONCE", f, a.ast, f"the final-quote escape is conditioned on `{short(mentions[0].ast, 50)}`")
            else:
                rep.violation(
                    "R-ESCAPE-ONCE",
                    f,
                    a.ast,
                    f"`{short(a.ast, 60)}` escapes the last character although the per-character escape may already have escaped it (it equals `{sorted(quote_vars)[0]}`): "
                    "a string containing both triple-quote kinds that ends in that quote character gets `\\\\\"`, fails the literal_eval self-check and aborts the session with an AssertionError",
                    construct="final-quote",
                )
    rep.count("final_quote_escapes", n)
    rep.floor("R-ESCAPE-ONCE", "escapes of the final character in the string-literal helper", n, 1)


def escape_nonprintable(repo: Repo, rep):
    rep.rule(
        "R-ESCAPE-NONPRINTABLE",
        "the per-character escape of the string-literal helper turns every character for which `str.isprintable()` is false (apart from the \\n / \\t it "
        "keeps on purpose) into its unicode_escape form: the branch that returns `c.encode('unicode_escape')` is taken on the `not c.isprintable()` edge.  "
        "isprintable() is Python's own definition of what repr() escapes; a hand-made category list leaves out lone surrogates (Cs), unassigned (Cn) or "
        "format characters, which are then written raw - a lone surrogate cannot even be encoded when the file is written",
    )
    n = 0
    for g in repo.pkg_funcs():
        if g.module.rel != "_utils.py" or not g.params:
            continue
        c = g.params[0]
        gcfg = cfg_of(g)
        escs = [r for r in gcfg.stmts(ast.Return) if r.ast.value is not None and "unicode_escape" in norm(r.ast.value)]
        for r in escs:
            n += 1
            conds = [cn for cn in gcfg.conds() if isinstance(cn.ast, ast.Call) and isinstance(cn.ast.func, ast.Attribute) and cn.ast.func.attr == "isprintable" and norm(cn.ast.func.value) == c]
            # the escape is reached on the F edge (not printable) of such a test
            good = any(r in reach(gcfg, [b for b, l in cn.succ if l == "F"]) for cn in conds)
            # and no printable-edge-only path avoids it for a non-printable character: the T edge must not be the only way
            if good:
                rep.ok("R-ESCAPE-NONPRINTABLE", g, r.ast, "non-printable characters are escaped (isprintable)")
            else:
                rep.violation("R-ESCAPE-NONPRINTABLE", g, r.ast, f"{g.qualname} no longer escapes on `not {c}.isprintable()`: code points outside its own list (lone surrogates, unassigned, format characters) are written raw into the literal - the file cannot be encoded / the literal does not read back", construct=f"{g.qualname}:isprintable")
    rep.floor("R-ESCAPE-NONPRINTABLE", "unicode_escape returns in the string helper", n, 1)
