"""C06 - without approval, snapshot(x) behaves like x."""
from __future__ import annotations

import ast

from ..esp import NEW, OLD, SELF, UNDEF, UNKNOWN, run_method, val_str, valuations
from ..cfg import cfg_of, dominating_edges
from ..model import Repo, body_nodes, norm
from .C04 import inactive
from .common import DUNDER_SEMANTICS, dispatch_ops, expected_cmp, generic_class, op_table, table_stats, trace_str, undecided_class

DUNDERS = ("__eq__", "__le__", "__ge__", "__contains__", "__getitem__")

from .C14 import site_key

from .C10 import items_total, reeval_refresh


def check(repo: Repo, rep, tier):
    rep.not_decided = "what the user's own __eq__/ordering returns; values that change between evaluations (outside the property's scope)"
    transparent(repo, rep)
    inactive(repo, rep)
    one_op(repo, rep)
    forward_eq(repo, rep)
    site_key(repo, rep)
    reeval_refresh(repo, rep)
    items_total(repo, rep)
    argument_kinds(repo, rep)
    adapter_dispatch(repo, rep)
    from .C04 import configure
    from .C10 import map_total

    map_total(repo, rep)
    configure(repo, rep)
    from .C14 import reeval_raises

    reeval_raises(repo, rep)
    from .C14 import reeval_type

    reeval_type(repo, rep)
    from .C18 import node_kind_tested

    node_kind_tested(repo, rep)
    from .C10 import is_unhashable

    is_unhashable(repo, rep)
    from .C04 import xfail, ci_detect

    xfail(repo, rep)
    # in a CI run snapshot(x) *is* x: the CI detection decides whether the wrapper exists at all
    ci_detect(repo, rep)
    from .C14 import reeval_fresh
    from .C04 import xfail_marker

    reeval_fresh(repo, rep)
    xfail_marker(repo, rep)


def adapter_dispatch(repo: Repo, rep):
    rep.rule(
        "R-ADAPTER-DISPATCH",
        "get_adapter_type selects a structural adapter (list / tuple / dict) only for values of the builtin type that the adapter's map() builds: the "
        "`isinstance(value, T)` / `type(value) is T` test that guards `return <Adapter>` names exactly the type `map` constructs (DictAdapter: a dict "
        "display, SequenceAdapter: `value_type`).  map() is how the stored copy is made - with a wider test (collections.abc.Mapping, Sequence) a value "
        "of another class is stored as a plain dict / list: `x == snapshot(v)` no longer answers like `x == v`, and the re-evaluation check rejects it",
    )
    f = repo.func("_adapter/adapter.py::get_adapter_type")
    cfg = cfg_of(f)
    n = 0
    # where an adapter class is chosen: `return <Adapter>`, or `<result> = <Adapter>` for a variable that is returned at the end
    returned = {r.ast.value.id for r in cfg.stmts(ast.Return) if isinstance(r.ast.value, ast.Name)}
    picks = [(r, r.ast.value) for r in cfg.stmts(ast.Return) if isinstance(r.ast.value, ast.Name)]
    picks += [(a_, a_.ast.value) for a_ in cfg.stmts(ast.Assign) if isinstance(a_.ast.value, ast.Name) and len(a_.ast.targets) == 1 and isinstance(a_.ast.targets[0], ast.Name) and a_.ast.targets[0].id in returned]
    for r, v in picks:
        cls_ = None
        for c in repo.all_classes():
            if c.name == v.id and c.module.rel.startswith("_adapter/"):
                cls_ = c
        if cls_ is None or v.id == "ValueAdapter":
            continue
        # what map() builds
        product = None
        mm = repo.lookup_method(cls_, "map")
        if mm is not None:
            for x in body_nodes(mm.node):
                if isinstance(x, ast.Return) and x.value is not None:
                    if isinstance(x.value, (ast.DictComp, ast.Dict)):
                        product = "dict"
                    elif isinstance(x.value, (ast.ListComp, ast.List)):
                        product = "list"
                    elif isinstance(x.value, ast.Call) and norm(x.value.func).endswith(".value_type"):
                        for k in repo.mro(cls_):
                            for st in k.node.body:
                                if isinstance(st, ast.Assign) and any(isinstance(t, ast.Name) and t.id == "value_type" for t in st.targets) and isinstance(st.value, ast.Name) and product is None:
                                    product = st.value.id
        if product is None:
            continue
        n += 1
        tested = set()
        for cn, lab in dominating_edges(cfg, r):
            if cn.kind != "cond" or lab != "T":
                continue
            e = cn.ast
            if isinstance(e, ast.Call) and norm(e.func) == "isinstance" and len(e.args) == 2:
                t = e.args[1]
                tested |= {norm(x) for x in (t.elts if isinstance(t, ast.Tuple) else [t])}
            elif isinstance(e, ast.Compare) and len(e.ops) == 1 and isinstance(e.ops[0], (ast.Is, ast.Eq)) and norm(e.left).startswith("type("):
                tested.add(norm(e.comparators[0]))
        exact = any(cn.kind == "cond" and lab == "T" and isinstance(cn.ast, ast.Compare) and norm(cn.ast.left).startswith("type(") for cn, lab in dominating_edges(cfg, r))
        if tested == {product} and exact and product in ("list", "dict"):
            rep.violation(
                "R-ADAPTER-DISPATCH",
                f,
                r.ast,
                f"{v.id} is selected by the exact type only: a subclass of {product} (which has no adapter of its own, unlike namedtuples for tuple) falls through to ValueAdapter and is rendered by the builtin "
                f"`{product}.__repr__`, which by-passes the code generation of its elements - nested sets come out unsorted, nested values without a code repr are written as invalid code",
                construct=f"{v.id}:exact-type",
            )
        elif tested == {product}:
            rep.ok("R-ADAPTER-DISPATCH", f, r.ast, f"{v.id} only for `{product}` values (what its map() builds)")
        else:
            rep.violation(
                "R-ADAPTER-DISPATCH",
                f,
                r.ast,
                f"{v.id} is selected for values of {sorted(tested) or 'any type'}, but its map() stores them as a plain `{product}`: a value of another class loses its type in the stored copy - "
                f"`x == snapshot(v)` can answer differently from `x == v`, and the second evaluation of the snapshot fails the type check",
                construct=f"{v.id}:dispatch",
            )
    rep.floor("R-ADAPTER-DISPATCH", "structural adapters selected by type", n, 3)


def no_flags(v):
    return not (v["F.create"] or v["F.fix"] or v["F.trim"] or v["F.update"])


def transparent(repo: Repo, rep):
    rep.rule(
        "R-TRANSPARENT",
        "typestate at the valuations without any flag and with a defined old value (new value undefined or not, compare-only or not): every returning "
        "path of an operation returns exactly its own comparison against the OLD value - x==v, v<=x, v>=x, x in v - and nothing else; __getitem__ returns a child built "
        "from old[key]; _visible_value() is the old value",
    )
    ops = dispatch_ops(repo)
    for op in ops:
        rows = [(v, outs) for v, outs in op_table(repo, op) if no_flags(v) and not v["OU"]]
        param = op.func.params[1]
        exp = expected_cmp(op, param)
        bad = None
        n = 0
        for v, outs in rows:
            for o in outs:
                if o.kind != "ret":
                    continue
                n += 1
                if exp is not None:
                    if o.ret != exp:
                        bad = bad or (v, o, f"returns {short(o.ret)} instead of the comparison against the stored value {short(exp)}")
                else:
                    # __getitem__: child from old[key]
                    news = [e for e in o.p.eff if e[0] == "new" and e[1] == "UndecidedValue"]
                    for e in news:
                        a0 = e[2][0] if e[2] else None
                        ok = a0 == ("item", OLD, ("param", param)) or (isinstance(a0, tuple) and a0[0] == "mcall" and a0[1] == OLD and a0[2] == "get" and a0[3] and a0[3][0] == ("param", param) and (len(a0[3]) < 2 or a0[3][1] == UNDEF))
                        if not ok:
                            bad = bad or (v, o, f"the sub-snapshot for a key is built from {short(a0)} instead of old[key]")
        if bad:
            rep.violation("R-TRANSPARENT", op.func, op.func.node, f"{op.label} without flags: {bad[2]}", [val_str(bad[0]), trace_str(bad[1])], construct=op.label)
        else:
            rep.ok("R-TRANSPARENT", op.func, op.func.node, f"{op.label}: {n} returning paths return the comparison against the old value")
    rep.count("valuations", table_stats(repo).get("valuations", 0))
    gv = generic_class(repo)
    vv = gv.methods.get("_visible_value")
    if vv is None:
        rep.undecided("R-TRANSPARENT", "_visible_value missing")
    else:
        bad = False
        for v in valuations():
            if no_flags(v) and not v["OU"] and not v["CO"]:
                outs, _ = run_method(repo, vv, gv, v)
                for o in outs:
                    if o.kind == "ret" and o.ret != OLD:
                        rep.violation("R-TRANSPARENT", vv, vv.node, f"_visible_value() is {short(o.ret)} although no flag is set and the old value is defined", val_str(v), construct="_visible_value")
                        bad = True
        if not bad:
            rep.ok("R-TRANSPARENT", vv, vv.node, "_visible_value() == old value without flags")


def short(t):
    s = str(t)
    return s if len(s) < 100 else s[:97] + "..."


def one_op(repo: Repo, rep):
    rep.rule(
        "R-ONE-OP",
        "each class of the dispatch set defines exactly its own operation; the other four operators resolve to GenericValue methods whose every path raises "
        "TypeError; UndecidedValue defines all five, each switching the class with self._change(K) and re-dispatching the same operator on self",
    )
    gv = generic_class(repo)
    ops = dispatch_ops(repo)
    # GenericValue dunders all raise TypeError
    for d in DUNDERS:
        m = gv.methods.get(d)
        if m is None:
            rep.violation("R-ONE-OP", gv.methods.get("_type_error") or list(gv.methods.values())[0], gv.node, f"GenericValue has no {d}: using a snapshot with a second operation falls back to object semantics instead of TypeError", construct=f"generic:{d}")
            continue
        outs, _ = run_method(repo, m, gv, UNKNOWN)
        rets = [o for o in outs if o.kind == "ret"]
        tes = [o for o in outs if o.kind == "exc" and "TypeError" in str(o.ret)]
        if rets or not tes:
            rep.violation("R-ONE-OP", m, m.node, f"GenericValue.{d} can return a value instead of raising TypeError: a snapshot used with two different operations produces an answer", construct=f"generic:{d}")
        else:
            rep.ok("R-ONE-OP", m, m.node, f"GenericValue.{d} always raises TypeError")
    for op in ops:
        for d in DUNDERS:
            dc = repo.defining_class(op.cls, d)
            if d == op.dunder:
                if dc is None or dc == gv:
                    rep.violation("R-ONE-OP", op.func, op.func.node, f"{op.cls.name} does not define its own {d}", construct=f"{op.cls.name}:{d}")
                else:
                    rep.ok("R-ONE-OP", op.func, op.func.node, f"{op.cls.name}.{d} defined in {dc.name}")
            else:
                if dc != gv:
                    m = repo.lookup_method(op.cls, d)
                    rep.violation("R-ONE-OP", m or op.func, (m or op.func).node, f"{op.cls.name} also answers {d} (defined in {dc.name if dc else '?'}): one snapshot can be used with two different operations without TypeError", construct=f"{op.cls.name}:{d}")
                else:
                    rep.ok("R-ONE-OP", op.func, op.func.node, f"{op.cls.name}.{d} -> GenericValue (TypeError)")
    uv = undecided_class(repo)
    for d in DUNDERS:
        m = uv.methods.get(d)
        if m is None:
            rep.violation("R-ONE-OP", list(uv.methods.values())[0], uv.node, f"UndecidedValue has no {d}", construct=f"undecided:{d}")
            continue
        me, other = m.params[0], m.params[1]
        rets = [r for r in body_nodes(m.node) if isinstance(r, ast.Return)]
        good = False
        for r in rets:
            v = r.value
            if d == "__getitem__":
                good = isinstance(v, ast.Subscript) and norm(v.value) == me and norm(v.slice) == other
            elif isinstance(v, ast.Compare) and len(v.ops) == 1:
                want = {"__eq__": ast.Eq, "__le__": ast.LtE, "__ge__": ast.GtE, "__contains__": ast.In}[d]
                if d == "__contains__":
                    good = isinstance(v.ops[0], want) and norm(v.left) == other and norm(v.comparators[0]) == me
                else:
                    good = isinstance(v.ops[0], want) and norm(v.left) == me and norm(v.comparators[0]) == other
        if good and len(rets) == 1:
            rep.ok("R-ONE-OP", m, m.node, f"UndecidedValue.{d} switches the class and re-dispatches the same operator")
        else:
            rep.violation("R-ONE-OP", m, m.node, f"UndecidedValue.{d} does not re-dispatch the same operator on self with the same operand after switching the class", construct=f"undecided:{d}")


def forward_eq(repo: Repo, rep):
    rep.rule("R-FORWARD-EQ", "Unmanaged.__eq__ and Is.__eq__ return `self.value == other` unmodified on every path")
    for cname, rel in (("Unmanaged", "_unmanaged.py"), ("Is", "_is.py")):
        c = repo.cls(cname, rel)
        m = c.methods.get("__eq__")
        if m is None:
            rep.violation("R-FORWARD-EQ", list(c.methods.values())[0], c.node, f"{cname} has no __eq__: comparisons fall back to identity", construct=f"{cname}.__eq__")
            continue
        outs, _ = run_method(repo, m, c, UNKNOWN)
        want = ("cmp", "==", ("self", "value"), ("param", m.params[1]))
        rets = [o for o in outs if o.kind == "ret"]
        bad = [o for o in rets if o.ret != want]
        if bad or not rets:
            rep.violation("R-FORWARD-EQ", m, m.node, f"{cname}.__eq__ returns {short(bad[0].ret) if bad else 'nothing'} instead of `self.value == other`", construct=f"{cname}.__eq__")
        else:
            rep.ok("R-FORWARD-EQ", m, m.node, f"{cname}.__eq__ forwards to the wrapped value")


# constructor kinds the user cannot write in a snapshot at all (the snapshot argument itself would
# not evaluate); one line of reason each
KIND_EXEMPT = {
    ("PydanticContainer", "int"): "pydantic's BaseModel.__init__ accepts keyword arguments only: a positional argument in the snapshot raises TypeError before any comparison",
}


def _rejected_kinds(m) -> set:
    """kinds of `pos_or_name` an `argument` override refuses: an `assert isinstance(p, T)` that every
    path passes (not under a condition) - T in {str, int}."""
    if len(m.params) < 3:
        return set()
    p = m.params[2]
    out = set()
    for st in m.node.body:
        if isinstance(st, ast.Assert) and isinstance(st.test, ast.Call) and norm(st.test.func) == "isinstance" and len(st.test.args) == 2 and norm(st.test.args[0]) == p:
            t = st.test.args[1]
            names = {norm(x) for x in (t.elts if isinstance(t, ast.Tuple) else [t])}
            for k in ("str", "int"):
                if k not in names:
                    out.add(k)
    return out


def argument_kinds(repo: Repo, rep):
    rep.rule(
        "R-ARGUMENT-KINDS",
        "sibling agreement between GenericCallAdapter.assign and the `argument(value, pos_or_name)` override of every call adapter: assign asks for an "
        "argument by *position* for every positional argument the user wrote in the snapshot and by *name* for every keyword, so an override that asserts "
        "one kind away (`assert isinstance(pos_or_name, str)`) turns `x == snapshot(T(1, 2))` into an AssertionError although the values are equal; "
        "exempt only where the constructor cannot be written that way at all (table KIND_EXEMPT)",
    )
    g = repo.cls("GenericCallAdapter")
    assign = repo.lookup_method(g, "assign")
    # which kinds does assign pass?  enumerate-index / int -> "int"; kw.arg / dict key -> "str"
    kinds = set()
    if assign is not None:
        for c in body_nodes(assign.node):
            if isinstance(c, ast.Call) and isinstance(c.func, ast.Attribute) and c.func.attr == "argument" and len(c.args) == 2:
                a = c.args[1]
                kinds.add("str" if (isinstance(a, ast.Attribute) and a.attr == "arg") or (isinstance(a, ast.Name) and a.id in ("key", "name")) else "int")
    rep.floor("R-ARGUMENT-KINDS", "kinds of argument() requests in assign", len(kinds), 2)
    subs = repo.subclasses(g)
    rep.floor("R-ARGUMENT-KINDS", "call adapters", len(subs), 5)
    for c in subs:
        m = repo.lookup_method(c, "argument")
        if m is None or m.cls == g:
            rep.violation("R-ARGUMENT-KINDS", list(c.methods.values())[0], c.node, f"{c.name} has no `argument` of its own: every comparison raises NotImplementedError", construct=f"{c.name}:missing")
            continue
        rej = _rejected_kinds(m)
        for k in sorted(kinds):
            if k not in rej:
                rep.ok("R-ARGUMENT-KINDS", m, m.node, f"{c.name}.argument accepts {k}")
            elif (c.name, k) in KIND_EXEMPT:
                rep.ok("R-ARGUMENT-KINDS", m, m.node, f"{c.name}.argument rejects {k}: exempt - {KIND_EXEMPT[(c.name, k)]}")
            else:
                what = "a positional argument" if k == "int" else "a keyword argument"
                rep.violation(
                    "R-ARGUMENT-KINDS",
                    m,
                    m.node,
                    f"{c.name}.argument asserts that it is never asked by {'position' if k == 'int' else 'name'}, but GenericCallAdapter.assign does so for {what} written in the snapshot: "
                    f"the comparison raises AssertionError even when the values are equal",
                    construct=f"{c.name}.argument:{k}",
                )
