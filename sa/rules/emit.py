"""Discovery of all `Change` emission sites of the package (shared by C02/C05/C10/C18)."""
from __future__ import annotations

import ast
from typing import Dict, List, Optional, Tuple

from ..cfg import CFG, Node, cfg_of, dominating_edges
from ..model import AnalysisError, Class, Func, Repo, body_nodes, norm


def change_classes(repo: Repo) -> Dict[str, Class]:
    base = repo.cls("Change", "_change.py")
    out = {}
    for c in repo.all_classes():
        if c.module.rel == "_change.py" and c != base and base in repo.mro(c):
            out[c.name] = c
    return out


class Site:
    def __init__(self, func: Func, cfg: CFG, node: Node, call: ast.Call, kind: str, cls: Class):
        self.func, self.cfg, self.node, self.call, self.kind, self.cls = func, cfg, node, call, kind, cls
        self.args = self._bind()

    def _bind(self) -> Dict[str, ast.AST]:
        """constructor arguments by dataclass field name (MRO order of annotated fields)."""
        fields: List[str] = []
        mro = list(reversed([k for k in _mro(self.cls)]))
        for k in mro:
            for nm in k.ann:
                if nm not in fields:
                    fields.append(nm)
        out: Dict[str, ast.AST] = {}
        pos = list(self.call.args)
        # `*zip(*code_values)` style star args: stop positional binding there
        for i, a in enumerate(pos):
            if isinstance(a, ast.Starred):
                out["*"] = a
                break
            if i < len(fields):
                out[fields[i]] = a
        for kw in self.call.keywords:
            if kw.arg:
                out[kw.arg] = kw.value
        return out

    @property
    def label(self):
        return f"{self.func.qualname}:{self.kind}"

    def dom_edges(self):
        if not hasattr(self, "_dom"):
            self._dom = dominating_edges(self.cfg, self.node)
        return self._dom


def _mro(c: Class):
    out = []

    def go(k):
        if k in out:
            return
        out.append(k)
        for b in k.bases:
            go(b)

    go(c)
    return out


_sites_cache: Dict[int, List[Site]] = {}


def emission_sites(repo: Repo) -> List[Site]:
    if id(repo) in _sites_cache:
        return _sites_cache[id(repo)]
    kinds = change_classes(repo)
    sites: List[Site] = []
    for f in repo.pkg_funcs():
        if f.module.rel in ("_change.py", "_rewrite_code.py") or f.module.rel.startswith("testing/"):
            continue
        calls = []
        for n in body_nodes(f.node):
            if isinstance(n, ast.Call) and isinstance(n.func, ast.Name) and n.func.id in kinds:
                r = repo.resolve_name(f.module, n.func.id)
                if r and r[0] == "class" and r[1].name in kinds and r[1].module.rel == "_change.py":
                    calls.append((n, r[1]))
        if not calls:
            continue
        cfg = cfg_of(f)
        for c, k in calls:
            nodes = cfg.nodes_containing(c)
            if not nodes:
                continue  # dead code
            sites.append(Site(f, cfg, nodes[0], c, k.name, k))
    sites.sort(key=lambda s: (s.func.module.rel, s.call.lineno))
    _sites_cache[id(repo)] = sites
    return sites


_node_cfg: Dict[int, CFG] = {}
_node_call: Dict[int, tuple] = {}


def cfg_of_node(site: Site, dnode: Node) -> CFG:
    """the CFG the deciding node lives in: the site's own function, or the helper that computes the label"""
    return _node_cfg.get(id(dnode), site.cfg)


def to_caller(dnode: Node, e: ast.AST) -> ast.AST:
    """an expression of the label helper seen from the emission site: a bare parameter name becomes the argument passed for it"""
    info = _node_call.get(id(dnode))
    if info is None or not isinstance(e, ast.Name):
        return e
    call, g = info
    params = list(g.params)
    if g.cls is not None and "staticmethod" not in g.decorators and params:
        params = params[1:]
    if e.id in params:
        i = params.index(e.id)
        if i < len(call.args):
            return call.args[i]
        for k in call.keywords:
            if k.arg == e.id:
                return k.value
    return e


def _label_helper(site: Site, call: ast.Call):
    """the function of the same class / module that a label is computed by: `flag = self._change_flag(...)`"""
    from ..model import Repo  # noqa: F401

    f = site.func
    if isinstance(call.func, ast.Attribute) and isinstance(call.func.value, ast.Name) and f.params and call.func.value.id == f.params[0] and f.cls is not None:
        k = f.cls
        seen = set()
        stack = [k]
        while stack:
            c = stack.pop()
            if c.key in seen:
                continue
            seen.add(c.key)
            if call.func.attr in c.methods:
                return c.methods[call.func.attr]
            stack.extend(c.bases)
    if isinstance(call.func, ast.Name):
        g = f.module.funcs.get(call.func.id)
        if g is not None:
            return g
        q = f.qualname + "." + call.func.id
        return f.module.funcs.get(q)
    return None


def flag_values(site: Site) -> List[Tuple[Optional[str], Node, str]]:
    """Possible (constant flag label, CFG node where it is decided, how) for a site."""
    from ..defuse import def_value, reaching_defs

    e = site.args.get("flag")
    if e is None:
        return [(None, site.node, "missing")]
    if isinstance(e, ast.Constant) and isinstance(e.value, str):
        return [(e.value, site.node, "const")]
    if isinstance(e, ast.Name):
        out = []
        for d in reaching_defs(site.cfg, site.node, e.id):
            v = def_value(d, e.id)
            if isinstance(v, ast.Constant) and isinstance(v.value, str):
                out.append((v.value, d, "var"))
            elif isinstance(v, ast.IfExp):
                out.append(("?ifexp", d, "ifexp"))
            elif isinstance(v, ast.Call) and _label_helper(site, v) is not None:
                g = _label_helper(site, v)
                gcfg = cfg_of(g)
                got = False
                for r in gcfg.stmts(ast.Return):
                    rv = r.ast.value
                    if isinstance(rv, ast.Constant) and isinstance(rv.value, str):
                        _node_cfg[id(r)] = gcfg
                        _node_call[id(r)] = (v, g)
                        out.append((rv.value, r, "var"))
                        got = True
                    elif rv is None or (isinstance(rv, ast.Constant) and rv.value is None):
                        continue  # "no change": the caller has to test for it
                    else:
                        got = False
                        break
                if not got:
                    out.append((None, d, "var?"))
            else:
                out.append((None, d, "var?"))
        return out or [(None, site.node, "undefined-var")]
    if isinstance(e, ast.IfExp):
        return [("?ifexp", site.node, "ifexp")]
    return [(None, site.node, "expr")]
