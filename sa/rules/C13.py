"""C13 - external storage stays consistent across any history (per-transition rules)."""
from __future__ import annotations

import ast
import re
from typing import List, Optional

from ..callgraph import callgraph
from ..cfg import cfg_of, edges_dominate, must_reach, node_calls, node_dominates, reach
from ..defuse import def_value, defs_of, derives_from, reaching_defs, resolve_alias
from ..esp import UNKNOWN, SELF, run_function, run_method, valuations
from ..model import Repo, ancestors, attr_chain, body_nodes, norm, short
from .C04 import approval_edges
from .common import trace_str


def flat_add(t) -> List:
    if isinstance(t, tuple) and t and t[0] == "binop" and t[1] == "Add":
        return flat_add(t[2]) + flat_add(t[3])
    return [t]


def check(repo: Repo, rep, tier):
    rep.not_decided = "multi-session histories as such; pathlib/glob semantics"
    content_addr(repo, rep)
    marker(repo, rep)
    prune(repo, rep)
    persist_remove(repo, rep)
    lookup(repo, rep)
    storage_anchor(repo, rep)
    files_registered(repo, rep)
    scan_total(repo, rep)
    suffix_shape(repo, rep)
    storage_no_cache(repo, rep)
    persist_unique(repo, rep)
    persist_pattern(repo, rep)
    remove_literal(repo, rep)
    from .C03 import import_scope

    # whether a module `uses externals` is decided by the same import scan
    import_scope(repo, rep)


def content_addr(repo: Repo, rep):
    rep.rule(
        "R-CONTENT-ADDR",
        "in outsource(), on every path: the bytes given to storage.save are the same value that was fed to the hasher; the hasher is hashlib.sha256; "
        "the stored name is hexdigest + marker + suffix and the returned external name is hexdigest + suffix; save happens only when "
        "storage.lookup_all(<that name>) is empty; the suffix is checked to start with '.'",
    )
    f = repo.func("_external.py::outsource")
    outs, eng = run_function(repo, f, UNKNOWN)
    rets = [o for o in outs if o.kind == "ret"]
    if not rets:
        rep.undecided("R-CONTENT-ADDR", "outsource has no returning path")
        return
    saves = 0
    bad = {}
    for o in rets:
        upd = [e for e in o.p.eff if e[0] == "mcall" and e[2] == "update" and e[3]]
        sav = [e for e in o.p.eff if e[0] == "mcall" and e[2] == "save" and len(e[3]) >= 2]
        hashers = [e[1] for e in upd]
        hexd = None
        # returned external(name)
        name_tag = None
        if isinstance(o.ret, tuple) and o.ret[0] == "new" and o.ret[1] == "external" and o.ret[2]:
            name_tag = o.ret[2][0]
        else:
            bad.setdefault("outsource does not return external(<name>)", o)
            continue
        parts = flat_add(name_tag)
        hd = [p for p in parts if isinstance(p, tuple) and p[0] == "mcall" and p[2] == "hexdigest"]
        sfx_tag = parts[1] if len(parts) == 2 else None
        sfx_ok = sfx_tag == ("param", "suffix") or (isinstance(sfx_tag, tuple) and sfx_tag[0] == "const" and isinstance(sfx_tag[1], str))
        if len(parts) != 2 or not hd or parts[0] != hd[0] or not sfx_ok:
            bad.setdefault(f"the returned external name is not hexdigest + suffix ({short_t(name_tag)})", o)
            continue
        hexd = hd[0]
        h = hexd[1]
        if not (isinstance(h, tuple) and h[0] == "mcall" and h[2] == "sha256" and "hashlib" in str(h[1])):
            bad.setdefault(f"the name is not a SHA-256 digest (hasher: {short_t(h)})", o)
        if not upd or any(e[1] != h for e in upd):
            bad.setdefault("the hasher whose digest names the file is not the one that was fed the data", o)
        for s in sav:
            saves += 1
            data = s[3][1]
            if not upd or any(e[3][0] != data for e in upd):
                bad.setdefault(f"the bytes saved ({short_t(data)}) are not the bytes that were hashed ({short_t(upd[0][3][0]) if upd else 'nothing'})", o)
            sp = flat_add(s[3][0])
            consts = [p[1] for p in sp if isinstance(p, tuple) and p[0] == "const" and isinstance(p[1], str)]
            if not (len(sp) == 3 and sp[0] == hexd and sp[2] == sfx_tag and sp[1][0] == "const" and isinstance(sp[1][1], str)):
                bad.setdefault(f"new data is not stored as hexdigest + marker + suffix ({short_t(s[3][0])})", o)
            else:
                rep.extra.setdefault("marker_writer", sp[1][1])
            look = [(t, v) for t, v in o.p.assume if isinstance(t, tuple) and t[0] == "mcall" and t[2] == "lookup_all"]
            if not any(v is False and t[3] and t[3][0] == name_tag for t, v in look):
                bad.setdefault("save is not conditional on storage.lookup_all(<hash+suffix>) being empty: persisted data would be duplicated as -new and/or overwritten", o)
        # suffix check on every returning path
        sfx = [(t, v) for t, v in o.p.assume if isinstance(t, tuple) and t[0] == "cmp" and ("item", sfx_tag, ("const", 0)) in (t[2], t[3]) and ("const", ".") in (t[2], t[3])]
        good = (sfx_tag[0] == "const" and sfx_tag[1].startswith(".")) or any((t[1] == "!=" and v is False) or (t[1] == "==" and v is True) for t, v in sfx) or any(
            isinstance(t, tuple) and t[0] == "mcall" and t[2] == "startswith" and t[1] == sfx_tag and v is True for t, v in o.p.assume
        )
        if not good:
            bad.setdefault("a suffix that does not start with '.' is accepted: the stored name would not match the '*-new.*' prune/ignore pattern", o)
    for what, o in bad.items():
        rep.violation("R-CONTENT-ADDR", f, f.node, what, trace_str(o), construct=what.split(" (")[0][:70])
    if not bad:
        rep.ok("R-CONTENT-ADDR", f, f.node, f"{len(rets)} returning paths, {saves} with save")
    rep.floor("R-CONTENT-ADDR", "save paths", saves, 1)


def short_t(t):
    s = str(t)
    return s if len(s) < 90 else s[:87] + "..."


def marker(repo: Repo, rep):
    rep.rule(
        "R-NEW-MARKER",
        "the marker the writer puts between hash and suffix, the glob pattern of prune_new_files, the .gitignore line and the "
        "endswith()/strip length of persist agree",
    )
    m = repo.module("_external.py")
    ds = repo.cls("DiscStorage", "_external.py")
    w = rep.extra.get("marker_writer")
    if w is None:
        if not any(o.verdict == "violation" and o.rule == "R-CONTENT-ADDR" for o in rep.obl):
            rep.undecided("R-NEW-MARKER", "writer marker not determined")
        return
    want_glob = "*" + w + ".*"
    pr = ds.methods.get("prune_new_files")
    pe = ds.methods.get("persist")
    en = ds.methods.get("_ensure_directory")
    if en is None:
        # the .gitignore may be written by any method of the storage class
        for g in ds.methods.values():
            if any(isinstance(c, ast.Call) and isinstance(c.func, ast.Attribute) and c.func.attr == "write_text" and c.args and isinstance(c.args[0], ast.Constant) for c in body_nodes(g.node)):
                en = g
    if not (pr and pe and en):
        rep.undecided("R-NEW-MARKER", "DiscStorage.prune_new_files/persist/<gitignore writer> missing")
        return
    globs = [c.args[0].value for c in body_nodes(pr.node) if isinstance(c, ast.Call) and isinstance(c.func, ast.Attribute) and c.func.attr in ("glob", "rglob") and c.args and isinstance(c.args[0], ast.Constant)]
    if globs and all(g == want_glob for g in globs):
        rep.ok("R-NEW-MARKER", pr, pr.node, f"prune pattern {globs[0]!r} matches writer marker {w!r}")
    else:
        rep.violation("R-NEW-MARKER", pr, pr.node, f"prune_new_files looks for {globs!r} but new data is stored as <hash>{w}<.suffix>: unreferenced data survives the next session start (or persisted data is pruned)", construct="prune-glob")
    ends = [c.args[0].value for c in body_nodes(pe.node) if isinstance(c, ast.Call) and isinstance(c.func, ast.Attribute) and c.func.attr == "endswith" and c.args and isinstance(c.args[0], ast.Constant)]
    strips = []
    for n in body_nodes(pe.node):
        if isinstance(n, ast.Subscript) and isinstance(n.slice, ast.Slice) and n.slice.lower is None and isinstance(n.slice.upper, ast.UnaryOp) and isinstance(n.slice.upper.op, ast.USub) and isinstance(n.slice.upper.operand, ast.Constant):
            strips.append(n.slice.upper.operand.value)
        if isinstance(n, ast.Call) and isinstance(n.func, ast.Attribute) and n.func.attr in ("removesuffix",) and n.args and isinstance(n.args[0], ast.Constant):
            strips.append(len(n.args[0].value))
    if ends and all(e == w for e in ends) and strips and all(s == len(w) for s in strips):
        rep.ok("R-NEW-MARKER", pe, pe.node, f"persist tests endswith({w!r}) and strips {len(w)} characters")
    else:
        rep.violation("R-NEW-MARKER", pe, pe.node, f"persist recognises {ends!r} / strips {strips!r} characters but the writer's marker is {w!r}: referenced data is not (or wrongly) renamed and is pruned at the next session", construct="persist-marker")
    gi = [c for c in body_nodes(en.node) if isinstance(c, ast.Call) and isinstance(c.func, ast.Attribute) and c.func.attr == "write_text" and c.args and isinstance(c.args[0], ast.Constant)]
    lines = [ln.strip() for c in gi for ln in str(c.args[0].value).splitlines() if ln.strip() and not ln.strip().startswith("#")]
    if lines and want_glob in lines:
        rep.ok("R-NEW-MARKER", en, en.node, f".gitignore ignores {want_glob!r}")
    else:
        rep.violation("R-NEW-MARKER", en, en.node, f"the storage .gitignore lists {lines!r}, not {want_glob!r}", construct="gitignore")


def prune(repo: Repo, rep):
    rep.rule("R-PRUNE-AT-START", "every normal exit of pytest_configure has passed state().storage.prune_new_files(), after state().storage was assigned")
    f = repo.func("pytest_plugin.py::pytest_configure")
    cfg = cfg_of(f)
    cg = callgraph(repo)
    pn = []
    for n in cfg.live:
        for c in node_calls(n):
            tg, _ = cg.call_targets(f, c)
            if any(t.key == "_external.py::DiscStorage.prune_new_files" for t in tg):
                pn.append(n)
    if not pn:
        rep.violation("R-PRUNE-AT-START", f, f.node, "pytest_configure never prunes the -new files: outsourced but unreferenced data accumulates across sessions", construct="noprune")
        return
    if must_reach(cfg, cfg.entry, pn, [cfg.ret], skip_labels=("exc",)):
        rep.ok("R-PRUNE-AT-START", f, pn[0].ast, "prune_new_files on every normal path")
    else:
        from ..cfg import path_from

        rep.violation("R-PRUNE-AT-START", f, pn[0].ast, "a normal path through pytest_configure skips prune_new_files()", path_from(cfg, cfg.entry, [cfg.ret], blocked_nodes=pn, skip_labels=("exc",)) or "", construct="skip")
    st = [n for n in cfg.stmts(ast.Assign) if any(isinstance(t, ast.Attribute) and attr_chain(t) == ["state()", "storage"] for t in n.ast.targets)]
    from ..cfg import nodes_dominate

    if st and all(nodes_dominate(cfg, st, p) for p in pn):
        rep.ok("R-PRUNE-AT-START", f, st[0].ast, "storage assigned before it is pruned")
    else:
        rep.violation("R-PRUNE-AT-START", f, pn[0].ast, "prune_new_files() runs before this session's storage is assigned (prunes the wrong / no directory)", construct="order")


def persist_remove(repo: Repo, rep):
    rep.rule(
        "R-PERSIST-WITH-REF",
        "in pytest_sessionfinish, persist(name) is called only for names iterated from used_externals(ast.parse(<file>.new_code())) of a file of the recorder "
        "that fix_all() then writes, and never after that fix_all()",
    )
    rep.rule(
        "R-REMOVE-GATE",
        "storage.remove(name) iterates the value of unused_externals(), which is computed after fix_all() (files are scanned as rewritten), under an approval "
        "predicate for trim; unused_externals() is storage.list() minus lookup_all(name) for every name used in a file of state().files_with_snapshots",
    )
    f = repo.func("pytest_plugin.py::pytest_sessionfinish")
    cfg = cfg_of(f)
    cg = callgraph(repo)

    def nodes_calling(key):
        out = []
        for n in cfg.live:
            for c in node_calls(n):
                tg, _ = cg.call_targets(f, c)
                if any(t.key == key for t in tg):
                    out.append((n, c))
        return out

    fixes = nodes_calling("_rewrite_code.py::ChangeRecorder.fix_all")
    pers = nodes_calling("_external.py::DiscStorage.persist")
    rems = nodes_calling("_external.py::DiscStorage.remove")
    unus = nodes_calling("_find_external.py::unused_externals")
    rep.floor("R-PERSIST-WITH-REF", "persist sites", len(pers), 1)
    rep.floor("R-PERSIST-WITH-REF", "fix_all sites", len(fixes), 1)
    rep.floor("R-REMOVE-GATE", "remove sites", len(rems), 1)
    for pn, pc in pers:
        ok = True
        why = ""
        a = pc.args[0] if pc.args else None
        # name <- for name in used <- used_externals(tree) <- ast.parse(file.new_code()) <- for file in cr.files()
        chain = []
        cur, node = a, pn
        steps = 0
        src_ok = False
        rec = None
        loops_on_chain = []
        while cur is not None and steps < 8:
            steps += 1
            if isinstance(cur, ast.Name):
                ds = reaching_defs(cfg, node, cur.id)
                if len(ds) != 1:
                    why = f"`{cur.id}` has {len(ds)} reaching definitions"
                    break
                d = ds[0]
                chain.append(f"{cur.id}@L{d.line}")
                if d.kind == "for":
                    loops_on_chain.append(d.ast)
                    cur, node = d.ast.iter, d
                else:
                    cur, node = def_value(d, cur.id), d
                continue
            if isinstance(cur, ast.Call):
                tg = cg.resolve_callee(cur, f)
                keys = {getattr(t, "key", "") for t in tg}
                nm = norm(cur.func)
                if "_inline_snapshot.py::used_externals" in keys and cur.args:
                    src_ok = True
                    cur = cur.args[0]
                    continue
                if nm == "ast.parse" and cur.args:
                    cur = cur.args[0]
                    continue
                if isinstance(cur.func, ast.Attribute) and cur.func.attr == "new_code":
                    cur = cur.func.value
                    continue
                if isinstance(cur.func, ast.Attribute) and cur.func.attr == "files" and isinstance(cur.func.value, ast.Name):
                    rec = cur.func.value.id
                    break
            why = f"`{short(cur, 40)}` is not part of the chain used_externals(ast.parse(file.new_code()))"
            break
        if not src_ok or rec is None:
            ok = False
            why = why or "source of the persisted name not recognised"
        # every file's externals: the persist call stands inside the loops its name was taken from (the loop over the names and the
        # loop over the recorder's files) - behind them it sees only the values of the last iteration
        if ok:
            anc = set(id(x) for x in ancestors(pc))
            outside = [lp for lp in loops_on_chain if id(lp) not in anc]
            if outside:
                ok = False
                why = f"the call stands behind the loop `for {norm(outside[-1].target)} in {short(outside[-1].iter, 30)}` it takes its name from: only the last file's externals are persisted, the references written into the other files point to data that stays -new"
        # the recorder is the one written by fix_all afterwards
        after = [(fn, fc) for fn, fc in fixes if isinstance(fc.func, ast.Attribute) and isinstance(fc.func.value, ast.Name) and fc.func.value.id == rec and fn in reach(cfg, [pn])]
        if ok and not after:
            ok = False
            why = f"no fix_all() of recorder `{rec}` follows the persist"
        if ok:
            rep.ok("R-PERSIST-WITH-REF", f, pc, "persist <- " + " <- ".join(chain) + f" <- {rec}.files(); fix_all follows")
        else:
            rep.violation("R-PERSIST-WITH-REF", f, pc, f"persist is not tied to a reference that is about to be written ({why}): a persisted file could appear without a reference, or referenced data stay -new", construct="persist-source")
        for fn, fc in fixes:
            if pn in reach(cfg, [b for b, _ in fn.succ]):
                rep.violation("R-PERSIST-WITH-REF", f, pc, "persist can run after fix_all(): at an interruption in between, a written file references data that the next session start prunes", construct="persist-after-write")
    for rn, rc in rems:
        a = rc.args[0] if rc.args else None
        okk = False
        src = None
        if isinstance(a, ast.Name):
            ds = reaching_defs(cfg, rn, a.id)
            if len(ds) == 1 and ds[0].kind == "for":
                it = ds[0].ast.iter
                src = resolve_alias(cfg, ds[0], it) if isinstance(it, ast.Name) else it
                if isinstance(src, ast.Call):
                    keys = {getattr(t, "key", "") for t in cg.resolve_callee(src, f)}
                    okk = "_find_external.py::unused_externals" in keys
        if okk:
            rep.ok("R-REMOVE-GATE", f, rc, "remove iterates unused_externals()")
        else:
            rep.violation("R-REMOVE-GATE", f, rc, f"storage.remove is fed from `{short(src or a, 40)}`, not from unused_externals(): externals that are still referenced can be deleted", construct="remove-source")
        notes: list = []
        edges = approval_edges(repo, f, cfg, "trim", notes)
        if edges and edges_dominate(cfg, edges, rn):
            rep.ok("R-REMOVE-GATE", f, rc, "remove under approved trim")
        else:
            rep.violation("R-REMOVE-GATE", f, rc, "a persisted external is removed without an approved trim", construct="remove-gate")
    for un, uc in unus:
        for fn, fc in fixes:
            if fn in reach(cfg, [b for b, _ in un.succ]):
                rep.violation("R-REMOVE-GATE", f, uc, "unused_externals() is computed before fix_all(): files are scanned in their old form, so an external whose reference is only now written counts as unused (and one whose reference is being removed as used)", construct="unused-before-write")
            else:
                rep.ok("R-REMOVE-GATE", f, uc, "unused_externals() computed after the rewrite")
    # definition of unused_externals / used_externals
    ue = repo.func("_find_external.py::unused_externals")
    # the scan of the participating files is found by what it does (a loop over state().files_with_snapshots), not by its name
    scanners = [g for g in repo.module("_find_external.py").funcs.values() if _scan_loops(g)]
    ok1 = False
    rets = [n for n in body_nodes(ue.node) if isinstance(n, ast.Return) and isinstance(n.value, ast.Name)]
    if rets:
        var = rets[0].value.id
        init = [n for n in body_nodes(ue.node) if isinstance(n, ast.Assign) and any(isinstance(t, ast.Name) and t.id == var for t in n.targets)]
        subs = [n for n in body_nodes(ue.node) if isinstance(n, ast.AugAssign) and isinstance(n.target, ast.Name) and n.target.id == var and isinstance(n.op, ast.Sub)]
        loops = [n for n in body_nodes(ue.node) if isinstance(n, ast.For)]
        ok1 = (
            len(init) == 1
            and isinstance(init[0].value, ast.Call)
            and norm(init[0].value.func).endswith(".list")
            and len(subs) >= 1
            and all(isinstance(s.value, ast.Call) and norm(s.value.func).endswith(".lookup_all") for s in subs)
            and any(
                (isinstance(l.iter, ast.Call) and any(t in scanners for t in cg.resolve_callee(l.iter, ue)))
                # the scan written in place: `used = set()`, `for file in state().files_with_snapshots: used |= used_externals_in(..)`, `for name in used:`
                or (isinstance(l.iter, ast.Name) and ue in scanners and any(isinstance(a_, ast.AugAssign) and isinstance(a_.op, ast.BitOr) and isinstance(a_.target, ast.Name) and a_.target.id == l.iter.id for sl in _scan_loops(ue) if isinstance(sl, ast.For) for a_ in ast.walk(sl)))
                for l in loops
            )
        )
    if ok1:
        rep.ok("R-REMOVE-GATE", ue, ue.node, "unused = storage.list() - lookup_all(name) for name in used_externals()")
    else:
        rep.violation("R-REMOVE-GATE", ue, ue.node, "unused_externals() is no longer `stored minus everything referenced`: referenced externals can be reported unused", construct="unused-def")
    if scanners:
        for us in scanners:
            rep.ok("R-REMOVE-GATE", us, us.node, f"{us.name}() scans every file of state().files_with_snapshots")
    else:
        rep.violation("R-REMOVE-GATE", ue, ue.node, "no function of _find_external.py scans all of state().files_with_snapshots for the externals in use", construct="used-def")


def _scan_loops(g):
    """for statements / unfiltered comprehension generators of g over state().files_with_snapshots: both visit every registered file"""
    loops = [n for n in body_nodes(g.node) if isinstance(n, ast.For) or (isinstance(n, ast.comprehension) and not n.ifs)]
    return [l for l in loops if isinstance(l.iter, ast.Attribute) and attr_chain(l.iter) == ["state()", "files_with_snapshots"]]


def persist_unique(repo: Repo, rep):
    rep.rule(
        "R-PERSIST-UNIQUE",
        "a storage operation addressed by a (possibly shortened) name changes exactly the one file the name denotes: in every method of DiscStorage that "
        "takes a name, the object that is renamed / unlinked comes from the unique lookup (the method that raises HashError unless exactly one file "
        "matches), never from iterating over a glob of the name.  With `hash-length` shortened, one pattern matches several files: persisting all of them "
        "makes the `-new` data of an unapproved change permanent, removing all of them deletes data that is still referenced",
    )
    c = repo.cls("DiscStorage", "_external.py")
    uniq = [m for m in c.methods.values() if any(isinstance(x, ast.Raise) for x in body_nodes(m.node)) and any(isinstance(x, ast.Compare) and "len(" in norm(x) for x in body_nodes(m.node)) and any(isinstance(x, ast.Call) and norm(x.func).endswith(".glob") for x in body_nodes(m.node))]
    if not uniq:
        rep.violation("R-PERSIST-UNIQUE", c.methods.get("persist") or list(c.methods.values())[0], c.node, "DiscStorage has no lookup that insists on exactly one match", construct="no-unique-lookup")
        return
    uname = {u.name for u in uniq}
    n = 0
    for m in c.methods.values():
        if len(m.params) < 2 or m.name in uname:
            continue
        cfg = cfg_of(m)
        for nd in cfg.live:
            for call in node_calls(nd):
                if not (isinstance(call.func, ast.Attribute) and call.func.attr in ("rename", "replace", "unlink", "rmdir")):
                    continue
                n += 1
                recv = call.func.value
                ok = False
                if isinstance(recv, ast.Call) and isinstance(recv.func, ast.Attribute) and recv.func.attr in uname:
                    ok = True
                elif isinstance(recv, ast.Name):
                    ds = reaching_defs(cfg, nd, recv.id)
                    vals = [def_value(d, recv.id) for d in ds]
                    ok = bool(vals) and all(v is not None and isinstance(v, ast.Call) and isinstance(v.func, ast.Attribute) and v.func.attr in uname and not d.kind == "for" for v, d in zip(vals, ds))
                if ok:
                    rep.ok("R-PERSIST-UNIQUE", m, call, f"`{short(call, 40)}` acts on the unique match of the name")
                else:
                    rep.violation(
                        "R-PERSIST-UNIQUE",
                        m,
                        call,
                        f"DiscStorage.{m.name} applies `{short(call, 40)}` to a file that does not come from the unique lookup ({', '.join(sorted(uname))}): with a shortened hash the pattern matches several files and all of them are "
                        f"{'made permanent - including the -new data of a change nobody approved' if call.func.attr in ('rename', 'replace') else 'deleted - including data that is still referenced'}",
                        construct=f"{m.name}:{call.func.attr}",
                    )
    rep.floor("R-PERSIST-UNIQUE", "rename / unlink sites in name-addressed storage methods", n, 2)


def remove_literal(repo: Repo, rep):
    rep.rule(
        "R-REMOVE-LITERAL",
        "remove(name) is handed *file names* of the storage (the result of storage.list() minus what is referenced): it looks the name up as it is.  "
        "Parsing it as a reference (`external(name)`) rejects every `<hash>-new.<suffix>` name with a ValueError - trim with an unapproved fresh external "
        "ends the session with an internal error",
    )
    c = repo.cls("DiscStorage", "_external.py")
    r = c.methods.get("remove")
    if r is None:
        rep.undecided("R-REMOVE-LITERAL", "DiscStorage.remove not found")
        return
    parses = [x for x in body_nodes(r.node) if isinstance(x, ast.Call) and norm(x.func) == "external"]
    if parses:
        rep.violation("R-REMOVE-LITERAL", r, parses[0], f"DiscStorage.remove parses its argument with `{short(parses[0], 30)}`: the names of not yet persisted files (`<hash>-new.txt`) are no references - ValueError at session end", construct="remove:parses-name")
    else:
        rep.ok("R-REMOVE-LITERAL", r, r.node, "remove() looks the file name up literally")


def persist_pattern(repo: Repo, rep):
    rep.rule(
        "R-PERSIST-PATTERN",
        "persist() has to find the file that still carries the `-new` marker: the name it looks up is the *pattern* of the external (`<hash>*<suffix>`, "
        "external._path), either built inside persist() or by each caller - never the bare text of the reference.  With hash-length = 64 the reference "
        "is written without a `*`; looked up literally it matches only the already persisted name, the HashError is swallowed and the data of a freshly "
        "written reference stays a -new file that git ignores and the next session prunes",
    )
    c = repo.cls("DiscStorage", "_external.py")
    p = c.methods.get("persist")
    if p is None:
        rep.undecided("R-PERSIST-PATTERN", "DiscStorage.persist not found")
        return
    # what the lookup inside persist() is asked for (alias-resolved): the pattern, not the bare name
    pcfg = cfg_of(p)
    inside = False
    for n_ in pcfg.live:
        for c_ in node_calls(n_):
            if isinstance(c_.func, ast.Attribute) and (c_.func.attr.startswith("_lookup") or c_.func.attr == "glob") and c_.args:
                a_ = c_.args[0]
                src = resolve_alias(pcfg, n_, a_) if isinstance(a_, ast.Name) else a_
                if any(isinstance(x, ast.Attribute) and x.attr == "_path" for x in ast.walk(src)) or any(isinstance(x, ast.Constant) and isinstance(x.value, str) and "*" in x.value for x in ast.walk(src)):
                    inside = True
    if inside:
        rep.ok("R-PERSIST-PATTERN", p, p.node, "persist() looks the pattern of the external up")
        # the names come from every call of a function named `external` in the test file, also a function of the user: a name that is
        # no reference is skipped, it does not end the session
        for x in [y for y in body_nodes(p.node) if isinstance(y, ast.Call) and norm(y.func) == "external"]:
            guarded = False
            for a_ in ancestors(x):
                if isinstance(a_, ast.Try) and any(x is z for s_ in a_.body for z in ast.walk(s_)) and any(h.type is None or any(k in norm(h.type) for k in ("ValueError", "Exception")) for h in a_.handlers):
                    guarded = True
                if a_ is p.node:
                    break
            if guarded:
                rep.ok("R-PERSIST-PATTERN", p, x, "a name that is no reference is skipped")
            else:
                rep.violation("R-PERSIST-PATTERN", p, x, "persist() parses every name with external(...) unguarded: `external(\"service\")` of a user function of that name in a rewritten test file raises ValueError at session end - internal error, nothing is written", construct="persist:parse-unguarded")
        return
    cg = callgraph(repo)
    calls = [(cf, c_) for cf, c_, how in cg.callers.get(p.key, []) if not cf.module.rel.startswith("@")]
    if not calls:
        calls = [(f, x) for f in repo.pkg_funcs() for x in body_nodes(f.node) if isinstance(x, ast.Call) and isinstance(x.func, ast.Attribute) and x.func.attr == "persist"]
    rep.floor("R-PERSIST-PATTERN", "persist() call sites", len(calls), 1)
    for cf, c_ in calls:
        a = c_.args[0] if c_.args else None
        if a is not None and ("_path" in norm(a) or (isinstance(a, ast.JoinedStr) and any(isinstance(v, ast.Constant) and "*" in str(v.value) for v in a.values))):
            rep.ok("R-PERSIST-PATTERN", cf, c_, "the pattern of the external is handed to persist()")
        else:
            rep.violation(
                "R-PERSIST-PATTERN",
                cf,
                c_,
                f"`{short(c_, 50)}` hands persist() the text of the reference, and persist() looks it up literally: a reference with the full hash (hash-length = 64) has no `*`, the `-new` file is not found, "
                "the error is ignored - the test file refers to data that is never persisted",
                construct=f"{cf.qualname}:persist-literal",
            )


def lookup(repo: Repo, rep):
    rep.rule(
        "R-LOOKUP-STRICT",
        "DiscStorage._lookup_path returns only on the path where the glob matched exactly one file; more than one and none both raise HashError; read() and remove() go through it",
    )
    ds = repo.cls("DiscStorage", "_external.py")
    f = ds.methods.get("_lookup_path")
    if f is None:
        rep.undecided("R-LOOKUP-STRICT", "_lookup_path missing")
        return
    outs, eng = run_method(repo, f, ds, UNKNOWN)
    rets = [o for o in outs if o.kind == "ret"]
    excs = [o for o in outs if o.kind == "exc"]
    bad = False
    for o in rets:
        multi = none = False
        # the returned path is an element of the *unfiltered* glob result
        G = o.ret[1] if isinstance(o.ret, tuple) and o.ret[0] == "item" else None
        def is_glob(g):
            if not isinstance(g, tuple):
                return False
            if g[0] == "mcall" and g[2] in ("glob", "rglob") and g[3] and g[3][0] == ("param", f.params[1]):
                return True
            if g[0] == "call" and g[1] in ("list", "sorted", "tuple") and g[2]:
                return is_glob(g[2][0])
            return False
        if G is None or not is_glob(G):
            rep.violation("R-LOOKUP-STRICT", f, f.node, f"_lookup_path returns {short_t(o.ret)}, not an element of the complete glob result for the name: candidates are filtered before the ambiguity test, so an ambiguous prefix resolves silently", trace_str(o), construct="filtered")
            bad = True
            continue
        for t, v in o.p.assume:
            if isinstance(t, tuple) and t[0] == "cmp" and isinstance(t[2], tuple) and t[2][0] == "call" and t[2][1] == "len" and t[2][2] and t[2][2][0] != G:
                continue
            if isinstance(t, tuple) and t[0] == "cmp" and isinstance(t[2], tuple) and t[2][0] == "call" and t[2][1] == "len":
                k = t[3][1] if t[3][0] == "const" else None
                if (t[1] == ">" and k == 1 and v is False) or (t[1] == ">=" and k == 2 and v is False) or (t[1] == "<=" and k == 1 and v is True):
                    multi = True
                if (t[1] == "==" and k == 1 and v is True) or (t[1] == "!=" and k == 1 and v is False):
                    multi = none = True
                if (t[1] == "==" and k == 0 and v is False) or (t[1] in (">", "!=") and k == 0 and v is True) or (t[1] == ">=" and k == 1 and v is True):
                    none = True
            elif v is True and t == G:
                none = True
        if not multi:
            rep.violation("R-LOOKUP-STRICT", f, f.node, "an ambiguous hash prefix (more than one match) resolves to one of the files instead of raising", trace_str(o), construct="ambiguous")
            bad = True
        if not none:
            rep.violation("R-LOOKUP-STRICT", f, f.node, "a missing hash is not rejected before the result is used", trace_str(o), construct="missing")
            bad = True
    if len([o for o in excs if "HashError" in str(o.ret)]) < 2:
        rep.violation("R-LOOKUP-STRICT", f, f.node, "fewer than two paths raise HashError (ambiguous / not found)", construct="raises")
        bad = True
    if not bad and rets:
        rep.ok("R-LOOKUP-STRICT", f, f.node, f"{len(rets)} returning path(s), {len(excs)} raising")
    for nm, verb in (("read", "read_bytes"), ("remove", "unlink")):
        g = ds.methods.get(nm)
        if g is None:
            rep.undecided("R-LOOKUP-STRICT", f"DiscStorage.{nm} missing")
            continue
        calls = [c for c in body_nodes(g.node) if isinstance(c, ast.Call) and isinstance(c.func, ast.Attribute) and c.func.attr == verb]
        good = bool(calls)
        for c in calls:
            base = c.func.value
            if isinstance(base, ast.Name):
                cfg = cfg_of(g)
                nn = cfg.nodes_containing(c)
                base = resolve_alias(cfg, nn[0], base) if nn else base
            if not (isinstance(base, ast.Call) and isinstance(base.func, ast.Attribute) and base.func.attr == "_lookup_path"):
                good = False
        if good:
            rep.ok("R-LOOKUP-STRICT", g, g.node, f"{nm} resolves the name through _lookup_path")
        else:
            rep.violation("R-LOOKUP-STRICT", g, g.node, f"DiscStorage.{nm} does not resolve the name through the strict _lookup_path", construct=f"{nm}-bypass")


def storage_anchor(repo: Repo, rep):
    rep.rule(
        "R-STORAGE-ANCHOR",
        "a relative `storage-dir` is made absolute against the directory of the pyproject.toml that defines it (read_config: `<path>.parent`), and "
        "pytest_configure uses that value as it is (falling back to rootpath/.inline-snapshot only when none is configured): sessions started from different "
        "root directories of one project use one and the same storage",
    )
    rc = repo.func("_config.py::read_config")
    pathp = rc.params[0]
    stores = [x for x in body_nodes(rc.node) if isinstance(x, ast.Assign) and any(isinstance(t, ast.Attribute) and t.attr == "storage_dir" for t in x.targets)]
    if not stores:
        rep.undecided("R-STORAGE-ANCHOR", "config.storage_dir is not assigned in read_config")
        return
    cfg = cfg_of(rc)
    ok = False
    for st in stores:
        nn = cfg.nodes_containing(st.value)
        if nn and derives_from(cfg, nn[0], st.value, lambda x: isinstance(x, ast.Attribute) and x.attr == "parent" and norm(x.value) == pathp):
            ok = True
    absq = any(isinstance(c.ast, ast.Call) and norm(c.ast.func).endswith("is_absolute") for c in cfg.conds())
    if ok and absq:
        rep.ok("R-STORAGE-ANCHOR", rc, stores[0], "relative storage-dir anchored at the pyproject.toml directory")
    else:
        rep.violation("R-STORAGE-ANCHOR", rc, stores[0], "read_config stores a relative `storage-dir` without anchoring it at the directory of its pyproject.toml: the storage location then depends on the directory the session is started from (externals written by one session are not found by another)", construct="unanchored")
    pc = repo.func("pytest_plugin.py::pytest_configure")
    for x in body_nodes(pc.node):
        if isinstance(x, ast.BinOp) and isinstance(x.op, ast.Div) and "rootpath" in norm(x.left) and "storage_dir" in norm(x.right) and "rootpath" not in norm(x.right):
            rep.violation("R-STORAGE-ANCHOR", pc, x, "pytest_configure re-anchors the configured storage-dir at the session's rootpath", construct="rootpath/storage_dir")
            break
    else:
        rep.ok("R-STORAGE-ANCHOR", pc, pc.node, "configured storage-dir used as it is")


def files_registered(repo: Repo, rep):
    rep.rule(
        "R-FILES-REGISTERED",
        "snapshot() registers the calling module's file in state().files_with_snapshots on every path that records or re-evaluates the call site (only the "
        "`module is None` / `__file__ is None` tests may by-pass it): unused_externals() trusts that set - the externals referenced from a file that is not "
        "registered look unused and `--inline-snapshot=trim` deletes them from the storage",
    )
    from ..cfg import cfg_of, reach

    f = repo.func("_inline_snapshot.py::snapshot")
    cfg = cfg_of(f)
    adds = [n for n in cfg.live for c in node_calls(n) if isinstance(c.func, ast.Attribute) and c.func.attr == "add" and isinstance(c.func.value, ast.Attribute) and attr_chain(c.func.value) == ["state()", "files_with_snapshots"]]
    def _is_table(n, e):
        if isinstance(e, ast.Attribute):
            return attr_chain(e) == ["state()", "snapshots"]
        if isinstance(e, ast.Name):
            r_ = resolve_alias(cfg, n, e)
            return isinstance(r_, ast.Attribute) and attr_chain(r_) == ["state()", "snapshots"]
        return False

    stores = [n for n in cfg.live if n.kind == "stmt" and isinstance(n.ast, ast.Assign) and any(isinstance(t, ast.Subscript) and _is_table(n, t.value) for t in n.ast.targets)]
    reevals = [n for n in cfg.live for c in node_calls(n) if isinstance(c.func, ast.Attribute) and c.func.attr == "_re_eval"]
    rep.floor("R-FILES-REGISTERED", "recording / re-evaluation sites in snapshot()", len(stores) + len(reevals), 2)
    if not adds:
        rep.violation("R-FILES-REGISTERED", f, f.node, "snapshot() never adds the calling file to state().files_with_snapshots: every external looks unused, `--inline-snapshot=trim` empties the storage", construct="no-registration")
        return
    # the only edges that may by-pass the registration: the "no module / no file" answers of tests on the module object
    # the module object: whatever variable holds the result of inspect.getmodule(frame) - and nothing but that result
    modvars = set()
    for st_ in cfg.stmts(ast.Assign):
        v_ = st_.ast.value
        for t_ in st_.ast.targets:
            if not isinstance(t_, ast.Name):
                continue
            if isinstance(v_, ast.Call) and norm(v_.func).endswith("getmodule"):
                modvars.add(t_.id)
            elif any(isinstance(x, ast.Call) and norm(x.func).endswith("getmodule") for x in ast.walk(v_)):
                rep.violation(
                    "R-FILES-REGISTERED",
                    f,
                    st_.ast,
                    f"`{short(st_.ast, 70)}`: whether the calling module is looked up at all depends on something else than the module (e.g. on the value of the snapshot): a file whose snapshots are all still "
                    "empty is not registered, the externals a `create` writes into it look unused and a `trim` in the same session deletes them",
                    construct="module-conditional",
                )
                modvars.add(t_.id)
    # "nothing but that result": a second definition of the variable (`if obj is undefined: module = None`) is the same dependence written as a statement
    for st_ in cfg.stmts(ast.Assign):
        v_ = st_.ast.value
        for t_ in st_.ast.targets:
            if isinstance(t_, ast.Name) and t_.id in modvars and not any(isinstance(x, ast.Call) and norm(x.func).endswith("getmodule") for x in ast.walk(v_)):
                rep.violation(
                    "R-FILES-REGISTERED",
                    f,
                    st_.ast,
                    f"`{short(st_.ast, 70)}`: the variable that holds the calling module is also set to something that is not the result of inspect.getmodule(): whether the file is registered depends on "
                    "something else than the module (e.g. on the value of the snapshot) - a file whose snapshots are all still empty is not registered, the externals a `create` writes into it look unused "
                    "and a `trim` in the same session deletes them",
                    construct="module-conditional",
                )
    # ... and what is read from it (`module_file = getattr(module, "__file__", None)`)
    for _ in range(3):
        for st_ in cfg.stmts(ast.Assign):
            if any(isinstance(x, ast.Name) and x.id in modvars for x in ast.walk(st_.ast.value)):
                modvars |= {t_.id for t_ in st_.ast.targets if isinstance(t_, ast.Name)}
    allowed = []
    for c in cfg.conds():
        if any(isinstance(x, ast.Name) and x.id in modvars for x in ast.walk(c.ast)):
            for b_, lab in c.succ:
                if lab in ("T", "F") and not any(a_ in reach(cfg, [b_]) or a_ is b_ for a_ in adds):
                    allowed.append((c, lab))
    r = reach(cfg, [cfg.entry], blocked_nodes=adds, blocked_edges=allowed, skip_labels=("exc",))
    missed = [t for t in stores + reevals if t in r]
    if missed:
        from ..cfg import path_to

        rep.violation(
            "R-FILES-REGISTERED",
            f,
            missed[0].ast,
            f"snapshot() reaches `{short(missed[0].ast, 50)}` on a path that has not registered the calling file in state().files_with_snapshots: externals referenced from that file look unused and are deleted by --inline-snapshot=trim",
            path_to(cfg, missed[0], blocked_nodes=adds, blocked_edges=allowed) or "",
            construct="registration-bypassed",
        )
    else:
        rep.ok("R-FILES-REGISTERED", f, adds[0].ast, "the calling file is registered before the call site is recorded")


def scan_total(repo: Repo, rep):
    rep.rule(
        "R-SCAN-TOTAL",
        "the scan that decides which externals are still referenced is total: in _find_external.py no exception raised while a participating file is read or "
        "parsed is swallowed (no handler around the per-file read / ast.parse that continues, passes or returns a partial result).  A file that cannot be "
        "analysed must stop the session - counted as 'references nothing', `--inline-snapshot=trim` deletes the data it still references",
    )
    n = 0
    m = repo.module("_find_external.py")
    for f in m.funcs.values():
        if not any(isinstance(c, ast.Call) and (norm(c.func).endswith("read_text") or norm(c.func) in ("ast.parse", "used_externals_in") or norm(c.func).endswith("used_externals_in")) for c in body_nodes(f.node)):
            continue
        for t in [x for x in body_nodes(f.node) if isinstance(x, ast.Try)]:
            guarded = [c for s_ in t.body for c in ast.walk(s_) if isinstance(c, ast.Call) and (norm(c.func).endswith("read_text") or norm(c.func) == "ast.parse" or norm(c.func).endswith("used_externals_in") or norm(c.func).endswith("literal_eval") is False and False)]
            if not guarded:
                continue
            for h in t.handlers:
                n += 1
                reraises = any(isinstance(x, ast.Raise) for s_ in h.body for x in ast.walk(s_))
                if reraises:
                    rep.ok("R-SCAN-TOTAL", f, h, "handler re-raises")
                else:
                    rep.violation(
                        "R-SCAN-TOTAL",
                        f,
                        h,
                        f"{f.qualname} swallows `{norm(h.type) if h.type is not None else 'every exception'}` raised while a test file is read / parsed and goes on: the file counts as referencing no external, "
                        "so --inline-snapshot=trim removes the externals it still uses (a file with a BOM or another source encoding is enough)",
                        construct=f"{f.qualname}:swallow",
                    )
    rep.count("handlers_around_the_scan", n)
    if n == 0:
        rep.ok("R-SCAN-TOTAL", repo.find_func("_find_external.py", "used_externals") or repo.func("_find_external.py::unused_externals"), None, "no exception handler around reading / parsing the participating files", site="src/inline_snapshot/_find_external.py: scan")


def suffix_shape(repo: Repo, rep):
    rep.rule(
        "R-SUFFIX-SHAPE",
        "writer/reader agreement on external names: DiscStorage recognises a not-yet-persisted file by `Path.stem.endswith('-new')`, and `stem` strips ONE "
        "suffix; so every pattern that admits a name (`external.__init__`, the suffix check of outsource()) admits exactly one dot-part as suffix - the regex "
        "has no repetition around a literal dot.  With `.tar.gz` accepted, `<hash>-new.tar.gz` has the stem `<hash>-new.tar`, is never renamed by persist() "
        "and is pruned at the next session start while the test file references it",
    )
    import re as _re

    try:
        from re import _parser as sre_parse  # py3.11+
    except ImportError:  # pragma: no cover
        import sre_parse  # type: ignore
    uses_stem = any(isinstance(x, ast.Attribute) and x.attr == "stem" for f in repo.module("_external.py").funcs.values() for x in body_nodes(f.node))
    n = 0
    for f in repo.module("_external.py").funcs.values():
        for c in [x for x in body_nodes(f.node) if isinstance(x, ast.Call) and norm(x.func) in ("re.fullmatch", "re.match", "re.compile", "re.search") and x.args and isinstance(x.args[0], ast.Constant) and isinstance(x.args[0].value, str)]:
            pat = c.args[0].value
            if "\\." not in pat:
                continue
            n += 1
            try:
                tree = sre_parse.parse(pat)
            except Exception as e:  # pragma: no cover
                rep.undecided("R-SUFFIX-SHAPE", f"pattern {pat!r} not parsable: {e}")
                continue

            def dots_under_repeat(items, in_rep=False):
                bad = False
                for op, av in items:
                    name = str(op)
                    if name in ("MAX_REPEAT", "MIN_REPEAT"):
                        lo, hi, sub = av
                        rep_many = hi is None or str(hi) == "MAXREPEAT" or (isinstance(hi, int) and hi > 1)
                        bad |= dots_under_repeat(sub, in_rep or rep_many)
                    elif name == "SUBPATTERN":
                        bad |= dots_under_repeat(av[3], in_rep)
                    elif name == "BRANCH":
                        for br in av[1]:
                            bad |= dots_under_repeat(br, in_rep)
                    elif name == "LITERAL" and av == ord(".") and in_rep:
                        bad = True
                return bad

            if uses_stem and dots_under_repeat(list(tree)):
                rep.violation("R-SUFFIX-SHAPE", f, c, f"the pattern {pat!r} in {f.qualname} admits suffixes with several dot-parts, but the storage finds `-new` files through Path.stem (one suffix stripped): such an external is referenced in the test file and never persisted", construct=f"{f.qualname}:multi-suffix")
            else:
                rep.ok("R-SUFFIX-SHAPE", f, c, f"pattern {pat!r}: one dot-part")
    rep.floor("R-SUFFIX-SHAPE", "name patterns with a suffix part in _external.py", n, 1)


def storage_no_cache(repo: Repo, rep):
    rep.rule(
        "R-STORAGE-NO-CACHE",
        "_external.py keeps no memory of the storage outside the storage: no function mutates a module-level container (set / dict / list).  The files of the "
        "storage change behind such a cache - prune_new_files() at every session start, remove() on trim - so 'already stored' remembered from an earlier "
        "session of the same process makes outsource() skip the save and the reference is written with no data behind it",
    )
    m = repo.module("_external.py")
    n = 0
    bad = 0
    for f in m.funcs.values():
        n += 1
        for x in body_nodes(f.node):
            tgt = None
            if isinstance(x, ast.Call) and isinstance(x.func, ast.Attribute) and x.func.attr in ("add", "append", "update", "setdefault", "extend", "discard", "remove", "pop", "clear") and isinstance(x.func.value, ast.Name):
                tgt = x.func.value.id
            if isinstance(x, (ast.Assign, ast.AugAssign)):
                for t in x.targets if isinstance(x, ast.Assign) else [x.target]:
                    if isinstance(t, ast.Subscript) and isinstance(t.value, ast.Name):
                        tgt = t.value.id
            if tgt and tgt in m.globals_assigned and tgt not in f.params and not any(isinstance(a, ast.Assign) and any(isinstance(tt, ast.Name) and tt.id == tgt for tt in a.targets) for a in body_nodes(f.node)):
                bad += 1
                rep.violation("R-STORAGE-NO-CACHE", f, x, f"{f.qualname} mutates the module-level `{tgt}`: what it remembers about the storage survives prune_new_files() / remove() and the next session of the same process", construct=f"{f.qualname}:{tgt}")
    # ... nor in the storage object itself: the files are the only state of DiscStorage.  A memo keyed by a (possibly shortened)
    # name answers for a name that has meanwhile become ambiguous or has lost its file - lookups are decided by the directory
    ds = None
    for k in repo.all_classes():
        if k.name == "DiscStorage" and k.module is m:
            ds = k
    if ds is not None:
        for f in ds.methods.values():
            selfn = f.params[0] if f.params else None
            for x in body_nodes(f.node):
                fld = None
                if isinstance(x, (ast.Assign, ast.AnnAssign, ast.AugAssign)):
                    tg = x.targets if isinstance(x, ast.Assign) else [x.target]
                    for t in tg:
                        if isinstance(t, ast.Subscript) and isinstance(t.value, ast.Attribute) and isinstance(t.value.value, ast.Name) and t.value.value.id == selfn:
                            fld = t.value.attr
                        if isinstance(t, ast.Attribute) and isinstance(t.value, ast.Name) and t.value.id == selfn and isinstance(getattr(x, "value", None), (ast.Dict, ast.Set, ast.List, ast.DictComp, ast.SetComp, ast.ListComp)):
                            fld = t.attr
                        if isinstance(t, ast.Attribute) and isinstance(t.value, ast.Name) and t.value.id == selfn and isinstance(getattr(x, "value", None), ast.Call) and norm(x.value.func) in ("dict", "set", "list", "defaultdict", "OrderedDict"):
                            fld = t.attr
                if isinstance(x, ast.Call) and isinstance(x.func, ast.Attribute) and x.func.attr in ("add", "append", "update", "setdefault", "extend") and isinstance(x.func.value, ast.Attribute) and isinstance(x.func.value.value, ast.Name) and x.func.value.value.id == selfn:
                    fld = x.func.value.attr
                if fld:
                    bad += 1
                    rep.violation(
                        "R-STORAGE-NO-CACHE",
                        f,
                        x,
                        f"DiscStorage.{f.name} keeps a container in `self.{fld}`: what the storage object remembers is not updated by persist() / remove() / prune_new_files() or by a second name for the same data - "
                        "a lookup that should fail (ambiguous shortened hash, deleted file) is answered from the memo",
                        construct=f"DiscStorage.{f.name}:self.{fld}",
                    )
    if not bad:
        rep.ok("R-STORAGE-NO-CACHE", repo.func("_external.py::outsource"), None, f"{n} functions, no module-level container is mutated, DiscStorage keeps no container", site="src/inline_snapshot/_external.py: module-level state")
