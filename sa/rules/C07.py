"""C07 - a wrong or missing snapshot never yields a green run.

Decided clauses (DESIGN.md section 3, C07): R-MISSING-COUNTED, R-INCORRECT-ROUTED,
R-FIXTURE.  Value-level behaviour (what pytest prints, exit status) is not decided.
"""
from __future__ import annotations

import ast
from typing import List, Optional

from ..cfg import cfg_of, edge_dominates, must_reach, node_calls, path_from, reach
from ..esp import val_str
from ..model import AnalysisError, Func, Repo, attr_chain, body_nodes, norm
from .common import dispatch_ops, expected_cmp, has_inc, op_table, table_preds, table_stats, trace_str

COUNTERS = ("missing_values", "incorrect_values")


def check(repo: Repo, rep, tier):
    _check(repo, rep, tier)
    from .C14 import state_global

    state_global(repo, rep)
    from .C19 import outer_compare

    outer_compare(repo, rep)
    sentinel_identity(repo, rep)
    from .C14 import reeval_type

    reeval_type(repo, rep)


def sentinel_identity(repo: Repo, rep):
    rep.rule(
        "R-SENTINEL-IDENTITY",
        "the `undefined` sentinel (no value given / nothing recorded) is recognised by identity only: every comparison with it in the package is `is` / "
        "`is not`.  `obj == undefined` hands the question to the user's `__eq__` - a value class whose `__eq__` reads attributes of the other object "
        "raises inside snapshot(), `mock.ANY` answers True and a defined snapshot counts as missing",
    )
    n = 0
    for f in repo.pkg_funcs():
        if f.module.rel.startswith("testing/"):
            continue
        for x in body_nodes(f.node):
            if isinstance(x, ast.Compare) and len(x.ops) == 1 and any(isinstance(o, ast.Name) and o.id == "undefined" for o in [x.left] + x.comparators):
                r_ = repo.resolve_name(f.module, "undefined")
                if not (r_ and r_[0] == "global" and r_[1][0].rel == "_sentinels.py"):
                    continue
                n += 1
                if isinstance(x.ops[0], (ast.Is, ast.IsNot)):
                    rep.ok("R-SENTINEL-IDENTITY", f, x, f"`{norm(x)}`")
                else:
                    rep.violation("R-SENTINEL-IDENTITY", f, x, f"{f.qualname} tests `{norm(x)}`: the sentinel is compared through the user's `__eq__` - a value with an unguarded `__eq__` raises inside snapshot() (also in disabled / CI mode, where snapshot(x) has to be x), an object that equals everything is taken for 'no value'", construct=f"{f.qualname}:{norm(x)}")
    rep.floor("R-SENTINEL-IDENTITY", "comparisons with the undefined sentinel", n, 10)


def usage_error_class(repo: Repo, rep):
    rep.rule(
        "R-USAGE-ERROR-CLASS",
        "the usage errors of the snapshot classes (a value that is not equal to its copy, a snapshot argument that changed) are instances of the public "
        "`inline_snapshot.UsageError` (`_exceptions.UsageError`): every module of `_snapshot/` / `_inline_snapshot.py` that raises `UsageError` imports "
        "that class - a second class of the same name (the unused one in _rewrite_code.py) is not caught by `pytest.raises(inline_snapshot.UsageError)`",
    )
    n = 0
    for m in repo.modules.values():
        if not (m.rel.startswith("_snapshot/") or m.rel in ("_inline_snapshot.py", "_external.py")):
            continue
        raises = [x for f in m.funcs.values() for x in body_nodes(f.node) if isinstance(x, ast.Raise) and x.exc is not None and "UsageError" in norm(x.exc)]
        if not raises:
            continue
        n += 1
        imp = m.imports.get("UsageError")
        origin = str(imp[0]) if imp else ""
        if origin.endswith("_exceptions") or origin.endswith("inline_snapshot"):
            rep.ok("R-USAGE-ERROR-CLASS", list(m.funcs.values())[0], raises[0], f"{m.rel}: UsageError from {origin}")
        else:
            rep.violation("R-USAGE-ERROR-CLASS", list(m.funcs.values())[0], raises[0], f"{m.rel} raises a `UsageError` imported from `{origin or '?'}`, not the public class of `_exceptions.py`: callers that catch `inline_snapshot.UsageError` no longer see the rejection", construct=f"{m.rel}:usage-error-origin")
    rep.floor("R-USAGE-ERROR-CLASS", "modules raising UsageError", n, 1)


def _check(repo: Repo, rep, tier):
    rep.not_decided = "pytest's outcome/exit status themselves; comparisons on values whose __eq__/ordering is inconsistent"
    rep.rule(
        "R-MISSING-COUNTED",
        "typestate over all 128 entry valuations (16 flag sets x old-undefined x new-undefined x compare-only): every returning path of an "
        "operation method entered with an undefined old value has incremented state().missing_values; DictValue.__getitem__ does so on every path that creates a child",
    )
    rep.rule(
        "R-INCORRECT-ROUTED",
        "same table: with a defined old value every returning path has evaluated the operation's own comparison of the OLD value with the operand "
        "(x==v, v<=x, v>=x, x in v), has incremented state().incorrect_values iff it was false, and never counts a missing value - under every flag set",
    )
    rep.rule(
        "R-FIXTURE",
        "snapshot_check is an autouse fixture; on the non-xfail path both counters are reset before the yield and not after it; after the yield "
        "every path to a normal return tests each counter (read after the yield) and the non-zero edge reaches pytest.fail; pytest.fail is reached only under such an edge",
    )
    ops = dispatch_ops(repo)
    n_methods = 0
    for op in ops:
        rows = op_table(repo, op)
        n_methods += 1
        param = op.func.params[1] if len(op.func.params) > 1 else None
        exp = expected_cmp(op, param) if param else None
        miss_bad = {}
        inc_bad = {}
        n_rows = 0
        for v, outs in rows:
            rets = [o for o in outs if o.kind == "ret"]
            for o in rets:
                n_rows += 1
                if v["OU"]:
                    if op.dunder == "__getitem__":
                        creates = any(e[0] == "new" and e[1] == "UndecidedValue" for e in o.p.eff)
                        if creates and not has_inc(o, "missing_values"):
                            miss_bad.setdefault("child created under an undefined parent without counting a missing value", (v, o))
                    else:
                        if not has_inc(o, "missing_values"):
                            miss_bad.setdefault("returns with an undefined old value without missing_values += 1", (v, o))
                else:
                    if has_inc(o, "missing_values"):
                        inc_bad.setdefault("counts a missing value although the old value is defined", (v, o))
                    if exp is None:
                        continue
                    a = o.p.assumed(exp)
                    if a is None:
                        inc_bad.setdefault(
                            f"returns {fmt(o.ret)} without having evaluated the comparison against the OLD value ({fmt(exp)}) - a wrong snapshot is not counted",
                            (v, o),
                        )
                    elif a is False and not has_inc(o, "incorrect_values"):
                        inc_bad.setdefault("comparison against the OLD value is false but incorrect_values is not incremented", (v, o))
                    elif a is True and has_inc(o, "incorrect_values"):
                        inc_bad.setdefault("comparison against the OLD value holds but incorrect_values is incremented (a correct test would be failed)", (v, o))
        # count all valuations that exhibit each defect for the witness
        for what, (v, o) in miss_bad.items():
            rep.violation("R-MISSING-COUNTED", op.func, op.func.node, f"{op.label}: {what}", [val_str(v), trace_str(o)], construct=op.label)
        if not miss_bad:
            rep.ok("R-MISSING-COUNTED", op.func, op.func.node, f"{op.label}: {n_rows} returning paths over 128 valuations")
        if exp is not None:
            for what, (v, o) in inc_bad.items():
                cnt = count_rows(rows, exp, what)
                rep.violation("R-INCORRECT-ROUTED", op.func, op.func.node, f"{op.label}: {what}", [f"first of {cnt} valuations: " + val_str(v), trace_str(o)], construct=f"{op.label}:{what.split(' (')[0][:60]}")
            if not inc_bad:
                rep.ok("R-INCORRECT-ROUTED", op.func, op.func.node, f"{op.label}: comparison {fmt(exp)} routed on all paths")
        need = {"OU"}
        if not need <= table_preds(repo, op):
            rep.undecided("R-MISSING-COUNTED", f"{op.label}: predicate 'old value is undefined' never recognised in the method (idiom changed)")
    rep.floor("R-MISSING-COUNTED", "operation methods", n_methods, 5)
    st = table_stats(repo)
    rep.count("valuations", st.get("valuations", 0))
    rep.count("esp_outcomes", st.get("outcomes", 0))
    fixture(repo, rep)


def count_rows(rows, exp, what):
    n = 0
    for v, outs in rows:
        if v["OU"]:
            continue
        for o in outs:
            if o.kind == "ret" and o.p.assumed(exp) is None:
                n += 1
                break
    return n


def fmt(t) -> str:
    if not isinstance(t, tuple):
        return repr(t)
    if t[0] == "cmp":
        return f"({fmt(t[2])} {t[1]} {fmt(t[3])})"
    if t[0] == "param":
        return t[1]
    if t[0] == "const":
        return repr(t[1])
    if t[0] in ("OLD", "NEW"):
        return t[0].lower() + "_value"
    if t[0] == "clone":
        return f"clone({fmt(t[1])})"
    return str(t)[:80]


# ---------------------------------------------------------------- the fixture


def counter_of(e: ast.AST, aliases) -> Optional[str]:
    """Which counter an expression reads (state().C or an alias)."""
    if isinstance(e, ast.Name) and e.id in aliases:
        return aliases[e.id][0]
    ch = attr_chain(e) if isinstance(e, (ast.Attribute,)) else None
    if ch and len(ch) == 2 and ch[1] in COUNTERS and (ch[0] == "state()" or ch[0] in aliases.get("#state", ())):
        return ch[1]
    return None


def nonzero_edge(test: ast.AST, aliases):
    """(counter, label of the edge on which the counter is non-zero) or None."""
    c = counter_of(test, aliases)
    if c:
        return c, "T"
    if isinstance(test, ast.Compare) and len(test.ops) == 1:
        l, r, o = test.left, test.comparators[0], test.ops[0]
        for a, b, flip in ((l, r, False), (r, l, True)):
            c = counter_of(a, aliases)
            if c and isinstance(b, ast.Constant) and isinstance(b.value, int):
                k = b.value
                if isinstance(o, ast.NotEq) and k == 0:
                    return c, "T"
                if isinstance(o, ast.Eq) and k == 0:
                    return c, "F"
                gt = (isinstance(o, ast.Gt) and not flip) or (isinstance(o, ast.Lt) and flip)
                ge = (isinstance(o, ast.GtE) and not flip) or (isinstance(o, ast.LtE) and flip)
                if gt and k == 0:
                    return c, "T"
                if ge and k == 1:
                    return c, "T"
    return None


def is_pytest_fail(c: ast.Call) -> bool:
    return norm(c.func) in ("pytest.fail", "fail", "pytest.exit")


def fixture(repo: Repo, rep):
    f = repo.func("pytest_plugin.py::snapshot_check")
    cfg = cfg_of(f)
    # autouse
    dec_ok = False
    for d in f.node.decorator_list:
        if isinstance(d, ast.Call) and norm(d.func).endswith("fixture"):
            for k in d.keywords:
                if k.arg == "autouse" and isinstance(k.value, ast.Constant) and k.value.value is True:
                    dec_ok = True
    if dec_ok:
        rep.ok("R-FIXTURE", f, f.node, "decorated with fixture(autouse=True)")
    else:
        rep.violation("R-FIXTURE", f, f.node, "snapshot_check is not an autouse fixture: tests that do not request it are never failed", construct="autouse")
    yields = [n for n in cfg.live if n.is_yield]
    # the non-xfail yield: not lexically inside a `with snapshot_env()`
    from ..model import ancestors

    def in_private_env(n):
        return any(isinstance(a, ast.With) and any("snapshot_env" in norm(i.context_expr) for i in a.items) for a in ancestors(n.ast))

    main = [y for y in yields if not in_private_env(y)]
    rep.floor("R-FIXTURE", "non-xfail yield", len(main), 1)
    if not main:
        return
    for y in main:
        after = reach(cfg, [b for b, l in y.succ if l != "exc"])
        before = set(cfg.live) - after - {y}
        # resets
        for c in COUNTERS:
            resets = [
                n
                for n in cfg.stmts(ast.Assign)
                if any(isinstance(t, ast.Attribute) and t.attr == c and (attr_chain(t) or [""])[0] == "state()" for t in n.ast.targets)
                and isinstance(n.ast.value, ast.Constant)
                and n.ast.value.value == 0
            ]
            pre = [n for n in resets if n in before]
            post = [n for n in resets if n in after]
            from ..cfg import nodes_dominate

            if pre and nodes_dominate(cfg, pre, y):
                rep.ok("R-FIXTURE", f, pre[0].ast, f"state().{c} reset on every path to the yield")
            else:
                rep.violation("R-FIXTURE", f, y.ast, f"state().{c} is not reset to 0 on every path before the test body runs (stale counts fail or mask tests)", construct=f"reset:{c}")
            for n in post:
                rep.violation("R-FIXTURE", f, n.ast, f"state().{c} is reset after the test body ran: its failures are forgotten", construct=f"post-reset:{c}")
        # aliases read after / before the yield
        aliases = {}
        for n in cfg.stmts(ast.Assign):
            if len(n.ast.targets) == 1 and isinstance(n.ast.targets[0], ast.Name):
                ch = attr_chain(n.ast.value) if isinstance(n.ast.value, ast.Attribute) else None
                if ch and len(ch) == 2 and ch[0] == "state()" and ch[1] in COUNTERS:
                    aliases[n.ast.targets[0].id] = (ch[1], n)
        for name, (c, n) in aliases.items():
            if n not in after:
                used_after = any(isinstance(x, ast.Name) and x.id == name for m in after if m.ast is not None and m.kind == "cond" for x in ast.walk(m.ast))
                if used_after:
                    rep.violation("R-FIXTURE", f, n.ast, f"{c} is read before the yield and tested after it: the test body's failures are not seen", construct=f"stale:{c}")
        fails = [n for n in after if n.kind == "stmt" and any(is_pytest_fail(c) for c in node_calls(n))]
        rep.floor("R-FIXTURE", "pytest.fail sites", len(fails), 2)
        for c in COUNTERS:
            conds = []
            for n in after:
                if n.kind == "cond":
                    ne = nonzero_edge(n.ast, aliases)
                    if ne and ne[0] == c:
                        conds.append((n, ne[1]))
            if not conds:
                rep.violation("R-FIXTURE", f, y.ast, f"{c} is never tested after the test body: a test with {c.replace('_', ' ')} > 0 stays green", construct=f"untested:{c}")
                continue
            # every normal path from the yield to RET passes a test of c or a pytest.fail
            if not must_reach(cfg, y, [n for n, _ in conds] + fails, [cfg.ret], skip_labels=("exc",)):
                w = path_from(cfg, y, [cfg.ret], blocked_nodes=[n for n, _ in conds] + fails, skip_labels=("exc",))
                rep.violation("R-FIXTURE", f, y.ast, f"a path from the yield to the end of the fixture does not test {c}", w or "", construct=f"bypass:{c}")
            else:
                rep.ok("R-FIXTURE", f, conds[0][0].ast, f"{c} tested on every normal path after the yield")
            for n, lab in conds:
                starts = [b for b, l in n.succ if l == lab]
                r = reach(cfg, starts, blocked_nodes=fails, skip_labels=("exc",))
                if cfg.ret in r:
                    rep.violation("R-FIXTURE", f, n.ast, f"non-zero {c} can reach the end of the fixture without pytest.fail", construct=f"nofail:{c}")
                else:
                    rep.ok("R-FIXTURE", f, n.ast, f"{c} != 0 always reaches pytest.fail")
        # converse: fail only under a non-zero edge
        for fn in fails:
            guarded = False
            for n in after:
                if n.kind == "cond":
                    ne = nonzero_edge(n.ast, aliases)
                    if ne and edge_dominates(cfg, (n, ne[1]), fn):
                        guarded = True
            if guarded:
                rep.ok("R-FIXTURE", f, fn.ast, "pytest.fail only under a non-zero counter")
            else:
                rep.violation("R-FIXTURE", f, fn.ast, "pytest.fail is reachable although both counters are zero (a correct test would be failed)", construct=fn.ast)
