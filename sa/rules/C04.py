"""C04 - nothing is written without approval; exactly the approved categories apply."""
from __future__ import annotations

import ast
from typing import List, Optional, Tuple

from ..callgraph import callgraph
from ..cfg import CFG, Node, cfg_of, edge_dominates, edges_dominate, must_reach, node_calls, node_dominates, nodes_dominate, path_to, reach
from ..defuse import def_value, defs_of, derives_from, names_in, reaching_defs, resolve_alias
from ..esp import UNKNOWN, STATE, run_function, valuations
from ..model import AnalysisError, Func, Repo, ancestors, attr_chain, body_nodes, norm, parent, short

CATS = ("create", "fix", "trim", "update")

# ---------------------------------------------------------------- recognisers


def is_state_flags(e: ast.AST, cfg: CFG, node: Node, local_flags: Tuple[str, ...] = ()) -> bool:
    """`state().flags`, a local alias of it, or (in pytest_configure) the local
    that is stored into state().flags."""
    if isinstance(e, ast.Name):
        if e.id in local_flags:
            return True
        r = resolve_alias(cfg, node, e)
        if r is e:
            return False
        e = r
    ch = attr_chain(e) if isinstance(e, ast.Attribute) else None
    return bool(ch) and ch == ["state()", "flags"]


def membership(test: ast.AST, cfg: CFG, node: Node, local_flags=()) -> Optional[Tuple[ast.AST, str]]:
    """(item expression, label of the edge on which `item in <session flags>` holds)."""
    if isinstance(test, ast.Compare) and len(test.ops) == 1 and isinstance(test.ops[0], (ast.In, ast.NotIn)):
        if is_state_flags(test.comparators[0], cfg, node, local_flags):
            return test.left, ("T" if isinstance(test.ops[0], ast.In) else "F")
    if isinstance(test, ast.BinOp) and isinstance(test.op, ast.BitAnd):
        for a, b in ((test.left, test.right), (test.right, test.left)):
            if is_state_flags(b, cfg, node, local_flags) and isinstance(a, ast.Set) and len(a.elts) == 1:
                return a.elts[0], "T"
    return None


def same_item(item: ast.AST, want) -> bool:
    """want: a variable name (str prefixed '$') or a string constant."""
    if isinstance(want, str) and want.startswith("$"):
        return isinstance(item, ast.Name) and item.id == want[1:]
    return isinstance(item, ast.Constant) and item.value == want


_prompt_ctx = {"repo": None, "module": None}


def prompt_is_rich_confirm(c: ast.Call) -> Optional[str]:
    """None when the receiver of `.ask(...)` is rich.prompt.Confirm itself (its parsing of the answer is the trusted base); else why not."""
    repo, m = _prompt_ctx["repo"], _prompt_ctx["module"]
    if repo is None or not (isinstance(c.func, ast.Attribute) and isinstance(c.func.value, ast.Name)):
        return None
    r = repo.resolve_name(m, c.func.value.id)
    if r is None:
        return None
    if r[0] == "ext":
        return None if r[1].endswith("Confirm") else f"`{c.func.value.id}` is {r[1]}, not rich.prompt.Confirm"
    if r[0] == "class":
        k = r[1]
        over = [n for n in ("process_response", "check_choice", "__call__", "ask", "get_input") if n in k.methods]
        if over:
            return f"`{k.name}` is a prompt class of the package that overrides {', '.join(over)}: what counts as a 'y' answer is no longer rich's"
        return None
    return None


def confirm_default_false(c: ast.Call) -> bool:
    if not (isinstance(c.func, ast.Attribute) and c.func.attr == "ask"):
        return False
    if prompt_is_rich_confirm(c) is not None:
        return False
    for k in c.keywords:
        if k.arg == "default":
            return isinstance(k.value, ast.Constant) and k.value.value is False
    return True  # rich's default for Confirm.ask is ... (no default => user must answer)


def approval_summary(repo: Repo, g: Func) -> Tuple[bool, str]:
    """Is g(flag) an approval predicate?  Every return that may be truthy is under
    `flag in state().flags`, or is the value of Confirm.ask(default=False) under
    `"review" in state().flags`."""
    _prompt_ctx["repo"], _prompt_ctx["module"] = repo, g.module
    if not g.params:
        return False, "no parameter"
    p = g.params[0]
    cfg = cfg_of(g)
    rets = cfg.stmts(ast.Return)
    if not rets:
        return False, "no return"
    for r in rets:
        v = r.ast.value
        if v is None or (isinstance(v, ast.Constant) and not v.value):
            continue
        direct = [(c, m[1]) for c in cfg.conds() for m in [membership(c.ast, cfg, c)] if m and same_item(m[0], "$" + p)]
        if isinstance(v, ast.Constant) and v.value:
            if not (direct and edges_dominate(cfg, direct, r)):
                return False, f"`return {norm(v)}` at line {r.line} is not under `{p} in state().flags`"
            continue
        if isinstance(v, ast.Name):
            ds = reaching_defs(cfg, r, v.id)
            vals = [def_value(d, v.id) for d in ds]
            bad_prompt = [prompt_is_rich_confirm(x) for x in vals if isinstance(x, ast.Call) and norm(x.func).endswith("ask") and prompt_is_rich_confirm(x)]
            if bad_prompt:
                return False, f"the review answer at line {r.line} is not parsed by rich's Confirm: {bad_prompt[0]}"
            if ds and all(isinstance(x, ast.Call) and norm(x.func).endswith("Confirm.ask") and confirm_default_false(x) for x in vals):
                rev = [(c, m[1]) for c in cfg.conds() for m in [membership(c.ast, cfg, c)] if m and same_item(m[0], "review")]
                if rev and edges_dominate(cfg, rev, r):
                    continue
                return False, f"prompt result returned at line {r.line} outside review mode"
            if direct and edges_dominate(cfg, direct, r):
                continue
            return False, f"`return {v.id}` at line {r.line}: value is not a Confirm.ask(default=False) answer"
        if direct and edges_dominate(cfg, direct, r):
            continue
        return False, f"`return {short(v, 40)}` at line {r.line} may be truthy without approval"
    return True, "every possibly-truthy return is a flag membership or a review answer"


def approval_edges(repo: Repo, f: Func, cfg: CFG, want, notes: list) -> List[Tuple[Node, str]]:
    cg = callgraph(repo)
    out = []
    for c in cfg.conds():
        m = membership(c.ast, cfg, c)
        if m and same_item(m[0], want):
            out.append((c, m[1]))
            continue
        e = c.ast
        if isinstance(e, ast.Call) and e.args and same_item(e.args[0], want):
            tg, how = cg.call_targets(f, e)
            for g in tg:
                okk, why = approval_summary(repo, g)
                notes.append(f"{g.qualname}: {why}")
                if okk:
                    out.append((c, "T"))
    return out


# ------------------------------------------------------------------- the rules

from .common import stale_bindings


def check(repo: Repo, rep, tier):
    rep.not_decided = "parsing of the flag strings, Confirm.ask itself, TOML reading; that an applied change does what its category says (C05)"
    writers(repo, rep)
    session_gate(repo, rep)
    configure(repo, rep)
    xfail(repo, rep)
    xfail_marker(repo, rep)
    inactive(repo, rep)
    driver_filter(repo, rep)
    flags_not_approval(repo, rep)
    ci_detect(repo, rep)
    xdist_worker(repo, rep)
    approval_complete(repo, rep)
    from .C19 import fresh_state

    fresh_state(repo, rep)
    from .C13 import persist_unique

    # persisting an external is a write: only the one file an approved change refers to
    persist_unique(repo, rep)
    stale_bindings(repo, rep, {"config", "_current"}, "e.g. a copied state/config object keeps the flags of import time, so approval decisions are taken on stale data")
    from .C13 import persist_remove, content_addr

    # an approved create is applied completely: the data behind every written reference is stored and persisted
    persist_remove(repo, rep)
    content_addr(repo, rep)
    from .C02 import file_loops_total

    file_loops_total(repo, rep)


WRITER_TABLE = {
    # function key -> reason it may contain a file-system write / subprocess primitive
    "_rewrite_code.py::SourceFile.rewrite": "the one place a test file is written",
    "_external.py::DiscStorage._ensure_directory": "creates the storage dir and its .gitignore",
    "_external.py::DiscStorage.save": "stores outsourced data as <hash>-new<suffix>",
    "_external.py::DiscStorage.prune_new_files": "removes unreferenced -new files at session start",
    "_external.py::DiscStorage.persist": "renames -new data when its reference is written",
    "_external.py::DiscStorage.remove": "removes an unused external (trim)",
    "testing/_example.py::Example._write_files": "writes the example project into a TemporaryDirectory",
    "_format.py::format_code": "PROC: runs the configured format-command",
    "testing/_example.py::Example.run_pytest": "PROC: runs pytest on the temporary project",
}

# writer function -> the only entry points (roots of the package call graph) that may reach it
WHO_MAY = {
    "_rewrite_code.py::SourceFile.rewrite": {"pytest_plugin.py::pytest_sessionfinish", "testing/_example.py::Example.run_inline"},
    "_external.py::DiscStorage.remove": {"pytest_plugin.py::pytest_sessionfinish"},
    "_external.py::DiscStorage.persist": {"pytest_plugin.py::pytest_sessionfinish"},
    "_external.py::DiscStorage.prune_new_files": {"pytest_plugin.py::pytest_configure"},
    "_external.py::DiscStorage.save": {"_external.py::outsource"},
}

TRACKED = ("filename", "__file__", "files_with_snapshots", "directory", "storage", "_source", "rootpath", "f_code", "co_filename")


def writers(repo: Repo, rep):
    rep.rule(
        "R-WRITERS",
        "every file-system-write / subprocess primitive of the package (open with a write mode, write_text/bytes, mkdir, rename, unlink, "
        "shutil.*, os.remove..., subprocess.*) sits in a function of the reasoned writer table; a primitive elsewhere whose target derives from a "
        "tracked path (a file name of a source/change, __file__, files_with_snapshots, the storage directory) is a violation",
    )
    rep.rule(
        "R-WHO-MAY-WRITE",
        "call-graph: SourceFile.rewrite is reachable only from pytest_sessionfinish and Example.run_inline; DiscStorage.remove/persist only from "
        "pytest_sessionfinish; prune_new_files only from pytest_configure; save only from outsource (helpers extracted in between are followed)",
    )
    cg = callgraph(repo)
    sites = 0
    for key, ps in cg.prims.items():
        f = repo.funcs[key]
        if f.module.rel.startswith("@"):
            continue
        for c, kind, desc in ps:
            if kind not in ("FS_WRITE", "PROC"):
                continue
            sites += 1
            base_key = key
            g = f
            while g.parent is not None:
                g = g.parent
                base_key = g.key
            if key in WRITER_TABLE or base_key in WRITER_TABLE:
                rep.ok("R-WRITERS", f, c, f"{kind} {desc}: {WRITER_TABLE.get(key) or WRITER_TABLE[base_key]}")
                continue
            # owners: the storage class owns writes below its directory, _format.py owns the formatter subprocess
            if kind == "FS_WRITE" and f.cls is not None and f.cls.name == "DiscStorage" and f.module.rel == "_external.py" and "self.directory" in norm(c) + " ".join(norm(x) for x in body_nodes(f.node) if isinstance(x, ast.Assign)):
                rep.ok("R-WRITERS", f, c, f"{kind} {desc}: inside DiscStorage, below self.directory (callers are constrained by R-WHO-MAY-WRITE)")
                continue
            if kind == "PROC" and f.module.rel == "_format.py":
                rep.ok("R-WRITERS", f, c, f"{kind} {desc}: the formatter subprocess, owned by _format.py")
                continue
            cfg = cfg_of(f)
            nodes = cfg.nodes_containing(c)
            tgt = c.func.value if isinstance(c.func, ast.Attribute) else (c.args[0] if c.args else None)
            tracked = False
            if tgt is not None and nodes:
                tracked = derives_from(cfg, nodes[0], tgt, lambda x: (isinstance(x, ast.Attribute) and x.attr in TRACKED) or (isinstance(x, ast.Name) and x.id in TRACKED))
            if tracked:
                rep.violation("R-WRITERS", f, c, f"new {kind} primitive `{short(c, 60)}` outside the writer table, on a path derived from a tracked file: files can change without passing the approval gate")
            else:
                rep.undecided("R-WRITERS", f"unaudited {kind} primitive `{short(c, 60)}` in {key}:{c.lineno} (not in the writer table; target not related to a tracked path) - audit and add to the table")
    rep.floor("R-WRITERS", "effect sites", sites, 11)
    rep.count("effect_sites", sites)
    rep.count("call_edges", sum(len(v) for v in cg.edges.values()))
    # who may call: walk callers upwards to the roots
    for wkey, allowed in WHO_MAY.items():
        w = repo.func(wkey)
        roots = set()
        seen = set()
        stack = [w]
        chain = {}
        while stack:
            g = stack.pop()
            if g.key in seen:
                continue
            seen.add(g.key)
            if g.key in allowed:
                roots.add(g.key)
                continue  # do not look above a legitimate entry point
            callers = [(cf, c, how) for cf, c, how in cg.callers.get(g.key, []) if not cf.module.rel.startswith("@")]
            if g.parent is not None:
                callers.append((g.parent, g.node, "nested"))
            if not callers and g is not w:
                roots.add(g.key)
            for cf, c, how in callers:
                chain.setdefault(cf.key, (g.key, getattr(c, "lineno", 0)))
                stack.append(cf)
        extra = roots - allowed
        if not (roots & allowed):
            rep.undecided("R-WHO-MAY-WRITE", f"{wkey} is not reachable from any of its expected entry points {sorted(allowed)}")
        for r in sorted(extra):
            fr = repo.funcs[r]
            path = [r]
            k = r
            while k in chain and len(path) < 8:
                k = chain[k][0]
                path.append(k)
            rep.violation("R-WHO-MAY-WRITE", fr, fr.node, f"{w.qualname} is reachable from {fr.qualname}, which is not one of its approved entry points", " -> ".join(path), construct=f"{w.qualname}<={fr.qualname}")
        if not extra:
            rep.ok("R-WHO-MAY-WRITE", w, w.node, f"{w.qualname} reachable only from {sorted(roots)}")


def detector_role(g: Func) -> Optional[str]:
    """Which environment detector is g?  By what it reads, not by its name: xdist's option
    `numprocesses` / `workerinput` / PYTEST_XDIST_WORKER; a table of CI variables containing "CI";
    `sys.implementation`."""
    if g.module.rel != "pytest_plugin.py":
        return None
    attrs = {x.attr for x in body_nodes(g.node) if isinstance(x, ast.Attribute)}
    consts = {x.value for x in body_nodes(g.node) if isinstance(x, ast.Constant) and isinstance(x.value, str)}
    if {"numprocesses", "workerinput"} & (attrs | consts) or "PYTEST_XDIST_WORKER" in consts:
        return "xdist"
    if "implementation" in attrs:
        return "impl"
    if {"CI", "GITHUB_ACTIONS"} <= consts:
        return "ci"
    return None


def detectors(repo: Repo, role: str) -> List[Func]:
    m = repo.modules.get("pytest_plugin.py")
    return [g for g in repo.pkg_funcs() if g.module is m and g.parent is None and g.cls is None and not g.name.startswith("pytest_") and detector_role(g) == role]


def the_detector(repo: Repo, role: str, fallback: str) -> Func:
    ds = detectors(repo, role)
    return ds[0] if len(ds) == 1 else repo.func(fallback)


def guard_atoms(repo: Repo, f: Func, cfg: CFG):
    """Condition nodes of the 'session is disabled' guards and the label of their
    *enabled* edge."""
    cg = callgraph(repo)
    out = {"xdist": [], "ci": [], "impl": [], "active": [], "short-report": []}
    for c in cfg.conds():
        e = c.ast
        if isinstance(e, ast.NamedExpr):
            e = e.value
        if isinstance(e, ast.Name):
            # `env_var = is_ci_run()` ... `if env_var:` - the answer of a detector held in a local
            e2 = resolve_alias(cfg, c, e)
            if isinstance(e2, ast.Call):
                e = e2
        if isinstance(e, ast.Call):
            tg, _ = cg.call_targets(f, e)
            roles = {detector_role(t) for t in tg}
            if "xdist" in roles:
                out["xdist"].append((c, "F"))
            if "ci" in roles:
                out["ci"].append((c, "F"))
            if "impl" in roles:
                out["impl"].append((c, "T"))
        # the implementation test written out in place: `sys.implementation.name == "cpython"` (enabled on the true edge of ==)
        if isinstance(e, ast.Compare) and len(e.ops) == 1 and isinstance(e.ops[0], (ast.Eq, ast.NotEq, ast.Is, ast.IsNot)) and any(isinstance(x, ast.Attribute) and x.attr == "implementation" for x in ast.walk(e)) and any(isinstance(x, ast.Constant) and x.value == "cpython" for x in ast.walk(e)):
            out["impl"].append((c, "T" if isinstance(e.ops[0], (ast.Eq, ast.Is)) else "F"))
        ch = attr_chain(e) if isinstance(e, ast.Attribute) else None
        if ch == ["state()", "active"]:
            out["active"].append((c, "T"))
        if isinstance(e, ast.Compare) and len(e.ops) == 1 and isinstance(e.left, ast.Attribute) and attr_chain(e.left) == ["state()", "active"] and isinstance(e.comparators[0], ast.Constant) and isinstance(e.comparators[0].value, bool):
            # `state().active is False` / `== True` ...
            same = isinstance(e.ops[0], (ast.Is, ast.Eq))
            if isinstance(e.ops[0], (ast.Is, ast.Eq, ast.IsNot, ast.NotEq)):
                truthy_when_T = e.comparators[0].value if same else not e.comparators[0].value
                out["active"].append((c, "T" if truthy_when_T else "F"))
        m = membership(c.ast, cfg, c)
        if m and same_item(m[0], "short-report"):
            out["short-report"].append((c, "F" if m[1] == "T" else "T"))
    return out


def session_gate(repo: Repo, rep):
    rep.rule(
        "R-APPROVAL-GATE",
        "in pytest_sessionfinish: the recorder on which fix_all() is called receives changes only through apply_all(L, recorder) where every "
        "statement growing L adds `changes[V]` and is dominated by the true edge of an approval predicate for the same V - `V in state().flags`, "
        "or a function whose every possibly-truthy return is that membership or a Confirm.ask(default=False) answer under 'review' in state().flags "
        "(state().update_flags is NOT an approval: review mode sets it to all); `changes` is filled by each change's own .flag; storage.remove "
        "is dominated by an approval predicate for 'trim'",
    )
    rep.rule(
        "R-EARLY-EXIT",
        "every call in pytest_sessionfinish that reaches a file-system write is dominated by the enabled edge of state().active and of "
        "'short-report' not in state().flags, and - directly or through pytest_configure's `active = False` - of the xdist, CI and implementation guards",
    )
    f = repo.func("pytest_plugin.py::pytest_sessionfinish")
    cfg = cfg_of(f)
    cg = callgraph(repo)
    rep.count("cfg_nodes", len(cfg.live))
    # writer-reaching call nodes
    wnodes = []
    for n in cfg.live:
        for c in node_calls(n):
            tg, how = cg.call_targets(f, c)
            for t in tg:
                eff = cg.effects_of(t, ("FS_WRITE",))
                eff = [e for e in eff if e[0].key in WRITER_TABLE and not e[0].key.startswith("testing/")]
                if eff:
                    wnodes.append((n, c, t, sorted({e[0].qualname for e in eff})))
    rep.floor("R-EARLY-EXIT", "write-reaching calls in the hook", len(wnodes), 3)
    atoms = guard_atoms(repo, f, cfg)
    conf = repo.func("pytest_plugin.py::pytest_configure")
    conf_disables = configure_disables(repo, conf)
    for n, c, t, effs in wnodes:
        for g in ("active", "short-report"):
            if atoms[g] and edges_dominate(cfg, atoms[g], n):
                rep.ok("R-EARLY-EXIT", f, c, f"{t.qualname}: guarded by {g}")
            else:
                rep.violation(
                    "R-EARLY-EXIT",
                    f,
                    c,
                    f"`{short(c, 50)}` (reaches {', '.join(effs)}) can run "
                    + ("in an inactive/disabled session" if g == "active" else "although only a short report was asked for"),
                    path_to(cfg, n, blocked_edges=atoms[g]) or "",
                    construct=f"{g}:{norm(c.func)}",
                )
        for g in ("xdist", "ci", "impl"):
            direct = atoms[g] and edges_dominate(cfg, atoms[g], n)
            via_active = atoms["active"] and edges_dominate(cfg, atoms["active"], n) and conf_disables.get(g)
            if direct or via_active:
                rep.ok("R-EARLY-EXIT", f, c, f"{t.qualname}: guarded against {g} ({'direct' if direct else 'via active=False in pytest_configure'})")
            else:
                rep.violation("R-EARLY-EXIT", f, c, f"`{short(c, 50)}` (reaches {', '.join(effs)}) is not guarded against a {g}-disabled session", construct=f"{g}:{norm(c.func)}")
    # ---- approval gate
    fix_nodes = []
    for n, c, t, effs in wnodes:
        if "SourceFile.rewrite" not in effs:
            continue
        # the recorder: receiver of `cr.fix_all()` or a name handed to a helper that writes
        cands = []
        if isinstance(c.func, ast.Attribute) and isinstance(c.func.value, ast.Name):
            cands.append(c.func.value.id)
        cands += [a.id for a in c.args if isinstance(a, ast.Name)]
        for r in cands:
            if reaching_defs(cfg, n, r):
                fix_nodes.append((n, c, r))
    rep.floor("R-APPROVAL-GATE", "fix_all sites", len(fix_nodes), 1)
    notes: list = []
    approved_lists = set()
    for n, c, rname in fix_nodes:
        rdefs = reaching_defs(cfg, n, rname, correlate=True)
        # apply_all(L, R) calls between the recorder's definition and fix_all
        feeding = []
        for m in cfg.live:
            for cc in node_calls(m):
                tg, _ = cg.call_targets(f, cc)
                if any(t.key == "_change.py::apply_all" for t in tg) and len(cc.args) >= 2 and isinstance(cc.args[1], ast.Name) and cc.args[1].id == rname:
                    # same recorder object: shares a reaching definition with the fix_all site
                    if set(reaching_defs(cfg, m, rname)) & set(rdefs) and n in reach(cfg, [m]):
                        feeding.append((m, cc))
        if not feeding and len([x for x in fix_nodes if x[0] is n]) == 1:
            rep.violation(
                "R-APPROVAL-GATE",
                f,
                c,
                f"the recorder `{rname}` that `{norm(c)}` writes to disk is not filled by an apply_all(<approved list>, {rname}) of its own: it is an alias of / shares state with another recorder "
                "(e.g. the preview of a category that was only shown), so changes the user did not approve are written",
                construct=f"unfed-recorder:{rname}",
            )
        for m, cc in feeding:
            L = cc.args[0]
            if not isinstance(L, ast.Name):
                rep.violation("R-APPROVAL-GATE", f, cc, f"`{short(cc, 60)}` applies `{short(L, 40)}` to the recorder that is written to disk; only the list of approved changes may be applied there")
                continue
            approved_lists.add(L.id)
            rep.ok("R-APPROVAL-GATE", f, cc, f"recorder `{rname}` written by fix_all is fed from the list `{L.id}`")
    grow_sites = 0
    for L in sorted(approved_lists):
        for d in defs_of(cfg, L):
            a = d.ast
            if d.kind != "stmt":
                continue
            added = None
            if isinstance(a, ast.Assign):
                v = a.value
                if isinstance(v, (ast.List, ast.Tuple)) and not v.elts:
                    continue
                if isinstance(v, ast.BinOp) and isinstance(v.op, ast.Add) and isinstance(v.left, ast.Name) and v.left.id == L:
                    added = v.right
                else:
                    added = v
            elif isinstance(a, ast.AugAssign):
                added = a.value
            if added is not None:
                grow_sites += 1
                gate_growth(repo, rep, f, cfg, d, L, added, notes)
        for m in cfg.live:
            for cc in node_calls(m):
                if isinstance(cc.func, ast.Attribute) and isinstance(cc.func.value, ast.Name) and cc.func.value.id == L and cc.func.attr in ("append", "extend", "insert") and cc.args:
                    grow_sites += 1
                    gate_growth(repo, rep, f, cfg, m, L, cc.args[-1], notes)
    rep.floor("R-APPROVAL-GATE", "statements growing the approved list", grow_sites, 1)
    rep.extra["approval_predicates"] = sorted(set(notes))
    # ---- destructive storage effects
    for n, c, t, effs in wnodes:
        if t.key == "_external.py::DiscStorage.remove":
            edges = approval_edges(repo, f, cfg, "trim", notes)
            if edges and edges_dominate(cfg, edges, n):
                rep.ok("R-APPROVAL-GATE", f, c, "storage.remove under an approval predicate for 'trim'")
            else:
                dom = [f"{cn.text()[:40]}->{l}" for cn, l in _dom_conds(cfg, n)]
                rep.violation(
                    "R-APPROVAL-GATE",
                    f,
                    c,
                    "persisted externals are removed without an approval predicate for 'trim' (state().update_flags.trim is set to all categories by review mode, whatever the user answers)",
                    "dominating conditions: " + ", ".join(dom),
                    construct="remove-gate",
                )


def _dom_conds(cfg, n):
    from ..cfg import dominating_edges

    seen = []
    for e in dominating_edges(cfg, n):
        if e[0].kind == "cond" and (e[0].text(), e[1]) not in [(x[0].text(), x[1]) for x in seen]:
            seen.append(e)
    return seen


def gate_growth(repo, rep, f, cfg, node, L, added, notes):
    """`L += changes[V]`: V must be approved on every path to this statement."""
    src = added
    if isinstance(src, ast.Name):
        src = resolve_alias(cfg, node, src)
    # filtered comprehension over changes: [c for c in all if c.flag in state().flags]
    if isinstance(src, (ast.ListComp, ast.GeneratorExp)):
        g = src.generators[0]
        ok = any(
            isinstance(i, ast.Compare) and isinstance(i.ops[0], ast.In) and isinstance(i.left, ast.Attribute) and i.left.attr == "flag" and is_state_flags(i.comparators[0], cfg, node)
            for i in g.ifs
        )
        if ok:
            rep.ok("R-APPROVAL-GATE", f, node.ast, f"`{L}` grown by a comprehension filtered on `.flag in state().flags`")
        else:
            rep.violation("R-APPROVAL-GATE", f, node.ast, f"`{short(node.ast, 60)}` adds changes to the to-be-written list without filtering on the approved flags")
        return
    if isinstance(src, ast.Subscript):
        idx = src.slice
        want = None
        if isinstance(idx, ast.Name):
            want = "$" + idx.id
        elif isinstance(idx, ast.Constant) and isinstance(idx.value, str):
            want = idx.value
        if want is not None:
            edges = approval_edges(repo, f, cfg, want, notes)
            if edges and edges_dominate(cfg, edges, node):
                rep.ok("R-APPROVAL-GATE", f, node.ast, f"`{short(node.ast, 50)}` dominated by approval of {want.lstrip('$')}")
                partition(repo, rep, f, cfg, src.value)
            else:
                w = path_to(cfg, node, blocked_edges=edges) or []
                rep.violation(
                    "R-APPROVAL-GATE",
                    f,
                    node.ast,
                    f"`{short(node.ast, 60)}` can execute without the user having approved category `{want.lstrip('$')}` (flag not in state().flags and no confirmed review answer)",
                    w[-6:],
                )
            return
    rep.violation("R-APPROVAL-GATE", f, node.ast, f"`{short(node.ast, 60)}` adds changes that are not selected by an approved category")


_partition_done = set()


def partition(repo, rep, f, cfg, container: ast.AST):
    """changes[<x>.flag].append(<x>): the per-category lists are filled by each change's own flag."""
    if not isinstance(container, ast.Name) or (id(cfg), container.id) in _partition_done:
        return
    _partition_done.add((id(cfg), container.id))
    found = 0
    for m in cfg.live:
        for cc in node_calls(m):
            fn = cc.func
            if isinstance(fn, ast.Attribute) and fn.attr in ("append", "extend") and isinstance(fn.value, ast.Subscript) and isinstance(fn.value.value, ast.Name) and fn.value.value.id == container.id:
                found += 1
                key = fn.value.slice
                arg = cc.args[0] if cc.args else None
                if isinstance(key, ast.Attribute) and key.attr == "flag" and isinstance(arg, ast.Name) and isinstance(key.value, ast.Name) and key.value.id == arg.id:
                    rep.ok("R-APPROVAL-GATE", f, cc, f"`{container.id}` partitioned by the change's own flag")
                else:
                    rep.violation("R-APPROVAL-GATE", f, cc, f"`{short(cc, 60)}` files a change under a category that is not its own `.flag`: approving one category applies changes of another")
    rep.floor("R-APPROVAL-GATE", f"fill sites of `{container.id}`", found, 1)


# ------------------------------------------------------------- pytest_configure


def _active_assigns(cfg: CFG):
    out = []
    for n in cfg.stmts(ast.Assign):
        for t in n.ast.targets:
            if isinstance(t, ast.Attribute) and t.attr == "active" and attr_chain(t) == ["state()", "active"]:
                out.append(n)
    return out


def configure_disables(repo: Repo, conf: Func):
    """For the xdist / CI / implementation atoms: does the disabled edge always reach
    `state().active = False` (and nothing re-enables afterwards)?"""
    cfg = cfg_of(conf)
    atoms = guard_atoms(repo, conf, cfg)
    acts = _active_assigns(cfg)
    off = [n for n in acts if isinstance(n.ast.value, ast.Constant) and n.ast.value.value is False]
    on = [n for n in acts if n not in off]
    res = {}
    for g in ("xdist", "ci", "impl"):
        good = bool(atoms[g])
        for c, enabled in atoms[g]:
            dis = "T" if enabled == "F" else "F"
            starts = [b for b, l in c.succ if l == dis]
            r = reach(cfg, starts, blocked_nodes=off)
            if cfg.ret in r:
                # a disabled edge that only serves the usage error test does not count
                if all(_leads_only_to_raise_or_join(cfg, c, dis) for _ in [0]):
                    continue
                good = False
        # some cond of this atom must have its disabled edge reach `active = False`
        if good:
            good = any(not (cfg.ret in reach(cfg, [b for b, l in c.succ if l == ("T" if en == "F" else "F")], blocked_nodes=off)) for c, en in atoms[g])
        # nothing re-enables after a disabling assignment
        for o in off:
            r = reach(cfg, [b for b, _ in o.succ])
            if any(x in r for x in on):
                good = False
        res[g] = good
    return res


def _leads_only_to_raise_or_join(cfg, c, label):
    """The `xdist_running(config) and flags - {'disable'}` test in the CLI branch:
    its edges rejoin the main flow; it is not the disabling decision."""
    starts = [b for b, l in c.succ if l == label]
    other = [b for b, l in c.succ if l != label and l in ("T", "F")]
    # both edges reach the same later guard of the same atom => not decisive here
    later = [n for n in reach(cfg, starts) if n.kind == "cond" and n is not c and _same_atom(n, c)]
    return bool(later)


def _same_atom(a: Node, b: Node):
    def callee(n):
        e = n.ast.value if isinstance(n.ast, ast.NamedExpr) else n.ast
        return norm(e.func) if isinstance(e, ast.Call) else None

    return callee(a) is not None and callee(a) == callee(b)


def configure(repo: Repo, rep):
    rep.rule(
        "R-CONFIGURE",
        "in pytest_configure: each of xdist / unsupported implementation / CI sends every path to `state().active = False` with no later re-enabling, "
        "and every normal path evaluates each guard or is already disabled; `state().update_flags = Flags.all()` only under 'review' in the flags; "
        "any other value of update_flags is Flags(<the session flags> & <categories>) with nothing added; `active` is true only if 'disable' is not "
        "in the flags; the flags default (pyproject / tui) is overridden by INLINE_SNAPSHOT_DEFAULT_FLAGS and used only when the CLI option is None",
    )
    f = repo.func("pytest_plugin.py::pytest_configure")
    cfg = cfg_of(f)
    rep.count("cfg_nodes", len(cfg.live))
    atoms = guard_atoms(repo, f, cfg)
    acts = _active_assigns(cfg)
    off = [n for n in acts if isinstance(n.ast.value, ast.Constant) and n.ast.value.value is False]
    rep.floor("R-CONFIGURE", "state().active assignments", len(acts), 2)
    dis = configure_disables(repo, f)
    for g, label in (("xdist", "xdist is running"), ("impl", "the implementation is not supported"), ("ci", "a CI environment is detected")):
        if not atoms[g]:
            rep.violation("R-CONFIGURE", f, f.node, f"pytest_configure never tests whether {label}: the session stays active and can rewrite files", construct=f"atom:{g}")
            continue
        if dis[g]:
            rep.ok("R-CONFIGURE", f, atoms[g][0][0].ast, f"{label} => state().active = False on every path")
        else:
            rep.violation("R-CONFIGURE", f, atoms[g][0][0].ast, f"when {label} a path reaches the end of pytest_configure without `state().active = False` (or re-enables it)", construct=f"disable:{g}")
        # every normal path to RET evaluates a decisive cond of this atom, or passes an `active=False`
        decisive = [c for c, en in atoms[g] if not _leads_only_to_raise_or_join(cfg, c, "T" if en == "F" else "F")]
        if not must_reach(cfg, cfg.entry, decisive + off, [cfg.ret], skip_labels=("exc",)):
            rep.violation("R-CONFIGURE", f, f.node, f"a path through pytest_configure neither tests whether {label} nor disables the session", construct=f"bypass:{g}")
    # the session flags variable: what is stored into state().flags
    flagvar = None
    for n in cfg.stmts(ast.Assign):
        for t in n.ast.targets:
            if isinstance(t, ast.Attribute) and attr_chain(t) == ["state()", "flags"] and isinstance(n.ast.value, ast.Name):
                flagvar = n.ast.value.id
    if flagvar is None:
        rep.violation("R-CONFIGURE", f, f.node, "pytest_configure never stores the session's flags in state().flags: what the user approved on the command line / in the default flags is invisible to the session-finish gate (nothing approved is applied)", construct="flags-not-stored")
        return
    # every normal path decides state().active, and an enabled path sets update_flags
    ups_all = [n for n in cfg.stmts(ast.Assign) for t in n.ast.targets if isinstance(t, ast.Attribute) and attr_chain(t) == ["state()", "update_flags"]]
    if acts and not must_reach(cfg, cfg.entry, acts, [cfg.ret], skip_labels=("exc",)):
        rep.violation("R-CONFIGURE", f, f.node, "a normal path through pytest_configure never assigns state().active: `--inline-snapshot=disable` (or an earlier session's setting) is not honoured on that path", path_to(cfg, cfg.ret, blocked_nodes=acts) or "", construct="active-unassigned")
    elif acts:
        rep.ok("R-CONFIGURE", f, acts[0].ast, "state().active is decided on every normal path")
    if ups_all and not must_reach(cfg, cfg.entry, ups_all + off, [cfg.ret], skip_labels=("exc",)):
        rep.violation("R-CONFIGURE", f, f.node, "an enabled path through pytest_configure leaves state().update_flags at its default: the categories given by the user are not enabled for the comparisons", construct="update_flags-unassigned")
    # the defaults come from the project's configuration: read_config(...) is called before the default flags are used
    rc = [n for n in cfg.live for c in node_calls(n) if norm(c.func).endswith("read_config")]
    fl = [n for n in cfg.stmts(ast.Assign) for t in n.ast.targets if isinstance(t, ast.Attribute) and attr_chain(t) == ["state()", "flags"]]
    if not rc:
        rep.violation("R-CONFIGURE", f, f.node, "pytest_configure never reads the [tool.inline-snapshot] configuration: default-flags / shortcuts of pyproject.toml are not honoured as approvals", construct="no-read_config")
    elif fl and not all(nodes_dominate(cfg, rc, x) for x in fl):
        rep.violation("R-CONFIGURE", f, fl[0].ast, "state().flags can be assigned before / without read_config(): the pyproject defaults are ignored on that path", construct="read_config-late")
    else:
        rep.ok("R-CONFIGURE", f, rc[0].ast, "read_config() precedes the use of the default flags")
    # `--inline-snapshot=` / `--inline-snapshot=create,` : the empty items of the split are dropped (otherwise '' is an unknown flag and
    # the session is refused, while the in-process driver of the testing helpers - which has its own parser - runs)
    for sp_ in [x for x in body_nodes(f.node) if isinstance(x, ast.Call) and isinstance(x.func, ast.Attribute) and x.func.attr == "split" and "inline_snapshot" in norm(x.func.value) and x.args and isinstance(x.args[0], ast.Constant) and x.args[0].value == ","]:
        holder = None
        par_ = parent(sp_)
        if isinstance(par_, ast.Assign) and len(par_.targets) == 1 and isinstance(par_.targets[0], ast.Name):
            holder = par_.targets[0].id
        filtered = False
        for comp in [x for x in body_nodes(f.node) if isinstance(x, ast.comprehension)]:
            src_ok = comp.iter is sp_ or (isinstance(comp.iter, ast.Name) and comp.iter.id == holder)
            if src_ok and isinstance(comp.target, ast.Name) and any(any(isinstance(y, ast.Name) and y.id == comp.target.id for y in ast.walk(t)) for t in comp.ifs):
                filtered = True
        for lp_ in [x for x in body_nodes(f.node) if isinstance(x, ast.For) and isinstance(x.target, ast.Name)]:
            # `for flag in flags: if flag: kept.add(flag)`
            src_ok = lp_.iter is sp_ or (isinstance(lp_.iter, ast.Name) and lp_.iter.id == holder)
            if src_ok and any(isinstance(y, ast.If) and any(isinstance(z, ast.Name) and z.id == lp_.target.id for z in ast.walk(y.test)) for y in lp_.body):
                filtered = True
        for x in body_nodes(f.node):
            if isinstance(x, ast.Call) and isinstance(x.func, ast.Attribute) and x.func.attr in ("discard", "remove") and x.args and isinstance(x.args[0], ast.Constant) and x.args[0].value == "":
                filtered = True
            if isinstance(x, ast.Call) and norm(x.func) == "filter" and x.args and isinstance(x.args[0], ast.Constant) and x.args[0].value is None:
                filtered = True
            if isinstance(x, ast.BinOp) and isinstance(x.op, ast.Sub) and isinstance(x.right, ast.Set) and any(isinstance(e_, ast.Constant) and e_.value == "" for e_ in x.right.elts):
                filtered = True
        if filtered:
            rep.ok("R-CONFIGURE", f, sp_, "empty items of the option are dropped")
        else:
            rep.violation("R-CONFIGURE", f, sp_, "the items of `--inline-snapshot=...` are used without dropping the empty ones: `--inline-snapshot=` (the empty set of categories) and a trailing comma give the unknown flag '' - the session is refused with a usage error instead of running with nothing approved", construct="empty-flag-items")
    # ... and it is the configuration of the *project*: the file handed to read_config() is searched from pytest's rootdir
    # (config.rootpath / inipath), not from where pytest happened to be started
    for n_ in rc:
        for c_ in node_calls(n_):
            if not norm(c_.func).endswith("read_config") or not c_.args:
                continue
            srcs = set()
            seen_n = set()
            todo = [x.id for x in ast.walk(c_.args[0]) if isinstance(x, ast.Name)]
            exprs = [c_.args[0]]
            while todo:
                nm = todo.pop()
                if nm in seen_n:
                    continue
                seen_n.add(nm)
                for d in defs_of(cfg, nm):
                    dv = def_value(d, nm)
                    if dv is None and d.kind == "cond" and isinstance(d.ast, ast.NamedExpr):
                        dv = d.ast.value
                    if dv is None and d.kind == "for" and isinstance(d.ast, ast.For):
                        dv = d.ast.iter  # `for directory in (start, *start.parents):` - the variable comes from what is iterated
                    if dv is None:
                        for x in ast.walk(d.ast) if d.ast is not None else []:
                            if isinstance(x, ast.NamedExpr) and isinstance(x.target, ast.Name) and x.target.id == nm:
                                dv = x.value
                    if dv is not None:
                        exprs.append(dv)
                        todo += [x.id for x in ast.walk(dv) if isinstance(x, ast.Name)]
            attrs_ = {x.attr for e_ in exprs for x in ast.walk(e_) if isinstance(x, ast.Attribute)}
            if attrs_ & {"rootpath", "rootdir", "inipath", "inifile"}:
                rep.ok("R-CONFIGURE", f, c_, "the configuration is searched from pytest's rootdir")
            elif attrs_ & {"invocation_params", "invocation_dir", "cwd", "getcwd", "startpath", "startdir"} or not attrs_:
                rep.violation(
                    "R-CONFIGURE",
                    f,
                    c_,
                    f"`{short(c_, 50)}`: the pyproject.toml is searched from {sorted(attrs_ & {'invocation_params', 'invocation_dir', 'cwd', 'getcwd', 'startpath', 'startdir'}) or 'a fixed path'}, not from pytest's rootdir: started outside the project "
                    "(`pytest proj/tests`), the project's default-flags / format-command / storage-dir are not read - files are formatted with another formatter than the project's, approvals configured there are lost",
                    construct="config-not-from-rootdir",
                )
    lf = (flagvar,)
    rev_edges = [(c, m[1]) for c in cfg.conds() for m in [membership(c.ast, cfg, c, lf)] if m and same_item(m[0], "review")]
    dis_edges_absent = [(c, "F" if m[1] == "T" else "T") for c in cfg.conds() for m in [membership(c.ast, cfg, c, lf)] if m and same_item(m[0], "disable")]
    ups = []
    for n in cfg.stmts(ast.Assign):
        for t in n.ast.targets:
            if isinstance(t, ast.Attribute) and attr_chain(t) == ["state()", "update_flags"]:
                ups.append(n)
    rep.floor("R-CONFIGURE", "state().update_flags assignments", len(ups), 2)
    for n in ups:
        v = n.ast.value
        if isinstance(v, ast.Call) and norm(v.func) == "Flags.all":
            if rev_edges and edges_dominate(cfg, rev_edges, n):
                rep.ok("R-CONFIGURE", f, n.ast, "Flags.all() only in review mode")
            else:
                rep.violation("R-CONFIGURE", f, n.ast, "every category is enabled (Flags.all()) outside review mode: comparisons accept wrong values and changes of unapproved categories are recorded as applicable", path_to(cfg, n, blocked_edges=rev_edges) or "")
        elif isinstance(v, ast.Call) and norm(v.func) == "Flags" and len(v.args) == 1:
            e = v.args[0]
            uses_flags = flagvar in names_in(e)
            adds = any(isinstance(x, ast.BitOr) for x in ast.walk(e)) or any(isinstance(x, ast.Attribute) and x.attr in ("union", "add", "update") for x in ast.walk(e)) or any(isinstance(x, ast.Constant) and x.value in CATS for x in ast.walk(e))
            if uses_flags and not adds:
                rep.ok("R-CONFIGURE", f, n.ast, f"update_flags = Flags({norm(e)})")
            else:
                rep.violation("R-CONFIGURE", f, n.ast, f"update_flags is `{short(v, 50)}`, not the session's own flags restricted to the categories: a category the user did not give becomes active")
        else:
            rep.violation("R-CONFIGURE", f, n.ast, f"update_flags is assigned `{short(v, 50)}`, which is neither Flags.all() under review nor Flags(<session flags> & categories)")
    for n in acts:
        v = n.ast.value
        if isinstance(v, ast.Constant) and v.value is False:
            continue
        good = False
        if isinstance(v, ast.Constant) and v.value is True:
            good = (rev_edges and edges_dominate(cfg, rev_edges, n)) or (dis_edges_absent and edges_dominate(cfg, dis_edges_absent, n))
        else:
            m = membership(v, cfg, n, lf) if isinstance(v, ast.Compare) else None
            if m and same_item(m[0], "disable") and m[1] == "F":
                good = True
            if isinstance(v, ast.UnaryOp) and isinstance(v.op, ast.Not):
                m = membership(v.operand, cfg, n, lf)
                good = bool(m and same_item(m[0], "disable") and m[1] == "T")
        if good:
            rep.ok("R-CONFIGURE", f, n.ast, "active only without 'disable'")
        else:
            rep.violation("R-CONFIGURE", f, n.ast, f"`{short(n.ast, 50)}` can activate the session although --inline-snapshot=disable was given")
    # precedence of the flag sources
    fdefs = defs_of(cfg, flagvar)
    cli_none = []
    for c in cfg.conds():
        e = c.ast
        if isinstance(e, ast.Compare) and len(e.ops) == 1 and isinstance(e.ops[0], (ast.Is, ast.IsNot)) and isinstance(e.comparators[0], ast.Constant) and e.comparators[0].value is None:
            left = e.left
            if isinstance(left, ast.Name):
                # the option held in a local: `option_value = config.option.inline_snapshot` ... `if option_value is not None:`
                left = resolve_alias(cfg, c, left) or left
            if "inline_snapshot" in norm(left):
                cli_none.append((c, "T" if isinstance(e.ops[0], ast.Is) else "F"))
    for d in fdefs:
        v = def_value(d, flagvar)
        if v is None:
            continue
        from_default = [nm for nm in names_in(v) if nm.startswith("default") or "default" in nm]
        from_cli = "inline_snapshot" in norm(v) or derives_from(cfg, d, v, lambda x: isinstance(x, ast.Attribute) and x.attr == "inline_snapshot", depth=2)
        if from_default:
            falsy_fallback = isinstance(v, ast.BoolOp) and isinstance(v.op, ast.Or) or isinstance(v, ast.IfExp) and not (isinstance(v.test, ast.Compare) and any(isinstance(o, (ast.Is, ast.IsNot)) for o in v.test.ops))
            if cli_none and edges_dominate(cfg, cli_none, d) and not falsy_fallback:
                rep.ok("R-CONFIGURE", f, d.ast, "defaults used only when the CLI option is None")
            elif falsy_fallback or not cli_none:
                rep.violation(
                    "R-CONFIGURE",
                    f,
                    d.ast,
                    f"`{short(d.ast, 60)}` falls back to the default flags whenever the command-line value is *empty*, not only when the option is absent (`is None`): "
                    "an explicit `--inline-snapshot=` or a shortcut defined as [] picks up the categories of default-flags / INLINE_SNAPSHOT_DEFAULT_FLAGS that the user did not ask for in this session",
                    construct="default-on-empty",
                )
            else:
                rep.violation("R-CONFIGURE", f, d.ast, "the default flags (environment / pyproject) are used although --inline-snapshot was given on the command line")
            dv = from_default[0]
            ddefs = defs_of(cfg, dv)
            env_defs = [x for x in ddefs if "environ" in norm(def_value(x, dv) or "")]
            cfg_defs = [x for x in ddefs if x not in env_defs]
            if not env_defs:
                rep.violation("R-CONFIGURE", f, d.ast, "INLINE_SNAPSHOT_DEFAULT_FLAGS is not consulted for the default flags", construct="env-missing")
            for e_ in env_defs:
                r = reach(cfg, [b for b, _ in e_.succ])
                later = [x for x in cfg_defs if x in r and d in reach(cfg, [b for b, _ in x.succ])]
                if later:
                    rep.violation("R-CONFIGURE", f, later[0].ast, "a pyproject/tui default overrides INLINE_SNAPSHOT_DEFAULT_FLAGS (precedence must be CLI > environment > pyproject)", construct="env-precedence")
                elif d in r:
                    rep.ok("R-CONFIGURE", f, e_.ast, "environment default overrides the pyproject defaults")
                else:
                    rep.violation("R-CONFIGURE", f, e_.ast, "the environment default does not reach the use of the default flags", construct="env-unused")
                envc = [(c, "T") for c in cfg.conds() if isinstance(c.ast, ast.Compare) and isinstance(c.ast.ops[0], ast.In) and "environ" in norm(c.ast.comparators[0])]
                if not (envc and edges_dominate(cfg, envc, e_)):
                    rep.undecided("R-CONFIGURE", "environment default not guarded by `<var> in os.environ`")


# ------------------------------------------------------------------ xfail etc.


def _xfail_flag(cfg, cg, f, c):
    """the edge label of a name condition on which is_xfail() answered True, when every definition of the name is `is_xfail(..)` ('T') or
    `not is_xfail(..)` ('F'); None otherwise"""
    labs = set()
    for d in reaching_defs(cfg, c, c.ast.id):
        v = def_value(d, c.ast.id)
        lab = "T"
        if isinstance(v, ast.UnaryOp) and isinstance(v.op, ast.Not):
            v, lab = v.operand, "F"
        if not isinstance(v, ast.Call):
            return None
        tg, _ = cg.call_targets(f, v)
        if not any(t.key == "pytest_plugin.py::is_xfail" for t in tg):
            return None
        labs.add(lab)
    return labs.pop() if len(labs) == 1 else None


def xfail(repo: Repo, rep):
    rep.rule(
        "R-XFAIL",
        "in snapshot_check every yield on the is_xfail(request) true branch is inside `with snapshot_env() as s` and dominated by `s.active = False`",
    )
    f = repo.func("pytest_plugin.py::snapshot_check")
    cfg = cfg_of(f)
    cg = callgraph(repo)
    xf = []
    xf_label = {}
    for c in cfg.conds():
        if isinstance(c.ast, ast.Call):
            tg, _ = cg.call_targets(f, c.ast)
            if any(t.key == "pytest_plugin.py::is_xfail" for t in tg):
                xf.append(c)
        elif isinstance(c.ast, ast.Name) and _xfail_flag(cfg, cg, f, c) is not None:
            # the answer of is_xfail() (or its negation) held in a local: `check_values = not is_xfail(request)` ... `if check_values:`
            xf.append(c)
            xf_label[id(c)] = _xfail_flag(cfg, cg, f, c)
        elif isinstance(c.ast, ast.Name):
            # the decision computed inline: a flag whose value derives from, or is set under a test of, the "xfail" marker
            hit = derives_from(cfg, c, c.ast, lambda x: isinstance(x, ast.Constant) and x.value == "xfail")
            if not hit:
                from ..cfg import dominating_edges as _de

                for d in reaching_defs(cfg, c, c.ast.id):
                    if any(cn.kind == "cond" and "xfail" in norm(cn.ast) for cn, _ in _de(cfg, d)):
                        hit = True
            if hit:
                xf.append(c)
    rep.floor("R-XFAIL", "is_xfail tests", len(xf), 1)
    for c in xf:
        XT = xf_label.get(id(c), "T")
        XF = "F" if XT == "T" else "T"
        starts = [b for b, l in c.succ if l == XT]
        region = reach(cfg, starts, skip_labels=("exc",))
        other = reach(cfg, [b for b, l in c.succ if l == XF], skip_labels=("exc",))
        ys = [n for n in region if n.is_yield and n not in other]
        # completeness: the marker alone decides - no yield that is also reached by unmarked tests (the shared, active state) may be
        # reachable once is_xfail() answered True (e.g. `is_xfail(request) and not <option>`)
        for y in [n for n in region if n.is_yield and n in other]:
            rep.violation(
                "R-XFAIL",
                f,
                y.ast,
                f"a test for which `{short(c.ast, 30)}` is true can still reach the `yield` of ordinary tests (a further condition weakens the xfail rule): its snapshots are recorded in the session's state and written when a category is approved",
                construct="xfail-weakened",
            )
        if not ys:
            rep.violation("R-XFAIL", f, c.ast, "the xfail branch does not run the test in a private state (no yield of its own)", construct="noyield")
        for y in ys:
            w = None
            for a in ancestors(y.ast):
                if isinstance(a, ast.With):
                    for it in a.items:
                        if isinstance(it.context_expr, ast.Call) and norm(it.context_expr.func).endswith("snapshot_env") and isinstance(it.optional_vars, ast.Name):
                            w = (a, it.optional_vars.id)
            if w is None:
                rep.violation("R-XFAIL", f, y.ast, "an xfail test runs in the session's shared state (not inside `with snapshot_env()`): its snapshots are recorded and can be written", construct="shared")
                continue
            offs = [
                n
                for n in cfg.stmts(ast.Assign)
                if any(isinstance(t, ast.Attribute) and t.attr == "active" and isinstance(t.value, ast.Name) and t.value.id == w[1] for t in n.ast.targets)
                and isinstance(n.ast.value, ast.Constant)
                and n.ast.value.value is False
            ]
            if offs and nodes_dominate(cfg, offs, y) and edges_dominate(cfg, [(c, XT)], y):
                rep.ok("R-XFAIL", f, y.ast, f"xfail test runs under `{w[1]}.active = False` in a private state")
            else:
                rep.violation("R-XFAIL", f, y.ast, f"the private state of an xfail test is not deactivated before the test runs (`{w[1]}.active = False` does not dominate the yield)", construct="active")


def _undef_assumed(o, pname):
    """True / False when the path assumes that the argument is / is not the `undefined` sentinel, else None"""
    for t, v_ in o.p.assume:
        if isinstance(t, tuple) and t[0] == "cmp" and t[2] == ("param", pname) and "undefined" in str(t[3]) and isinstance(v_, bool):
            if t[1] in ("is", "=="):
                return v_
            if t[1] in ("is not", "!="):
                return not v_
    return None


def inactive(repo: Repo, rep):
    rep.rule(
        "R-INACTIVE-PURE",
        "in snapshot(): on the `not state().active` branch every path returns the argument itself or raises, and nothing is stored before",
    )
    f = repo.func("_inline_snapshot.py::snapshot")
    v = UNKNOWN
    outs, eng = run_function(repo, f, v)
    act = ("attr", STATE, "active")
    pname = f.params[0] if f.params else None
    seen_inactive = 0
    for o in outs:
        a = o.p.assumed(act)
        if a is None:
            rep.undecided("R-INACTIVE-PURE", "a path of snapshot() does not test state().active")
            return
        if a is False:
            seen_inactive += 1
            stores = [e for e in o.p.eff if e[0] in ("attrstore", "setitem", "inc", "gstore", "attraug") or (e[0] == "mcall" and e[2] in ("add", "append", "update", "setdefault"))]
            if stores:
                rep.violation("R-INACTIVE-PURE", f, f.node, f"with inline-snapshot inactive, snapshot() still records state ({stores[0][0]} {stores[0][1:3]})", construct="store")
            elif o.kind == "ret" and o.ret != ("param", pname):
                rep.violation("R-INACTIVE-PURE", f, f.node, f"with inline-snapshot inactive, snapshot(x) returns {o.ret} instead of x itself", construct="return")
            elif o.kind == "ret" and _undef_assumed(o, pname) is True:
                rep.violation("R-INACTIVE-PURE", f, f.node, "with inline-snapshot inactive, an argument-less snapshot() returns the `undefined` sentinel instead of raising 'your snapshot is missing a value': the test continues with a placeholder object", construct="returns-undefined")
            elif o.kind == "exc" and _undef_assumed(o, pname) is False:
                rep.violation("R-INACTIVE-PURE", f, f.node, "with inline-snapshot inactive, snapshot(x) raises for a snapshot that HAS a value instead of returning x", construct="raises-for-value")
            else:
                rep.ok("R-INACTIVE-PURE", f, f.node, f"inactive path: {o.kind} {o.ret if o.kind == 'ret' else 'raises'}")
    rep.floor("R-INACTIVE-PURE", "inactive paths", seen_inactive, 2)


def driver_filter(repo: Repo, rep):
    rep.rule(
        "R-DRIVER-FILTER",
        "in Example.run_inline the list given to apply_all for the recorder that fix_all() writes is a comprehension filtered by "
        "`change.flag in <state>.update_flags...`, and update_flags is Flags(...) of the parsed --inline-snapshot argument",
    )
    f = repo.func("testing/_example.py::Example.run_inline")
    cfg = cfg_of(f)
    cg = callgraph(repo)
    found = 0
    for n in cfg.live:
        for c in node_calls(n):
            tg, _ = cg.call_targets(f, c)
            if not any(t.key == "_change.py::apply_all" for t in tg) or len(c.args) < 2:
                continue
            found += 1
            L = c.args[0]
            if isinstance(L, ast.Name):
                L = resolve_alias(cfg, n, L)
            ok = False
            if isinstance(L, (ast.ListComp, ast.GeneratorExp)) and isinstance(L.elt, ast.Name):
                for i in L.generators[0].ifs:
                    if isinstance(i, ast.Compare) and len(i.ops) == 1 and isinstance(i.ops[0], ast.In) and isinstance(i.left, ast.Attribute) and i.left.attr == "flag" and isinstance(i.left.value, ast.Name) and i.left.value.id == L.elt.id and ("update_flags" in norm(i.comparators[0]) or derives_from(cfg, n, i.comparators[0], lambda x: isinstance(x, ast.Attribute) and x.attr == "update_flags")):
                        ok = True
            if ok:
                rep.ok("R-DRIVER-FILTER", f, c, "changes filtered by change.flag in update_flags")
            else:
                rep.violation("R-DRIVER-FILTER", f, c, f"run_inline applies `{short(c.args[0], 50)}` without filtering on the approved categories: changes of categories that were not requested are written")
    rep.floor("R-DRIVER-FILTER", "apply_all sites in run_inline", found, 1)
    ups = [n for n in cfg.stmts(ast.Assign) if any(isinstance(t, ast.Attribute) and t.attr == "update_flags" for t in n.ast.targets)]
    rep.floor("R-DRIVER-FILTER", "update_flags assignments in run_inline", len(ups), 1)
    for n in ups:
        v = n.ast.value
        good = isinstance(v, ast.Call) and norm(v.func) == "Flags" and len(v.args) == 1 and derives_from(cfg, n, v.args[0], lambda x: isinstance(x, ast.Attribute) and x.attr == "inline_snapshot")
        lits = [x.value for x in ast.walk(v) if isinstance(x, ast.Constant) and x.value in CATS]
        if good and not lits and norm(v.func) != "Flags.all":
            rep.ok("R-DRIVER-FILTER", f, n.ast, "update_flags = Flags(parsed --inline-snapshot)")
        else:
            rep.violation("R-DRIVER-FILTER", f, n.ast, f"run_inline's update_flags `{short(v, 40)}` is not exactly the parsed --inline-snapshot categories")


def xfail_marker(repo: Repo, rep):
    rep.rule(
        "R-XFAIL-MARKER",
        "is_xfail decides from a marker view that includes markers inherited from the class / module (request.keywords, get_closest_marker, iter_markers), "
        "never from node.own_markers alone; it answers False only when no xfail marker is present or its first argument == False",
    )
    f = repo.find_func("pytest_plugin.py", "is_xfail")
    if f is None:
        # decision inlined into the fixture: look at the statements of snapshot_check that mention the marker
        f = repo.func("pytest_plugin.py::snapshot_check")
    attrs = {x.attr for x in body_nodes(f.node) if isinstance(x, ast.Attribute)}
    inherited = attrs & {"keywords", "get_closest_marker", "iter_markers"}
    if "own_markers" in attrs and not inherited:
        rep.violation("R-XFAIL-MARKER", f, f.node, "is_xfail looks only at node.own_markers: an xfail marker inherited from the class or from module-level pytestmark is not seen, so such tests run active and their files are rewritten", construct="own_markers")
    elif inherited:
        rep.ok("R-XFAIL-MARKER", f, f.node, f"uses {sorted(inherited)}")
    else:
        rep.undecided("R-XFAIL-MARKER", "is_xfail uses none of the known marker views")
        return
    if f.name != "is_xfail":
        return
    # agreement with pytest in the other direction: pytest evaluates the condition of the marker by truth value, so `xfail(0)` /
    # `xfail(sys.flags.optimize)` is not an xfail; an identity test against the constant False lets such a test run inactive - what it
    # observes is dropped from the shared snapshots (trim removes values a passing test still needs)
    for x in body_nodes(f.node):
        if isinstance(x, ast.Compare) and len(x.ops) == 1 and isinstance(x.ops[0], (ast.Is, ast.IsNot)) and any(isinstance(o, ast.Constant) and isinstance(o.value, bool) for o in [x.left] + x.comparators) and "args" in norm(x):
            rep.violation(
                "R-XFAIL-MARKER",
                f,
                x,
                f"`{norm(x)}` tests the condition of the xfail marker by identity: a falsy condition that is not the object False (0, '', an int flag) counts as xfail although pytest runs the test normally - "
                "the test is executed with inline-snapshot inactive and its observations are missing from shared snapshots",
                construct="condition-by-identity",
            )
    # every `return False` is under 'marker absent' or 'first argument == False'
    cfg = cfg_of(f)
    for r in cfg.stmts(ast.Return):
        v = r.ast.value
        if isinstance(v, ast.Constant) and v.value is False:
            doms = [(c, l) for c, l in __import__("sa.cfg", fromlist=["dominating_edges"]).dominating_edges(cfg, r) if c.kind == "cond"]
            ok = False
            for c, l in doms:
                t = norm(c.ast)
                if "xfail" in t and ((" in " in t and l == "F") or (" not in " in t and l == "T")):
                    ok = True
                if "== False" in t and l == "T":
                    ok = True
                if t.startswith("not ") or "is None" in t:
                    ok = ok or l == "T"
            if not doms:
                # a fall-through `return False` after a loop over the markers is the 'absent' case
                ok = True
            if ok:
                rep.ok("R-XFAIL-MARKER", f, r.ast, "returns False only for an absent marker or condition False")
            else:
                rep.violation("R-XFAIL-MARKER", f, r.ast, "is_xfail answers False on a path where an xfail marker without a False condition is present", construct="return-false")


def flags_not_approval(repo: Repo, rep):
    rep.rule(
        "R-FLAGS-NOT-APPROVAL",
        "state().update_flags is not an approval (review mode sets it to every category before any question is asked): outside the comparison logic, no "
        "function lets a condition on state().update_flags decide whether or how a file-system write happens (a writer-reaching call reachable from such a condition)",
    )
    cg = callgraph(repo)
    n = 0
    for f in repo.pkg_funcs():
        if f.module.rel.startswith(("testing/", "_snapshot/")):
            continue
        prim = [c for c, kind, _ in cg.prims.get(f.key, []) if kind == "FS_WRITE"]
        wcalls = []
        for c, tg, how in cg.edges.get(f.key, []):
            for t in tg:
                if t.key in WRITER_TABLE and not t.key.startswith("testing/") or any(e[0].key in WRITER_TABLE and not e[0].key.startswith("testing/") for e in cg.effects_of(t, ("FS_WRITE",))):
                    wcalls.append(c)
                    break
        if not (prim or wcalls):
            continue
        cfg = cfg_of(f)
        uf_conds = []
        for c in cfg.conds():
            e = c.ast
            hit = False
            for x in ast.walk(e):
                if isinstance(x, ast.Attribute) and x.attr in CATS:
                    base = x.value
                    if isinstance(base, ast.Name):
                        base = resolve_alias(cfg, c, base)
                    if isinstance(base, ast.Attribute) and base.attr == "update_flags":
                        hit = True
                if isinstance(x, ast.Call) and norm(x.func) == "getattr" and x.args and "update_flags" in norm(x.args[0]):
                    hit = True
            if hit:
                uf_conds.append(c)
        n += 1
        bad = False
        for c in uf_conds:
            r = reach(cfg, [b for b, _ in c.succ])
            for w in wcalls + prim:
                nn = cfg.nodes_containing(w)
                if nn and nn[0] in r:
                    rep.violation(
                        "R-FLAGS-NOT-APPROVAL",
                        f,
                        c.ast,
                        f"{f.qualname}: the write `{short(w, 50)}` depends on `{short(c.ast, 40)}`; update_flags is set to all categories in review mode (and by create for a fix change), so this is not the user's approval",
                        construct=f"{norm(c.ast)}->{norm(w.func)}",
                    )
                    bad = True
        if not bad:
            rep.ok("R-FLAGS-NOT-APPROVAL", f, f.node, f"{len(wcalls) + len(prim)} write(s), none decided by update_flags")
    rep.floor("R-FLAGS-NOT-APPROVAL", "functions that write", n, 5)


def ci_detect(repo: Repo, rep):
    rep.rule(
        "R-CI-DETECT",
        "is_ci_run() tests the *value* of every variable of its table on its own (a loop / any() over the table whose per-variable condition reads "
        "os.environ.get(var) / os.environ[var] / os.getenv(var)) and answers truthy as soon as one is set to a non-empty value: selecting one variable by "
        "mere presence and testing only that one lets a defined-but-empty variable hide the others",
    )
    f = the_detector(repo, "ci", "pytest_plugin.py::is_ci_run")
    tables = [x for x in body_nodes(f.node) if isinstance(x, ast.Assign) and isinstance(x.value, (ast.Tuple, ast.List)) and len(x.value.elts) >= 3]
    if not tables:
        rep.undecided("R-CI-DETECT", "table of CI variables not found")
        return
    tname = tables[0].targets[0].id
    its = []
    for x in body_nodes(f.node):
        if isinstance(x, ast.For) and norm(x.iter) == tname:
            its.append((x, x.target, [s for s in x.body]))
        if isinstance(x, ast.comprehension) and norm(x.iter) == tname:
            its.append((x, x.target, list(x.ifs)))
    if not its:
        rep.violation("R-CI-DETECT", f, f.node, "is_ci_run() does not iterate its table of CI variables", construct="no-iteration")
        return
    for it, tgt, body in its:
        v = norm(tgt)
        txt = " ".join(norm(b) for b in body)
        value_test = any(p in txt for p in (f"os.environ.get({v}", f"os.environ[{v}]", f"os.getenv({v}", f"environ.get({v}"))
        presence_only = f"{v} in os.environ" in txt and not value_test
        # ... by its truth value: any non-empty value announces a CI system (BUILD_NUMBER=17, JENKINS_URL=http://..); a comparison with
        # a list of "true" spellings recognises only the boolean-style variables
        narrowed = None
        if value_test:
            conds_ = [b_.test if isinstance(b_, ast.If) else b_ for b_ in body]
            for cnd in conds_:
                for x in ast.walk(cnd):
                    if isinstance(x, ast.Compare) and any(p in norm(x) for p in (f"os.environ.get({v}", f"os.environ[{v}]", f"os.getenv({v}", f"environ.get({v}")):
                        rhs = x.comparators[0]
                        empty_cmp = isinstance(x.ops[0], (ast.NotEq, ast.IsNot)) and isinstance(rhs, ast.Constant) and rhs.value in ("", None, False)
                        if not empty_cmp:
                            narrowed = x
        # the scan goes on until a variable with a non-empty value is found: no `return` inside the loop that can answer falsy
        # (`return var if os.environ[var] else False` for the first variable that is merely *defined* ends the scan - CI='' hides GITHUB_ACTIONS=true)
        early = None
        if isinstance(it, ast.For):
            for r_ in [y for s_ in it.body for y in ast.walk(s_) if isinstance(y, ast.Return)]:
                rv = r_.value
                falsy_possible = rv is None or (isinstance(rv, ast.Constant) and not rv.value) or (isinstance(rv, ast.IfExp) and any(isinstance(z, ast.Constant) and not z.value for z in (rv.body, rv.orelse))) or (isinstance(rv, ast.BoolOp))
                if falsy_possible:
                    early = r_
        if early is not None:
            rep.violation("R-CI-DETECT", f, early, f"is_ci_run() can leave its scan of the CI variables with a falsy answer (`{short(early, 60)}`) at a variable that is defined but empty: the variables behind it are never looked at - with CI='' and GITHUB_ACTIONS=true the CI run is not detected and approved changes are written on the CI machine", construct="scan-left-falsy")
        elif narrowed is not None:
            rep.violation("R-CI-DETECT", f, narrowed, f"is_ci_run() accepts a CI variable only for certain values (`{short(narrowed, 60)}`): BUILD_NUMBER, BUILD_ID, JENKINS_URL, TEAMCITY_VERSION ... are never 'true' - runs on Jenkins / TeamCity / Bamboo are not recognised as CI, snapshot(v) stays a wrapper there and files can be rewritten", construct="value-narrowed")
        elif value_test:
            rep.ok("R-CI-DETECT", f, it, "each variable's value is tested")
        else:
            rep.violation("R-CI-DETECT", f, it, "is_ci_run() picks a variable by presence (`var in os.environ`) instead of testing every variable's value: with e.g. CI='' and BUILD_NUMBER=17 the CI run is not detected and files are rewritten" if presence_only else "is_ci_run() iterates its table without testing the variables' values", construct="presence-only")


# ------------------------------------------------------------------ xdist workers


def _abs_eval(e: ast.AST, env: dict):
    """Three-valued evaluation of an expression of the xdist detector in a *worker process of
    pytest-xdist*: `config.workerinput` exists, PYTEST_XDIST_WORKER is set, and
    `config.option.numprocesses` exists and is None (xdist/remote.py resets it).
    Values: True / False / "none" (the object None) / None (unknown)."""
    if isinstance(e, ast.Constant):
        return "none" if e.value is None else bool(e.value) if isinstance(e.value, (bool, int, str)) else None
    if isinstance(e, ast.Name):
        return env.get(e.id)
    if isinstance(e, ast.NamedExpr):
        v = _abs_eval(e.value, env)
        env[e.target.id] = v
        return v
    if isinstance(e, ast.BoolOp):
        vals = [_abs_eval(x, env) for x in e.values]
        truth = [None if v is None else (v is True) for v in vals]
        if isinstance(e.op, ast.And):
            if any(t is False for t in truth):
                return False
            return True if all(t is True for t in truth) else None
        if any(t is True for t in truth):
            return True
        return False if all(t is False for t in truth) else None
    if isinstance(e, ast.UnaryOp) and isinstance(e.op, ast.Not):
        v = _abs_eval(e.operand, env)
        return None if v is None else not (v is True)
    if isinstance(e, ast.IfExp):
        t = _abs_eval(e.test, env)
        if t is None:
            a, b = _abs_eval(e.body, env), _abs_eval(e.orelse, env)
            return a if a == b else None
        return _abs_eval(e.body if t is True else e.orelse, env)
    if isinstance(e, ast.Attribute):
        if e.attr == "numprocesses":
            return "none"
        if e.attr == "workerinput":
            return True
        return None
    if isinstance(e, ast.Call):
        fn = norm(e.func)
        a = e.args
        if fn == "hasattr" and len(a) == 2 and isinstance(a[1], ast.Constant):
            return True if a[1].value in ("numprocesses", "workerinput") else None
        if fn == "getattr" and len(a) >= 2 and isinstance(a[1], ast.Constant):
            if a[1].value == "numprocesses":
                return "none"
            if a[1].value == "workerinput":
                return True
            return None
        if fn == "bool" and len(a) == 1:
            v = _abs_eval(a[0], env)
            return None if v is None else (v is True)
        if fn in ("os.environ.get", "os.getenv", "environ.get") and a and isinstance(a[0], ast.Constant):
            return True if a[0].value == "PYTEST_XDIST_WORKER" else None
        return None
    if isinstance(e, ast.Subscript) and norm(e.value) in ("os.environ", "environ") and isinstance(e.slice, ast.Constant):
        return True if e.slice.value == "PYTEST_XDIST_WORKER" else None
    if isinstance(e, ast.Compare) and len(e.ops) == 1:
        l, r = _abs_eval(e.left, env), _abs_eval(e.comparators[0], env)
        op = e.ops[0]
        if isinstance(op, (ast.In, ast.NotIn)) and isinstance(e.left, ast.Constant) and norm(e.comparators[0]) in ("os.environ", "environ"):
            if e.left.value == "PYTEST_XDIST_WORKER":
                return isinstance(op, ast.In)
            return None
        if isinstance(op, (ast.Is, ast.IsNot)) and isinstance(e.comparators[0], ast.Constant) and e.comparators[0].value is None:
            if l is None:
                return None
            return (l == "none") == isinstance(op, ast.Is)
        if isinstance(op, (ast.Eq, ast.NotEq)) and l == "none" and isinstance(e.comparators[0], ast.Constant) and e.comparators[0].value is not None:
            return isinstance(op, ast.NotEq)  # None == 0 is False, None != 0 is True
        if isinstance(op, (ast.Gt, ast.GtE, ast.Lt, ast.LtE)) and l == "none":
            return None  # TypeError at run time; leave it to the fall-back
        return None
    return None


def _abs_run(stmts, env: dict):
    """("ret", value) / ("fall",) / ("unknown",) for a statement list of the detector."""
    for s in stmts:
        if isinstance(s, ast.Return):
            return ("ret", _abs_eval(s.value, env) if s.value is not None else "none")
        if isinstance(s, ast.If):
            t = _abs_eval(s.test, env)
            if t is None:
                a, b = _abs_run(s.body, dict(env)), _abs_run(s.orelse, dict(env))
                if a == b and a[0] == "ret":
                    return a
                if a[0] == "fall" and b[0] == "fall":
                    continue
                return ("unknown",)
            r = _abs_run(s.body if t is True else s.orelse, env)
            if r[0] != "fall":
                return r
            continue
        if isinstance(s, ast.Assign) and len(s.targets) == 1 and isinstance(s.targets[0], ast.Name):
            env[s.targets[0].id] = _abs_eval(s.value, env)
            continue
        if isinstance(s, (ast.Expr, ast.Pass, ast.Import, ast.ImportFrom)):
            continue
        return ("unknown",)
    return ("fall",)


class _Unknown(Exception):
    pass


def _ctrl_eval(e: ast.AST, env: dict, np):
    """evaluation of an expression of the xdist detector in the *controller* process: no config.workerinput, no PYTEST_XDIST_WORKER,
    config.option.numprocesses == np (None: xdist installed but no -n; 0: `-n 0`; 2: `-n 2`).  Raises _Unknown for anything else."""
    if isinstance(e, ast.Constant):
        return e.value
    if isinstance(e, ast.Name):
        if e.id in env:
            return env[e.id]
        raise _Unknown()
    if isinstance(e, ast.NamedExpr):
        env[e.target.id] = _ctrl_eval(e.value, env, np)
        return env[e.target.id]
    if isinstance(e, ast.BoolOp):
        v = None
        for x in e.values:
            v = _ctrl_eval(x, env, np)
            if isinstance(e.op, ast.And) and not v:
                return v
            if isinstance(e.op, ast.Or) and v:
                return v
        return v
    if isinstance(e, ast.UnaryOp) and isinstance(e.op, ast.Not):
        return not _ctrl_eval(e.operand, env, np)
    if isinstance(e, ast.IfExp):
        return _ctrl_eval(e.body if _ctrl_eval(e.test, env, np) else e.orelse, env, np)
    if isinstance(e, ast.Attribute):
        if e.attr == "numprocesses":
            return np
        raise _Unknown()
    if isinstance(e, ast.Call):
        fn = norm(e.func)
        a = e.args
        if fn == "hasattr" and len(a) == 2 and isinstance(a[1], ast.Constant):
            if a[1].value == "numprocesses":
                return True
            if a[1].value == "workerinput":
                return False
            raise _Unknown()
        if (fn == "getattr" or fn.endswith(".getoption")) and a and isinstance(a[-1 if fn != "getattr" else 1], ast.Constant) or (fn == "getattr" and len(a) >= 2 and isinstance(a[1], ast.Constant)):
            key = a[1].value if fn == "getattr" else a[0].value if isinstance(a[0], ast.Constant) else None
            if key == "numprocesses":
                return np
            if key == "workerinput":
                if len(a) >= 3:
                    return _ctrl_eval(a[2], env, np)
                raise _Unknown()
            raise _Unknown()
        if fn == "bool" and len(a) == 1:
            return bool(_ctrl_eval(a[0], env, np))
        if fn in ("os.environ.get", "os.getenv", "environ.get") and a and isinstance(a[0], ast.Constant) and a[0].value == "PYTEST_XDIST_WORKER":
            return _ctrl_eval(a[1], env, np) if len(a) > 1 else None
        raise _Unknown()
    if isinstance(e, ast.Compare) and len(e.ops) == 1:
        op = e.ops[0]
        if isinstance(op, (ast.In, ast.NotIn)) and isinstance(e.left, ast.Constant) and e.left.value == "PYTEST_XDIST_WORKER":
            return isinstance(op, ast.NotIn)
        l, r = _ctrl_eval(e.left, env, np), _ctrl_eval(e.comparators[0], env, np)
        try:
            if isinstance(op, ast.Is):
                return l is r
            if isinstance(op, ast.IsNot):
                return l is not r
            if isinstance(op, ast.Eq):
                return l == r
            if isinstance(op, ast.NotEq):
                return l != r
            if isinstance(op, ast.Gt):
                return l > r
            if isinstance(op, ast.GtE):
                return l >= r
            if isinstance(op, ast.Lt):
                return l < r
            if isinstance(op, ast.LtE):
                return l <= r
        except TypeError:
            raise _Unknown()
    raise _Unknown()


def _ctrl_run(stmts, env, np):
    for st in stmts:
        if isinstance(st, ast.Return):
            return ("ret", _ctrl_eval(st.value, env, np) if st.value is not None else None)
        if isinstance(st, ast.If):
            r = _ctrl_run(st.body if _ctrl_eval(st.test, env, np) else st.orelse, env, np)
            if r[0] != "fall":
                return r
        elif isinstance(st, ast.Assign) and len(st.targets) == 1 and isinstance(st.targets[0], ast.Name):
            env[st.targets[0].id] = _ctrl_eval(st.value, env, np)
        elif isinstance(st, (ast.Pass, ast.Import, ast.ImportFrom)) or (isinstance(st, ast.Expr) and isinstance(st.value, ast.Constant)):
            continue
        else:
            raise _Unknown()
    return ("fall",)


def xdist_worker(repo: Repo, rep):
    rep.rule(
        "R-XDIST-WORKER",
        "the xdist detector (the function of pytest_plugin.py that reads `numprocesses`) answers truthy in a *worker* process of pytest-xdist, where "
        "the tests run and the snapshots are recorded: there xdist has reset config.option.numprocesses to None (xdist/remote.py) and the only "
        "indicators are config.workerinput and PYTEST_XDIST_WORKER.  Decided by a three-valued evaluation of the detector's body in that "
        "environment; when the body is outside the evaluated fragment the fall-back is that it reads one of the two worker-side indicators at all.  "
        "(External fact in the trusted base: pytest-xdist's worker set-up; section 5.)",
    )
    ds = detectors(repo, "xdist")
    rep.floor("R-XDIST-WORKER", "xdist detectors in pytest_plugin.py", len(ds), 1)
    for f in ds:
        # controller side: workers exist iff `-n` (numprocesses) / `--tx` says so, or the dsession plugin is registered; the
        # distribution mode (`--dist`) may be set - by addopts - without any worker being started
        ctrl = {x.attr for x in body_nodes(f.node) if isinstance(x, ast.Attribute)} | {x.value for x in body_nodes(f.node) if isinstance(x, ast.Constant) and isinstance(x.value, str)}
        if ctrl & {"numprocesses", "dsession", "tx"}:
            rep.ok("R-XDIST-WORKER", f, f.node.body[0], f"{f.qualname}() decides in the controller from the option that starts workers")
        else:
            rep.violation(
                "R-XDIST-WORKER",
                f,
                f.node,
                f"{f.qualname}() no longer reads `numprocesses`: in the controller process it decides from something that does not say whether workers are started (e.g. `--dist loadfile` in addopts without -n) - "
                "a plain session is refused with 'can not be combined with xdist' / runs disabled, so approved fixes are not written",
                construct="controller-indicator",
            )
        # ... and what it answers there: no workers without -n and with `-n 0` (the documented way to switch xdist off for one run),
        # workers with `-n 2`
        try:
            got = {np_: bool((_ctrl_run(f.node.body, {}, np_) + (None,))[1]) for np_ in (None, 0, 2)}
            want = {None: False, 0: False, 2: True}
            wrong = [k for k in want if got[k] != want[k]]
            if wrong:
                k = wrong[0]
                rep.violation(
                    "R-XDIST-WORKER",
                    f,
                    f.node,
                    f"{f.qualname}() answers {got[k]} in the controller for numprocesses={k!r}" + (" (`pytest -n 0`, xdist switched off): every approved category is refused with 'can not be combined with xdist' although no worker is started" if k == 0 else ""),
                    construct=f"controller-answer:{k!r}",
                )
            else:
                rep.ok("R-XDIST-WORKER", f, f.node, "controller: no -n -> False, -n 0 -> False, -n 2 -> True")
        except _Unknown:
            pass  # outside the evaluated fragment: the clauses above / below stand
        r = _abs_run(f.node.body, {})
        reads = any((isinstance(x, ast.Attribute) and x.attr == "workerinput") or (isinstance(x, ast.Constant) and x.value in ("workerinput", "PYTEST_XDIST_WORKER")) for x in body_nodes(f.node))
        if r[0] == "ret" and r[1] is not None:
            if r[1] is True:
                rep.ok("R-XDIST-WORKER", f, f.node, f"{f.qualname}() evaluates to True in an xdist worker")
            else:
                rep.violation(
                    "R-XDIST-WORKER",
                    f,
                    f.node,
                    f"{f.qualname}() evaluates to {'None' if r[1] == 'none' else r[1]} in an xdist worker (numprocesses is None there): with a category in default-flags / "
                    "INLINE_SNAPSHOT_DEFAULT_FLAGS the workers stay active and rewrite the test files although the session reports that inline-snapshot was disabled because of xdist",
                    construct="worker-undetected",
                )
        elif reads:
            rep.ok("R-XDIST-WORKER", f, f.node, f"{f.qualname}() reads a worker-side indicator (body outside the evaluated fragment)")
        else:
            rep.violation("R-XDIST-WORKER", f, f.node, f"{f.qualname}() reads neither config.workerinput nor PYTEST_XDIST_WORKER: xdist workers are not recognised", construct="worker-undetected")


# ------------------------------------------------------------------ completeness: approved => applied


def _absent_membership(e: ast.AST, cfg: CFG, node: Node, flagvar: str) -> Optional[str]:
    """If `e` tests membership of the loop's category (or of a constant category) in the session flags, the edge
    label on which the category is ABSENT.  Forms: `flag in state().flags`, `"update" in state().flags`,
    `{..., flag} & state().flags` (empty intersection => absent)."""
    if isinstance(e, ast.Compare) and len(e.ops) == 1 and isinstance(e.ops[0], (ast.In, ast.NotIn)) and is_state_flags(e.comparators[0], cfg, node):
        return "F" if isinstance(e.ops[0], ast.In) else "T"
    if isinstance(e, ast.BinOp) and isinstance(e.op, ast.BitAnd):
        for a, b in ((e.left, e.right), (e.right, e.left)):
            if is_state_flags(b, cfg, node) and isinstance(a, ast.Set) and any(isinstance(x, ast.Name) and x.id == flagvar for x in a.elts):
                return "F"
    return None


def approval_complete(repo: Repo, rep):
    rep.rule(
        "R-APPROVAL-COMPLETE",
        "the other half of the gate - what the user approved IS applied.  In pytest_sessionfinish: (a) the approval predicate returns a truthy constant on "
        "the `flag in state().flags` edge and the Confirm.ask answer on the 'review' edge; (b) on the approved edge the category's changes are added to the "
        "list that is written before the next category is looked at; (c) inside the category loop an iteration can by-pass the approval test only on an edge "
        "that means 'nothing pending' (emptiness of a list / no difference) or 'this category is absent from the session flags'; (d) on the non-empty edge "
        "of the approved list every normal path reaches apply_all(<list>, <recorder>) and then <recorder>.fix_all(); (e) a `return` in front of the category "
        "loop is taken only on a disabled edge (xdist / CI / unsupported implementation / inactive / short-report)",
    )
    f = repo.func("pytest_plugin.py::pytest_sessionfinish")
    cfg = cfg_of(f)
    cg = callgraph(repo)
    notes: list = []
    loops = [n for n in cfg.live if n.kind == "for"]
    # the category loop: the one whose body holds an approval condition for its own loop variable
    cat = None
    for l in loops:
        if not isinstance(l.ast.target, ast.Name):
            continue
        v = l.ast.target.id
        body = reach(cfg, [b for b, lab in l.succ if lab == "iter"], blocked_nodes=[l])
        edges = [(c, lab) for c, lab in approval_edges(repo, f, cfg, "$" + v, notes) if c in body]
        if edges:
            cat = (l, v, body, edges)
    if cat is None:
        rep.violation("R-APPROVAL-COMPLETE", f, f.node, "no loop over the categories tests the user's approval: approved categories are never applied", construct="no-approval-test")
        return
    head, flagvar, body, aedges = cat
    # (a) the helper is complete
    for c, lab in aedges:
        e = c.ast
        if isinstance(e, ast.Call):
            tg, _ = cg.call_targets(f, e)
            for g in tg:
                gcfg = cfg_of(g)
                p = g.params[0] if g.params else None
                direct = [(cc, m[1]) for cc in gcfg.conds() for m in [membership(cc.ast, gcfg, cc)] if m and p and same_item(m[0], "$" + p)]
                rev = [(cc, m[1]) for cc in gcfg.conds() for m in [membership(cc.ast, gcfg, cc)] if m and same_item(m[0], "review")]
                cli_ok = rev_ok = False
                for r in gcfg.stmts(ast.Return):
                    v = r.ast.value
                    if v is None:
                        continue
                    if isinstance(v, ast.Constant) and v.value and direct and edges_dominate(gcfg, direct, r):
                        cli_ok = True
                    if isinstance(v, ast.Compare) and direct and edges_dominate(gcfg, direct, r):
                        cli_ok = True
                    if isinstance(v, ast.Name):
                        vals = [def_value(d, v.id) for d in reaching_defs(gcfg, r, v.id)]
                        if vals and all(isinstance(x, ast.Call) and norm(x.func).endswith("ask") for x in vals) and rev and edges_dominate(gcfg, rev, r):
                            rev_ok = True
                    if isinstance(v, ast.Call) and norm(v.func).endswith("ask") and rev and edges_dominate(gcfg, rev, r):
                        rev_ok = True
                    if isinstance(v, ast.Compare) and not direct:
                        m = membership(v, gcfg, r)
                        if m and p and same_item(m[0], "$" + p):
                            cli_ok = True
                if cli_ok:
                    rep.ok("R-APPROVAL-COMPLETE", g, g.node, f"{g.qualname}: a category of the session flags is approved")
                else:
                    rep.violation("R-APPROVAL-COMPLETE", g, g.node, f"{g.qualname} never answers truthy on the `{p} in state().flags` edge: a category given with --inline-snapshot / the default flags is not applied", construct=f"{g.qualname}:cli")
                if rev_ok:
                    rep.ok("R-APPROVAL-COMPLETE", g, g.node, f"{g.qualname}: the review answer is returned")
                else:
                    rep.violation("R-APPROVAL-COMPLETE", g, g.node, f"{g.qualname} never returns the Confirm.ask answer on the 'review' edge: answering y in review mode applies nothing", construct=f"{g.qualname}:review")
    # (b) approved => list grows before the next iteration
    def _from_category(n, v):
        if isinstance(v, ast.Name):
            v = resolve_alias(cfg, n, v)
        return any(isinstance(x, ast.Subscript) and isinstance(x.slice, ast.Name) and x.slice.id == flagvar for x in ast.walk(v))

    grows = [n for n in body if n.kind == "stmt" and isinstance(n.ast, ast.AugAssign) and isinstance(n.ast.target, ast.Name) and _from_category(n, n.ast.value)]
    grows += [
        n
        for n in body
        if n.kind == "stmt"
        and isinstance(n.ast, ast.Assign)
        and isinstance(n.ast.targets[0], ast.Name)
        and isinstance(n.ast.value, ast.BinOp)
        and isinstance(n.ast.value.left, ast.Name)
        and n.ast.value.left.id == n.ast.targets[0].id
        and _from_category(n, n.ast.value.right)
    ]
    grows += [n for n in body for cc in node_calls(n) if isinstance(cc.func, ast.Attribute) and cc.func.attr in ("extend", "append") and isinstance(cc.func.value, ast.Name) and any(_from_category(n, a) for a in cc.args)]
    lists = set()
    for n in grows:
        if isinstance(n.ast, ast.AugAssign) and isinstance(n.ast.target, ast.Name):
            lists.add(n.ast.target.id)
        elif isinstance(n.ast, ast.Assign) and isinstance(n.ast.targets[0], ast.Name):
            lists.add(n.ast.targets[0].id)
        else:
            for cc in node_calls(n):
                if isinstance(cc.func, ast.Attribute) and isinstance(cc.func.value, ast.Name):
                    lists.add(cc.func.value.id)
    for c, lab in aedges:
        starts = [b for b, l in c.succ if l == lab]
        r = reach(cfg, starts, blocked_nodes=grows, skip_labels=("exc",))
        if head in r and not any(s in grows for s in starts):
            rep.violation("R-APPROVAL-COMPLETE", f, c.ast, f"after `{short(c.ast, 40)}` answered yes a path starts the next category without adding `changes[{flagvar}]` to the list that is written", construct="approved-not-collected")
        else:
            rep.ok("R-APPROVAL-COMPLETE", f, c.ast, "approved changes are collected on every path")
    # (c) by-passing the approval test
    anodes = [c for c, _ in aedges]
    n_skip = 0
    for c in [x for x in body if x.kind == "cond" and x not in anodes]:
        # only conditions in front of the approval test
        if not any(a in reach(cfg, [b for b, _ in c.succ], blocked_nodes=[head]) for a in anodes):
            continue
        for b, lab in c.succ:
            if lab not in ("T", "F"):
                continue
            r = reach(cfg, [b], blocked_nodes=anodes, skip_labels=("exc",))
            other = [bb for bb, ll in c.succ if ll in ("T", "F") and ll != lab]
            r_other = reach(cfg, other, blocked_nodes=[head], skip_labels=("exc",))
            bypass = (head in r or b is head) and not any(a in reach(cfg, [b], blocked_nodes=[head], skip_labels=("exc",)) for a in anodes)
            if not bypass:
                continue
            n_skip += 1
            e = c.ast
            absent = _absent_membership(e, cfg, c, flagvar)
            nothing = (isinstance(e, (ast.Name, ast.Subscript)) and lab == "F") or (isinstance(e, ast.Call) and norm(e.func) in ("len", "any") and lab == "F")
            if isinstance(e, ast.Compare) and len(e.ops) == 1 and isinstance(e.left, ast.Call) and norm(e.left.func) == "len" and isinstance(e.comparators[0], ast.Constant) and e.comparators[0].value in (0, 1):
                k, op = e.comparators[0].value, e.ops[0]
                empty_on_T = (k == 0 and isinstance(op, (ast.Eq, ast.LtE))) or (k == 1 and isinstance(op, ast.Lt))
                empty_on_F = (k == 0 and isinstance(op, (ast.NotEq, ast.Gt))) or (k == 1 and isinstance(op, ast.GtE))
                nothing = (empty_on_T and lab == "T") or (empty_on_F and lab == "F")
            if absent == lab or nothing:
                rep.ok("R-APPROVAL-COMPLETE", f, e, f"the approval test is by-passed on `{short(e, 40)}`->{lab}: " + ("category absent from the session flags" if absent == lab else "nothing pending"))
            else:
                rep.violation(
                    "R-APPROVAL-COMPLETE",
                    f,
                    e,
                    f"an iteration of the category loop skips the approval test on the edge `{short(e, 50)}` -> {lab}, which means neither 'nothing pending' nor 'category not in the session flags': "
                    "a category the user approved is silently not applied",
                    construct=f"skip:{short(e, 40)}:{lab}",
                )
    rep.count("bypass_edges", n_skip)
    # (d) non-empty approved list => apply_all + fix_all
    def _reaches(t, key, depth=3, seen=None):
        seen = seen if seen is not None else set()
        if t.key == key:
            return True
        if depth == 0 or t.key in seen:
            return False
        seen.add(t.key)
        return any(_reaches(g, key, depth - 1, seen) for g in cg.callees(t))

    fixes = [n for n in cfg.live for cc in node_calls(n) if any(_reaches(t, "_rewrite_code.py::ChangeRecorder.fix_all") for t in cg.call_targets(f, cc)[0])]
    applies = [n for n in cfg.live for cc in node_calls(n) if any(_reaches(t, "_change.py::apply_all") for t in cg.call_targets(f, cc)[0]) and cc.args and isinstance(cc.args[0], ast.Name) and cc.args[0].id in lists and n not in body]
    after = [c for c in cfg.conds() if c not in body and isinstance(c.ast, ast.Name) and c.ast.id in lists]
    if not fixes:
        rep.violation("R-APPROVAL-COMPLETE", f, f.node, "pytest_sessionfinish never calls fix_all(): approved changes are never written", construct="no-fix_all")
    elif not applies:
        rep.violation("R-APPROVAL-COMPLETE", f, f.node, f"the list of approved changes ({sorted(lists)}) is never handed to apply_all after the category loop", construct="no-apply_all")
    else:
        starts = [b for c in after for b, l in c.succ if l == "T"] or [b for b, l in head.succ if l == "done"]
        r1 = reach(cfg, starts, blocked_nodes=applies, skip_labels=("exc",))
        ok1 = cfg.ret not in r1 or any(s in applies for s in starts)
        r2 = reach(cfg, [b for a in applies for b, l in a.succ if l != "exc"], blocked_nodes=fixes, skip_labels=("exc",))
        ok2 = cfg.ret not in r2
        if ok1 and ok2:
            rep.ok("R-APPROVAL-COMPLETE", f, fixes[0].ast, "non-empty approved list => apply_all => fix_all on every normal path")
        else:
            rep.violation(
                "R-APPROVAL-COMPLETE",
                f,
                (after[0].ast if after else fixes[0].ast),
                "with a non-empty list of approved changes a normal path reaches the end of the hook without " + ("apply_all(<approved>, <recorder>)" if not ok1 else "<recorder>.fix_all()") + ": the approved changes are reported as applied but never written",
                construct="approved-not-written",
            )
    # (e) early returns in front of the category loop
    atoms = guard_atoms(repo, f, cfg)
    disabled = []
    for g in ("xdist", "ci", "impl", "active", "short-report"):
        for c, enabled in atoms[g]:
            disabled.append((c, "T" if enabled == "F" else "F"))
    n_ret = 0
    for r in cfg.stmts(ast.Return):
        if head not in reach(cfg, [cfg.entry], blocked_nodes=[r]):
            continue  # behind the loop
        if head in reach(cfg, [r]):
            continue
        if r in body:
            continue
        # is this return in front of the loop (some path entry -> r avoids the loop)?
        if r not in reach(cfg, [cfg.entry], blocked_nodes=[head]):
            continue
        n_ret += 1
        if disabled and edges_dominate(cfg, disabled, r):
            rep.ok("R-APPROVAL-COMPLETE", f, r.ast, "early return only for a disabled session")
        else:
            rep.violation("R-APPROVAL-COMPLETE", f, r.ast, "pytest_sessionfinish returns in front of the category loop on a path where nothing disables the session: approved changes are never applied", path_to(cfg, r, blocked_edges=disabled) or "", construct="early-return-enabled")
    rep.count("early_returns", n_ret)
