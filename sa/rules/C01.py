"""C01 - a created snapshot reads back as the value that was observed (structural clauses)."""
from __future__ import annotations

import ast
from typing import List

from ..callgraph import callgraph
from ..cfg import cfg_of, edges_dominate, node_calls, nodes_dominate, reach
from ..defuse import def_value, derives_from, reaching_defs, resolve_alias
from ..esp import UNKNOWN, run_function
from ..model import Repo, ancestors, body_nodes, norm, short
from .C12 import fmt_taint_fragment
from .common import dispatch_ops, generic_class, trace_str, undecided_class
from .emit import emission_sites

DRIVERS = ("pytest_plugin.py::pytest_sessionfinish", "testing/_example.py::Example.run_inline")

from .C17 import clone_def


def check(repo: Repo, rep, tier):
    rep.not_decided = "that repr() of a supported value evaluates back to it; comma / 1-tuple text surgery; what black does to the layout"
    create_exh(repo, rep)
    newcode_src(repo, rep)
    repr_parse(repo, rep)
    import_step(repo, rep)
    default_guard(repo, rep)
    clone_def(repo, rep)
    fmt_taint_fragment(repo, rep)
    type_qualname(repo, rep)
    repr_restore(repo, rep)
    repr_float(repo, rep)
    from .C03 import io_encoding
    from .C16 import codegen_pure

    io_encoding(repo, rep)
    codegen_pure(repo, rep)
    from .C03 import line_model, import_scope

    line_model(repo, rep)
    import_scope(repo, rep)
    from .C14 import accumulate

    # a created bound / member set is what all evaluations observed, not the first one
    accumulate(repo, rep)
    from .C14 import site_key
    from .C16 import hasrepr_eq
    from .C04 import xdist_worker

    site_key(repo, rep)
    hasrepr_eq(repo, rep)
    xdist_worker(repo, rep)
    from .C03 import import_position

    import_position(repo, rep)


def create_exh(repo: Repo, rep):
    rep.rule(
        "R-CREATE-EXH",
        "every class of the dispatch set overrides _new_code and _get_changes (not GenericValue's NotImplementedError, not UndecidedValue's assert False); "
        "SnapshotReference._changes yields, on the branch where the call has no argument and a new value exists, exactly one CallArg(flag='create', arg_pos=0, "
        "arg_name=None) whose new_code is self._value._new_code() and whose node is the call; apply_all turns a CallArg without name into the inserted argument text",
    )
    gv, uv = generic_class(repo), undecided_class(repo)
    for op in dispatch_ops(repo):
        for m in ("_new_code", "_get_changes"):
            dc = repo.defining_class(op.cls, m)
            if dc is None or dc in (gv, uv):
                rep.violation("R-CREATE-EXH", op.func, op.cls.node, f"{op.cls.name} does not implement {m}: creating a value for `{op.dunder}` snapshots ends in NotImplementedError", construct=f"{op.cls.name}.{m}")
            else:
                rep.ok("R-CREATE-EXH", repo.lookup_method(op.cls, m), repo.lookup_method(op.cls, m).node, f"{op.cls.name}.{m} implemented in {dc.name}")
    sites = [s for s in emission_sites(repo) if s.func.key == "_inline_snapshot.py::SnapshotReference._changes" and s.kind == "CallArg"]
    rep.floor("R-CREATE-EXH", "create sites", len(sites), 1)
    for s in sites:
        a = s.args
        probs = []
        if not (isinstance(a.get("flag"), ast.Constant) and a["flag"].value == "create"):
            probs.append("flag is not 'create'")
        if not (isinstance(a.get("arg_pos"), ast.Constant) and a["arg_pos"].value == 0):
            probs.append(f"arg_pos is {norm(a.get('arg_pos'))}, not 0")
        if not (isinstance(a.get("arg_name"), ast.Constant) and a["arg_name"].value is None):
            probs.append(f"arg_name is {norm(a.get('arg_name'))}, not None")
        nc = a.get("new_code")
        src = resolve_alias(s.cfg, s.node, nc) if isinstance(nc, ast.Name) else nc
        if not (isinstance(src, ast.Call) and norm(src.func).endswith("_value._new_code")):
            probs.append(f"new_code is `{short(src, 40)}`, not self._value._new_code()")
        nd = a.get("node")
        if nd is None or "_expr.node" not in norm(nd):
            probs.append(f"node is `{norm(nd)}`, not the snapshot() call node")
        if "args" in norm(nd) if nd is not None else False:
            probs.append("node is an argument, not the call")
        # guarded by 'new value defined'
        conds = [(c, "F") for c in s.cfg.conds() if norm(c.ast).endswith("_new_value is undefined")] + [(c, "T") for c in s.cfg.conds() if norm(c.ast).endswith("_new_value is not undefined")]
        if not (conds and edges_dominate(s.cfg, conds, s.node)):
            probs.append("emitted even when no value was observed")
        if probs:
            rep.violation("R-CREATE-EXH", s.func, s.call, "the create change of an argument-less snapshot() is malformed: " + "; ".join(probs), construct="create-site:" + probs[0][:40])
        else:
            rep.ok("R-CREATE-EXH", s.func, s.call, "CallArg(create, arg_pos=0, arg_name=None, new_code=_value._new_code(), node=call)")
    # apply_all: CallArg without a name inserts new_code at arg_pos
    f = repo.func("_change.py::apply_all")
    ok = False
    for c in body_nodes(f.node):
        if isinstance(c, ast.Call) and isinstance(c.func, ast.Attribute) and c.func.attr == "append" and c.args and norm(c.args[0]).endswith(".new_code") and "arg_pos" in norm(c.func.value):
            ok = True
    if ok:
        rep.ok("R-CREATE-EXH", f, f.node, "apply_all inserts change.new_code at change.arg_pos for unnamed CallArgs", site="src/inline_snapshot/_change.py apply_all: unnamed CallArg")
    else:
        rep.violation("R-CREATE-EXH", f, f.node, "apply_all no longer inserts the new_code of an unnamed CallArg at its arg_pos: the created value is not written", construct="apply-callarg")


def newcode_src(repo: Repo, rep):
    rep.rule(
        "R-NEWCODE-SRC",
        "every _new_code of the dispatch set builds its text from self._new_value through _value_to_code (DictValue: keys through _value_to_code, values through "
        "the child's _new_code) and never from self._old_value",
    )
    seen = set()
    for op in dispatch_ops(repo):
        m = repo.lookup_method(op.cls, "_new_code")
        if m is None or m.key in seen:
            continue
        seen.add(m.key)
        txt = [norm(r.value) for r in body_nodes(m.node) if isinstance(r, ast.Return) and r.value is not None]
        uses_old = any(isinstance(x, ast.Attribute) and x.attr == "_old_value" for x in body_nodes(m.node))
        uses_new = any(isinstance(x, ast.Attribute) and x.attr == "_new_value" for x in body_nodes(m.node))
        through = any(isinstance(c, ast.Call) and isinstance(c.func, ast.Attribute) and c.func.attr in ("_value_to_code", "_new_code") for c in body_nodes(m.node))
        if uses_old:
            rep.violation("R-NEWCODE-SRC", m, m.node, f"{m.qualname} builds the created code from the OLD value: the text written is not the observed value", construct=f"{m.qualname}:old")
        elif uses_new and through:
            rep.ok("R-NEWCODE-SRC", m, m.node, f"{m.qualname}: code of self._new_value via _value_to_code/_new_code")
        else:
            rep.violation("R-NEWCODE-SRC", m, m.node, f"{m.qualname} returns `{txt[0][:50] if txt else '?'}`: not the code of self._new_value produced by _value_to_code", construct=f"{m.qualname}:src")
    rep.floor("R-NEWCODE-SRC", "_new_code implementations", len(seen), 4)


def repr_parse(repo: Repo, rep):
    rep.rule(
        "R-REPR-PARSE",
        "value_code_repr returns the dispatched repr text only on the path where ast.parse(<that text>) succeeded inside a try; the SyntaxError handler returns "
        "the repr of HasRepr(type(obj), <that text>): text that is not Python is never emitted bare",
    )
    f = repo.func("_code_repr.py::value_code_repr")
    cfg = cfg_of(f)
    disp = [n for n in cfg.stmts(ast.Assign) if isinstance(n.ast.value, ast.Call) and "code_repr_dispatch" in norm(n.ast.value.func)]
    if not disp:
        rep.undecided("R-REPR-PARSE", "`x = code_repr_dispatch(obj)` not found")
        return
    var = disp[0].ast.targets[0].id if isinstance(disp[0].ast.targets[0], ast.Name) else None
    parses = [n for n in cfg.live for c in node_calls(n) if norm(c.func) in ("ast.parse", "compile") and c.args and norm(c.args[0]) == var and any(l == "exc" for _, l in n.succ)]
    rets = [r for r in cfg.stmts(ast.Return) if isinstance(r.ast.value, ast.Name) and r.ast.value.id == var]
    rep.floor("R-REPR-PARSE", "bare returns of the dispatched repr", len(rets), 1)
    for r in rets:
        # reachable only through the non-exceptional exit of the parse
        ok = bool(parses) and r not in reach(cfg, [cfg.entry], blocked_nodes=parses) and all(r not in reach(cfg, [b for b, l in p.succ if l == "exc"]) for p in parses)
        if ok:
            rep.ok("R-REPR-PARSE", f, r.ast, "bare repr only after ast.parse succeeded")
        else:
            rep.violation("R-REPR-PARSE", f, r.ast, "value_code_repr returns the object's repr without having checked that it parses: `<A object at 0x...>` is written into snapshot(...) and the test file no longer compiles", construct="bare-return")
    # every other return hands back a HasRepr(...) text; nothing leaves the function without the dispatch + parse check
    for r in cfg.stmts(ast.Return):
        if r in rets or r.ast.value is None:
            continue
        t = norm(r.ast.value)
        if "HasRepr(" in t:
            continue
        v = r.ast.value
        if isinstance(v, ast.Name):
            vals = [def_value(d, v.id) for d in reaching_defs(cfg, r, v.id)]
            if vals and all(x is not None and ("HasRepr(" in norm(x) or "code_repr_dispatch" in norm(x)) for x in vals) and parses and r not in reach(cfg, [cfg.entry], blocked_nodes=parses):
                continue
        rep.violation(
            "R-REPR-PARSE",
            f,
            r.ast,
            f"value_code_repr returns `{short(v, 50)}` without code_repr_dispatch() and the ast.parse check: registered representations (enums, str/bytes subclasses with their own repr, ...) are by-passed and `<Color.RED: 'red'>` is written into the test file",
            construct="undispatched-return",
        )
    handlers = [n for n in cfg.live if n.kind == "handler" and n.ast.type is not None and "SyntaxError" in norm(n.ast.type)]
    good = False
    for h in handlers:
        for r in [x for x in reach(cfg, [h]) if x.kind == "stmt" and isinstance(x.ast, ast.Return)]:
            t = norm(r.ast.value) if r.ast.value is not None else ""
            if "HasRepr(" in t and var in t and "type(" in t:
                good = True
    if good:
        rep.ok("R-REPR-PARSE", f, handlers[0].ast, "SyntaxError => HasRepr(type(obj), text)")
    else:
        rep.violation("R-REPR-PARSE", f, f.node, "an unparsable repr is not converted into HasRepr(type(obj), text)", construct="handler")


def repr_float(repo: Repo, rep):
    rep.rule(
        "R-REPR-FLOAT",
        "repr() of a builtin number is an expression that evaluates to it - except for the infinite floats, whose repr (`inf`, `-inf`) is a *name*: it "
        "passes the ast.parse check of the generated code and is a NameError when the snapshot is read back.  The dispatch table of code_repr therefore "
        "has a handler for `float` that tests for the infinite values and renders them as a call (`float(\"inf\")`)",
    )
    m = repo.module("_code_repr.py")
    hs = []
    for f in m.funcs.values():
        if not any("customize_repr" in d or "register" in d for d in f.decorators):
            continue
        a = f.node.args.args
        if a and a[0].annotation is not None and norm(a[0].annotation) == "float":
            hs.append(f)
    if not hs:
        rep.violation("R-REPR-FLOAT", m.funcs["code_repr"], m.funcs["code_repr"].node, "code_repr has no handler for float: `assert float(\"inf\") == snapshot()` + create writes `snapshot(inf)`, a NameError in the next run", construct="no-float-handler")
        return
    f = hs[0]
    txt = norm(f.node)
    tests_inf = any(isinstance(x, ast.Constant) and x.value in ("inf", "-inf") for x in body_nodes(f.node)) or "isinf" in txt or "isfinite" in txt
    calls = any(isinstance(x, (ast.JoinedStr, ast.Constant)) and "float(" in (norm(x) if isinstance(x, ast.JoinedStr) else str(x.value)) for x in body_nodes(f.node))
    if tests_inf and calls:
        rep.ok("R-REPR-FLOAT", f, f.node, "infinite floats are rendered as float(\"inf\") / float(\"-inf\")")
    else:
        rep.violation("R-REPR-FLOAT", f, f.node, "the float handler of code_repr does not single out the infinite values (or does not render them as a call): their repr is a bare name, the created snapshot raises NameError when it is read back", construct="float-handler")


def import_step(repo: Repo, rep):
    rep.rule(
        "R-IMPORT-STEP",
        "in each driver, for every file of the recorder that is written: ensure_import(<that file>, {'inline_snapshot': names}, <that recorder>) is called before "
        "fix_all with 'external' in names iff used_externals(tree) and 'HasRepr' iff used_hasrepr(tree), tree = ast.parse(<that file>.new_code())",
    )
    cg = callgraph(repo)
    for key in DRIVERS:
        f = repo.func(key)
        cfg = cfg_of(f)
        imps = [(n, c) for n in cfg.live for c in node_calls(n) if any(t.key == "_find_external.py::ensure_import" for t in cg.call_targets(f, c)[0])]
        if not imps:
            rep.violation("R-IMPORT-STEP", f, f.node, f"{f.qualname} never calls ensure_import: generated `external(...)` / `HasRepr(...)` code is written without its import and does not evaluate in the test module", construct=f"{f.qualname}:none")
            continue
        for n, c in imps:
            for name, fn in (("external", "used_externals"), ("HasRepr", "used_hasrepr")):
                apps = [m for m in cfg.live for cc in node_calls(m) if isinstance(cc.func, ast.Attribute) and cc.func.attr == "append" and cc.args and isinstance(cc.args[0], ast.Constant) and cc.args[0].value == name]
                # the same decision written as a table: [n for n, needed in (("external", used), ("HasRepr", used_hasrepr(tree))) if needed]
                from .C03 import import_table

                table_hit = None
                for st_ in cfg.stmts(ast.Assign):
                    tb = import_table(st_.ast.value, lambda nm__, st_=st_: resolve_alias(cfg, st_, nm__))
                    if tb:
                        for nm_, cond_ in tb:
                            if nm_ == name:
                                table_hit = (st_, cond_)
                if not apps and table_hit is not None:
                    st_, cond_ = table_hit
                    src = resolve_alias(cfg, st_, cond_) if isinstance(cond_, ast.Name) else cond_
                    if isinstance(src, ast.Call) and norm(src.func).endswith(fn):
                        rep.ok("R-IMPORT-STEP", f, st_.ast, f"`{name}` requested iff {fn}(tree) (table form)")
                    else:
                        rep.violation("R-IMPORT-STEP", f, st_.ast, f"the import of `{name}` is not requested under {fn}(tree)", construct=f"{f.qualname}:{name}:guard")
                    continue
                if not apps:
                    rep.violation("R-IMPORT-STEP", f, c, f"{f.qualname} never requests the import of `{name}`", construct=f"{f.qualname}:{name}")
                    continue
                for a in apps:
                    conds = []
                    for cnd in cfg.conds():
                        e = cnd.ast
                        src = resolve_alias(cfg, cnd, e) if isinstance(e, ast.Name) else e
                        if isinstance(src, ast.Call) and norm(src.func).endswith(fn):
                            conds.append((cnd, "T"))
                    if conds and edges_dominate(cfg, conds, a):
                        rep.ok("R-IMPORT-STEP", f, a.ast, f"`{name}` requested iff {fn}(tree)")
                    else:
                        rep.violation("R-IMPORT-STEP", f, a.ast, f"the import of `{name}` is not requested under {fn}(tree)", construct=f"{f.qualname}:{name}:guard")
            # the file that gets the import is the file of this iteration: `ensure_import(<v>.filename, ..)` with <v> the variable of the
            # enclosing loop over the recorder's files (not a variable left over from an earlier loop)
            floops = [a_ for a_ in ancestors(c) if isinstance(a_, ast.For) and isinstance(a_.iter, ast.Call) and isinstance(a_.iter.func, ast.Attribute) and a_.iter.func.attr == "files"]
            if floops and c.args:
                lv = floops[0].target.id if isinstance(floops[0].target, ast.Name) else None
                root = c.args[0]
                while isinstance(root, (ast.Attribute, ast.Call)):
                    root = root.value if isinstance(root, ast.Attribute) else (root.args[0] if root.args else root.func)
                if isinstance(root, ast.Name) and root.id == lv:
                    rep.ok("R-IMPORT-STEP", f, c, f"the import goes into the file of this iteration (`{lv}`)")
                else:
                    rep.violation(
                        "R-IMPORT-STEP",
                        f,
                        c,
                        f"`{short(c, 60)}` names the file through `{short(c.args[0], 30)}`, not through the loop variable `{lv}` of the files being written: with several files the import lands in another file "
                        "(or in a file without approved changes, which ends the session with an error) and the file that needs it gets none",
                        construct=f"{f.qualname}:import-file",
                    )
            # tree = ast.parse(file.new_code())
            trees = [x for x in cfg.stmts(ast.Assign) if isinstance(x.ast.value, ast.Call) and norm(x.ast.value.func) == "ast.parse"]
            if trees and all("new_code()" in norm(t.ast.value) for t in trees):
                rep.ok("R-IMPORT-STEP", f, trees[0].ast, "imports decided from the file's new code")
            else:
                rep.violation("R-IMPORT-STEP", f, c, "the imports are not decided from ast.parse(<file>.new_code())", construct=f"{f.qualname}:tree")


def default_guard(repo: Repo, rep):
    rep.rule(
        "R-DEFAULT-GUARD",
        "sibling agreement of the arguments() implementations: an argument is marked is_default (and so omitted from the generated call) only under a test that "
        "the field *has* a default - a sentinel comparison (MISSING / NOTHING / PydanticUndefined / `is not None` factory) or membership in the defaults table - "
        "never by comparing with a lookup that yields None for fields without default",
    )
    base = repo.cls("GenericCallAdapter", "_adapter/generic_call_adapter.py")
    n = 0
    for c in repo.all_classes():
        if c == base or base not in repo.mro(c) or "arguments" not in c.methods:
            continue
        m = c.methods["arguments"]
        cfg = cfg_of(m)
        # (1) `<mark> = True` statements, <mark> being whatever local is handed to Argument(..., is_default=<mark>)
        marks = {k.value.id for x in body_nodes(m.node) if isinstance(x, ast.Call) and norm(x.func).split(".")[-1] == "Argument" for k in x.keywords if k.arg == "is_default" and isinstance(k.value, ast.Name)}
        marks |= {x.args[1].id for x in body_nodes(m.node) if isinstance(x, ast.Call) and norm(x.func).split(".")[-1] == "Argument" and len(x.args) > 1 and isinstance(x.args[1], ast.Name)}
        for nd in cfg.stmts(ast.Assign):
            if any(isinstance(t, ast.Name) and t.id in marks for t in nd.ast.targets) and isinstance(nd.ast.value, ast.Constant) and nd.ast.value.value is True:
                n += 1
                from ..cfg import dominating_edges

                has = False
                for cn, lab in dominating_edges(cfg, nd):
                    if cn.kind != "cond":
                        continue
                    t = norm(cn.ast)
                    if any(k in t for k in ("MISSING", "NOTHING", "Undefined", "is not None")) and lab == "T":
                        has = True
                    if " in " in t and "default" in t and lab == "T":
                        has = True
                if has:
                    rep.ok("R-DEFAULT-GUARD", m, nd.ast, f"{c.name}: is_default only for a field that has a default")
                else:
                    rep.violation("R-DEFAULT-GUARD", m, nd.ast, f"{c.name}.arguments marks an argument as default without testing that the field has a default", construct=f"{c.name}:stmt")
                # polarity: the mark is set on the edge where the value EQUALS the default
                eq = False
                neq = False
                for cn, lab in dominating_edges(cfg, nd):
                    e_ = cn.ast
                    if cn.kind == "cond" and isinstance(e_, ast.Compare) and len(e_.ops) == 1 and isinstance(e_.ops[0], (ast.Eq, ast.NotEq)) and "default" in norm(e_) and not any(k in norm(e_) for k in ("MISSING", "NOTHING", "Undefined")):
                        same = (lab == "T") == isinstance(e_.ops[0], ast.Eq)
                        eq = eq or same
                        neq = neq or not same
                if neq and not eq:
                    rep.violation("R-DEFAULT-GUARD", m, nd.ast, f"{c.name}.arguments marks an argument as default on the edge where its value DIFFERS from the default: every non-default argument is dropped from the generated call, the created snapshot does not read back as the value", construct=f"{c.name}:polarity")
                elif eq:
                    rep.ok("R-DEFAULT-GUARD", m, nd.ast, f"{c.name}: is_default on the `value == default` edge")
        # (2) Argument(..., is_default=<expr>)
        for x in body_nodes(m.node):
            if isinstance(x, ast.Call) and norm(x.func) == "Argument":
                for k in x.keywords:
                    if k.arg == "is_default" and not isinstance(k.value, (ast.Constant, ast.Name)):
                        n += 1
                        t = norm(k.value)
                        conj = isinstance(k.value, ast.BoolOp) and isinstance(k.value.op, ast.And)
                        has = conj and any((" in " in norm(v) and "default" in norm(v)) or any(s in norm(v) for s in ("MISSING", "NOTHING", "Undefined")) for v in k.value.values)
                        ne_ = [v for v in ast.walk(k.value) if isinstance(v, ast.Compare) and len(v.ops) == 1 and isinstance(v.ops[0], ast.NotEq) and "default" in norm(v)]
                        if has and ne_:
                            rep.violation("R-DEFAULT-GUARD", m, x, f"{c.name}.arguments computes is_default with `{short(ne_[0], 50)}`: an argument is marked default when it differs from the default", construct=f"{c.name}:polarity")
                        elif has:
                            rep.ok("R-DEFAULT-GUARD", m, x, f"{c.name}: is_default = <has default> and <equal>")
                        else:
                            rep.violation(
                                "R-DEFAULT-GUARD",
                                m,
                                x,
                                f"{c.name}.arguments computes is_default as `{short(k.value, 60)}` without first testing that the field has a default: a required field whose value happens to equal the lookup's fallback (e.g. None) is dropped from the generated call, which then raises TypeError when the file is read back",
                                construct=f"{c.name}:expr",
                            )
    rep.floor("R-DEFAULT-GUARD", "is_default decisions", n, 4)


def type_qualname(repo: Repo, rep):
    rep.rule(
        "R-TYPE-QUALNAME",
        "sibling agreement of the code generators in _code_repr.py: wherever the name of a type is written into generated code (HasRepr.__repr__, the "
        "repr of types, enums, flags, dataclass-like values) it is the type's `__qualname__` - `__name__` drops the outer class of a nested class "
        "(`Device.Handle` -> `Handle`), the file stays valid and equal in the creating session but raises NameError when read back",
    )
    n = 0
    for f in repo.pkg_funcs():
        if f.module.rel != "_code_repr.py":
            continue
        for a in [x for x in body_nodes(f.node) if isinstance(x, ast.Attribute) and x.attr in ("__name__", "__qualname__")]:
            n += 1
            if a.attr == "__qualname__":
                rep.ok("R-TYPE-QUALNAME", f, a, f"`{norm(a)}`")
            else:
                rep.violation("R-TYPE-QUALNAME", f, a, f"{f.qualname} writes `{norm(a)}` into generated code: a class nested in another class is then named without its outer class and the snapshot raises NameError on the next run", construct=f"{f.qualname}:{norm(a)}")
    rep.floor("R-TYPE-QUALNAME", "type names written into generated code", n, 4)


def repr_restore(repo: Repo, rep):
    rep.rule(
        "R-REPR-RESTORE",
        "the replacement of builtins.repr by the code representation is scoped to one code_repr() call on every exit, exceptions included: it is done "
        "through `with mock.patch('builtins.repr', ...)` (or try/finally); a plain `builtins.repr = f` is followed, with every call treated as possibly "
        "raising, by a restoring assignment on every path to the function's normal and exceptional exit.  A user __repr__ that raises would otherwise "
        "leave repr() replaced for the rest of the session: later `repr(x) == snapshot()` values are created as code representations",
    )
    n = 0
    for f in repo.pkg_funcs():
        if f.module.rel != "_code_repr.py":
            continue
        stores = [x for x in body_nodes(f.node) if isinstance(x, ast.Assign) and any(isinstance(t, ast.Attribute) and t.attr == "repr" and norm(t.value) == "builtins" for t in x.targets)]
        stores += [x for x in body_nodes(f.node) if isinstance(x, ast.Call) and norm(x.func) == "setattr" and len(x.args) >= 2 and norm(x.args[0]) == "builtins" and isinstance(x.args[1], ast.Constant) and x.args[1].value == "repr"]
        # a module-level flag / counter that says "repr is replaced right now" is the same kind of state
        gl = {nm for s_ in ast.walk(f.node) if isinstance(s_, ast.Global) for nm in s_.names}
        flag_stores = [x for x in body_nodes(f.node) if isinstance(x, (ast.Assign, ast.AugAssign)) and any(isinstance(t, ast.Name) and t.id in gl for t in (x.targets if isinstance(x, ast.Assign) else [x.target]))]
        if len(flag_stores) >= 2:
            stores += flag_stores
        if not stores:
            continue
        cfg = cfg_of(f, all_raise=True)
        nodes = [nd for nd in cfg.live if nd.kind == "stmt" and any(nd.ast is s or any(y is s for y in ast.walk(nd.ast)) for s in stores)]

        def target_of(nd):
            a_ = nd.ast
            if isinstance(a_, ast.Assign):
                return norm(a_.targets[0])
            if isinstance(a_, ast.AugAssign):
                return norm(a_.target)
            return "builtins.repr"

        def restoring(nd):
            """the store puts back what the name holds at module level (real_repr / the initial value of the flag) or undoes a `+= 1`"""
            a_ = nd.ast
            t_ = target_of(nd)
            if t_ == "builtins.repr":
                return "real_repr" in norm(a_)
            if isinstance(a_, ast.AugAssign):
                return isinstance(a_.op, ast.Sub)
            init = [x.value for x in f.module.globals_assigned.get(t_, []) if isinstance(x, (ast.Assign, ast.AnnAssign)) and x.value is not None]
            return bool(init) and isinstance(a_, ast.Assign) and any(norm(a_.value) == norm(i_) for i_ in init)

        for nd in nodes:
            n += 1
            if restoring(nd):
                rep.ok("R-REPR-RESTORE", f, nd.ast, "restoring assignment")
                continue
            undo = [x for x in nodes if x is not nd and target_of(x) == target_of(nd) and restoring(x)]
            r = reach(cfg, [b for b, l in nd.succ if l != "exc"], blocked_nodes=undo)
            if not undo:
                rep.violation("R-REPR-RESTORE", f, nd.ast, f"{f.qualname} assigns `{target_of(nd)}` and never restores it", construct=f"{f.qualname}:never")
            elif cfg.exc in r or cfg.ret in r:
                rep.violation(
                    "R-REPR-RESTORE",
                    f,
                    nd.ast,
                    f"after `{short(nd.ast, 50)}` an exit of {f.qualname} (e.g. an exception raised by a user __repr__ while the value is rendered) is reached without restoring `{target_of(nd)}`: "
                    "the state 'repr is replaced' outlives the call and later values of the session are rendered with the wrong repr",
                    construct=f"{f.qualname}:unrestored",
                )
            else:
                rep.ok("R-REPR-RESTORE", f, nd.ast, f"`{target_of(nd)}` restored on every exit")
    # the scoped form
    scoped = [c for f in repo.pkg_funcs() if f.module.rel == "_code_repr.py" for c in body_nodes(f.node) if isinstance(c, ast.With) and any("patch" in norm(i.context_expr) and "builtins.repr" in norm(i.context_expr) for i in c.items)]
    if scoped:
        rep.ok("R-REPR-RESTORE", repo.func("_code_repr.py::code_repr"), scoped[0], "builtins.repr replaced inside `with mock.patch(...)`")
    elif n == 0:
        rep.undecided("R-REPR-RESTORE", "no replacement of builtins.repr found in _code_repr.py")
