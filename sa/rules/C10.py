"""C10 - parts the user controls are never rewritten."""
from __future__ import annotations

import ast
from typing import List, Optional, Set, Tuple

from ..callgraph import callgraph
from ..cfg import CFG, Node, cfg_of, dominating_edges, edge_dominates, edges_dominate, node_calls, node_dominates, reach
from ..defuse import def_value, derives_from, reaching_defs, resolve_alias
from ..model import Func, Repo, ancestors, body_nodes, norm, parent, short
from .common import undecided_class
from .emit import Site, emission_sites, flag_values

PAIR_ATTRS = {"elts": "starred", "args": "starred", "keys": "none-key", "values": "none-key", "keywords": "kwarg-none"}


def check(repo: Repo, rep, tier):
    _check(repo, rep, tier)
    from .C11 import align_complete
    from .C18 import nested_drop

    nested_drop(repo, rep)
    align_complete(repo, rep)
    zip_lockstep(repo, rep)
    is_unhashable(repo, rep)
    star_no_insert(repo, rep)
    from .C11 import by_key, align_operands

    align_operands(repo, rep)
    from .C05 import positional_map

    # a fix written onto the node of the wrong entry / argument overwrites whatever the user wrote there (an Is(), an expression)
    by_key(repo, rep)
    positional_map(repo, rep)


def is_unhashable(repo: Repo, rep):
    rep.rule(
        "R-IS-UNHASHABLE",
        "`Is(x)` can only stand where the refresh of user-controlled parts reaches it (list / tuple elements, dict values, call arguments): the class "
        "defines `__eq__` and no `__hash__`, so Python makes it unhashable and it cannot become a set member or a dict key - containers the adapters treat as "
        "opaque leaves / copy unchanged.  A hashable Is inside a set is frozen at its first value: the second evaluation raises the 'value should not "
        "change' usage error or compares against the stale value, where the plain value would simply compare",
    )
    c = None
    for k in repo.all_classes():
        if k.name == "Is" and k.module.rel == "_is.py":
            c = k
    if c is None:
        rep.undecided("R-IS-UNHASHABLE", "class Is not found in _is.py")
        return
    has_eq = "__eq__" in c.methods
    hash_def = "__hash__" in c.methods
    hash_asg = [st for st in c.node.body if isinstance(st, ast.Assign) and any(isinstance(t, ast.Name) and t.id == "__hash__" for t in st.targets) and not (isinstance(st.value, ast.Constant) and st.value.value is None)]
    if has_eq and not hash_def and not hash_asg:
        rep.ok("R-IS-UNHASHABLE", c.methods["__eq__"], c.node, "Is defines __eq__ without __hash__: unhashable")
    elif not has_eq:
        rep.violation("R-IS-UNHASHABLE", list(c.methods.values())[0], c.node, "Is no longer defines __eq__: it does not compare like its value", construct="no-eq")
    else:
        rep.violation(
            "R-IS-UNHASHABLE",
            c.methods.get("__hash__") or c.methods["__eq__"],
            c.node,
            "Is defines __hash__: Is(x) can now be a set member / dict key, where neither the Unmanaged wrapping nor the re-evaluation refresh reaches it - "
            "on the second evaluation with another x the snapshot raises 'value should not change' or compares against the stale x",
            construct="hashable",
        )


def _check(repo: Repo, rep, tier):
    rep.not_decided = "dirty-equals itself (package absent here; covered symbolically through is_dirty_equal/update_allowed); what a user wrapper's __eq__ does"
    wrap_at_entry(repo, rep)
    map_total(repo, rep)
    unmanaged_guard(repo, rep)
    star_freeze(repo, rep)
    freeze_emits_nothing(repo, rep)
    leaf_only_update(repo, rep)
    update_walk_total(repo, rep)
    reeval_refresh(repo, rep)
    items_total(repo, rep)


# ---------------------------------------------------------------- wrap at entry


def wrap_at_entry(repo: Repo, rep):
    rep.rule(
        "R-WRAP-AT-ENTRY",
        "UndecidedValue.__init__ stores adapter_map(<the argument>, map_unmanaged) as _old_value; every adapter map() applies the map function to its "
        "value or recurses through adapter_map for its elements; map_unmanaged returns Unmanaged(value) exactly on the is_unmanaged(value) edge; "
        "update_allowed is `not (is_dirty_equal(v) or isinstance(v, tuple(unmanaged_types)))`; unmanaged_types contains Is and Snapshot",
    )
    cg = callgraph(repo)
    uv = undecided_class(repo)
    init = uv.methods.get("__init__")
    cfg = cfg_of(init)
    me = init.params[0]
    stores = [n for n in cfg.stmts(ast.Assign) if any(isinstance(t, ast.Attribute) and t.attr == "_old_value" and isinstance(t.value, ast.Name) and t.value.id == me for t in n.ast.targets)]
    rep.floor("R-WRAP-AT-ENTRY", "_old_value stores in UndecidedValue.__init__", len(stores), 1)

    def is_wrap_call(x):
        if not isinstance(x, ast.Call) or len(x.args) < 2:
            return False
        tg = cg.resolve_callee(x, init)
        if not any(getattr(t, "key", "") == "_adapter/adapter.py::adapter_map" for t in tg):
            return False
        a1 = x.args[1]
        if isinstance(a1, ast.Name):
            r = repo.resolve_name(init.module, a1.id)
            return bool(r and r[0] == "func" and r[1].key == "_unmanaged.py::map_unmanaged")
        return False

    def always_wrapped(n):
        """on EVERY path the stored value is the result of the wrap call (a conditional wrap leaves the raw argument on the other path)"""
        v = n.ast.value
        if is_wrap_call(v):
            return True
        if not isinstance(v, ast.Name):
            return False
        ds = reaching_defs(cfg, n, v.id)
        if not ds:
            return False
        for d in ds:
            dv = def_value(d, v.id)
            if dv is None or not is_wrap_call(dv):
                return False
        # a parameter has no definition node: a path that passes none of the wrap definitions carries the raw argument
        from ..cfg import nodes_dominate

        return nodes_dominate(cfg, ds, n)

    for n in stores:
        if derives_from(cfg, n, n.ast.value, is_wrap_call) and not always_wrapped(n):
            rep.violation("R-WRAP-AT-ENTRY", init, n.ast, "the snapshot argument is wrapped (adapter_map(..., map_unmanaged)) only on some paths: on the others Is()/dirty-equals values that reach the snapshot through a name are stored raw, compared and rewritten like plain values", construct="init-store-conditional")
        elif derives_from(cfg, n, n.ast.value, is_wrap_call):
            rep.ok("R-WRAP-AT-ENTRY", init, n.ast, "_old_value = adapter_map(arg, map_unmanaged)")
        else:
            rep.violation("R-WRAP-AT-ENTRY", init, n.ast, "the snapshot argument is stored without wrapping its unmanaged parts (adapter_map(..., map_unmanaged)): Is()/dirty-equals values are then compared and rewritten like plain values", construct="init-store")
    # adapter map() methods
    base = repo.cls("Adapter", "_adapter/adapter.py")
    n_maps = 0
    for c in repo.all_classes():
        if c == base or base not in repo.mro(c) or "map" not in c.methods:
            continue
        m = c.methods["map"]
        n_maps += 1
        ps = m.params
        if len(ps) < 3:
            rep.undecided("R-WRAP-AT-ENTRY", f"{c.name}.map has an unexpected signature")
            continue
        vparam, fparam = ps[1], ps[2]
        calls = [x for x in body_nodes(m.node) if isinstance(x, ast.Call)]
        leaf = [x for x in calls if isinstance(x.func, ast.Name) and x.func.id == fparam]
        rec = [x for x in calls if any(getattr(t, "key", "") == "_adapter/adapter.py::adapter_map" for t in cg.resolve_callee(x, m)) and len(x.args) >= 2 and isinstance(x.args[1], ast.Name) and x.args[1].id == fparam]
        # the same recursion written out: <adapter of the element>.map(element, map_function)
        rec += [x for x in calls if isinstance(x.func, ast.Attribute) and x.func.attr == "map" and len(x.args) >= 2 and isinstance(x.args[1], ast.Name) and x.args[1].id == fparam]
        if leaf or rec:
            rep.ok("R-WRAP-AT-ENTRY", m, m.node, f"{c.name}.map: " + ("applies the map function" if leaf else f"recurses through adapter_map ({len(rec)} site(s))"))
        else:
            rep.violation("R-WRAP-AT-ENTRY", m, m.node, f"{c.name}.map neither applies the map function nor recurses through adapter_map: unmanaged values nested in this container are not wrapped", construct=f"{c.name}.map")
        # container maps: every element value that is put into the result goes through adapter_map
        if rec and not leaf:
            for x in body_nodes(m.node):
                if isinstance(x, (ast.ListComp, ast.DictComp, ast.GeneratorExp, ast.SetComp)):
                    elts = [x.value] if isinstance(x, ast.DictComp) else [x.elt]
                    for e in elts:
                        if not any(y in rec for y in ast.walk(e)):
                            # a comprehension producing raw element values
                            tgt_names = {t.id for g in x.generators for t in ast.walk(g.target) if isinstance(t, ast.Name)}
                            if any(isinstance(y, ast.Name) and y.id in tgt_names for y in ast.walk(e)) and not isinstance(e, ast.Name) is False:
                                pass
    rep.floor("R-WRAP-AT-ENTRY", "adapter map() implementations", n_maps, 4)
    # map_unmanaged
    from ..esp import UNKNOWN, run_function, valuations

    mu = repo.func("_unmanaged.py::map_unmanaged")
    outs, eng = run_function(repo, mu, UNKNOWN)
    rets = {o.ret for o in outs if o.kind == "ret"}
    p = ("param", mu.params[0])
    wrapped = {r for r in rets if isinstance(r, tuple) and r[0] == "new" and r[1] == "Unmanaged" and r[2] and r[2][0] == p}
    plain = {r for r in rets if r == p}
    if wrapped and plain and len(rets) == len(wrapped) + len(plain):
        # the wrapping path is the is_unmanaged / not update_allowed path
        ok = True
        for o in outs:
            if o.kind != "ret":
                continue
            keys = [(t, v) for t, v in o.p.assume]
            dec = [v for t, v in keys if "isinstance" in str(t) or "is_dirty_equal" in str(t) or "is_unmanaged" in str(t) or "update_allowed" in str(t)]
            if not dec:
                ok = False
        if ok:
            rep.ok("R-WRAP-AT-ENTRY", mu, mu.node, "map_unmanaged: Unmanaged(v) on the unmanaged edge, v otherwise")
        else:
            rep.violation("R-WRAP-AT-ENTRY", mu, mu.node, "map_unmanaged does not decide by the unmanaged test", construct="map_unmanaged-test")
    else:
        rep.violation("R-WRAP-AT-ENTRY", mu, mu.node, f"map_unmanaged returns {sorted(map(str, rets))[:3]}: unmanaged values must be wrapped in Unmanaged and managed ones returned unchanged", construct="map_unmanaged")
    # update_allowed / is_unmanaged
    # decided by evaluating the two predicates on the four combinations of their atoms (D: the value is a dirty-equals expression,
    # I: it is an instance of a registered unmanaged type) - whatever form they are written in
    um_mod = repo.module("_unmanaged.py")

    def ev(e, env, depth=0):
        if isinstance(e, ast.Constant):
            return bool(e.value)
        if isinstance(e, ast.UnaryOp) and isinstance(e.op, ast.Not):
            v = ev(e.operand, env, depth)
            return None if v is None else (not v)
        if isinstance(e, ast.BoolOp):
            vals = [ev(x, env, depth) for x in e.values]
            if isinstance(e.op, ast.Or):
                return True if any(v is True for v in vals) else (None if any(v is None for v in vals) else False)
            return False if any(v is False for v in vals) else (None if any(v is None for v in vals) else True)
        if isinstance(e, ast.Call):
            fn = norm(e.func)
            if fn.endswith("is_dirty_equal"):
                return env["D"]
            if fn == "isinstance" and len(e.args) == 2 and "unmanaged_types" in norm(e.args[1]):
                if not any(isinstance(x_, ast.Name) and x_.id == "unmanaged_types" for x_ in ast.walk(e.args[1])):
                    stale.append(e)
                return env["I"]
            g = um_mod.funcs.get(fn)
            if g is not None and depth < 3:
                return run(g.node.body, env, depth + 1)
        if isinstance(e, ast.Name) and e.id in env:
            return env[e.id]
        return None

    def run(stmts, env, depth=0):
        env = dict(env)
        for st in stmts:
            if isinstance(st, ast.Return):
                return ev(st.value, env, depth) if st.value is not None else False
            if isinstance(st, ast.If):
                t = ev(st.test, env, depth)
                if t is None:
                    return None
                r = run(st.body if t else st.orelse, env, depth)
                if r != "fall":
                    return r
            elif isinstance(st, ast.Assign) and len(st.targets) == 1 and isinstance(st.targets[0], ast.Name):
                env[st.targets[0].id] = ev(st.value, env, depth)
            elif isinstance(st, ast.Expr) and isinstance(st.value, ast.Constant):
                continue
            elif isinstance(st, (ast.Global, ast.Nonlocal, ast.Pass)):
                continue
            else:
                return None
        return "fall"

    stale: list = []
    ua = repo.func("_unmanaged.py::update_allowed")
    iu = repo.find_func("_unmanaged.py", "is_unmanaged")
    for fn_, want, what in ((ua, lambda d, i: not (d or i), "update_allowed"), (iu, lambda d, i: (d or i), "is_unmanaged")):
        if fn_ is None:
            continue
        wrong = []
        unknown = False
        for d in (False, True):
            for i_ in (False, True):
                r = run(fn_.node.body, {"D": d, "I": i_})
                if r is None or r == "fall":
                    unknown = True
                elif bool(r) != want(d, i_):
                    wrong.append((d, i_, r))
        if unknown:
            rep.undecided("R-WRAP-AT-ENTRY", f"{what} could not be evaluated over its atoms (is_dirty_equal / isinstance(.., unmanaged_types))")
        elif wrong:
            d, i_, r = wrong[0]
            rep.violation(
                "R-WRAP-AT-ENTRY",
                fn_,
                fn_.node,
                f"{what} answers {r} for a value with dirty-equals={d}, instance-of-unmanaged-type={i_}: "
                + ("it no longer excludes dirty-equals values and the registered unmanaged types" if what == "update_allowed" else "it is not the negation of update_allowed"),
                construct=what,
            )
        else:
            rep.ok("R-WRAP-AT-ENTRY", fn_, fn_.node, f"{what} = {'not ' if what == 'update_allowed' else ''}(dirty-equals or instance of an unmanaged type), on all four combinations")
    if stale:
        rep.violation(
            "R-WRAP-AT-ENTRY",
            ua,
            stale[0],
            f"`{short(stale[0], 60)}` tests against a copy of the registry made at import time, not against the live `unmanaged_types` list: a type registered later with declare_unmanaged() is not recognised - "
            "its values are not wrapped and a fix rewrites them",
            construct="registry-copy",
        )
    um = repo.module("_unmanaged.py")
    lst = [s for s in um.globals_assigned.get("unmanaged_types", []) if isinstance(s, ast.Assign)]
    names = {x.id for s in lst for x in ast.walk(s.value) if isinstance(x, ast.Name)}
    if {"Is", "Snapshot"} <= names:
        rep.ok("R-WRAP-AT-ENTRY", um, lst[0], "unmanaged_types contains Is and Snapshot")
    else:
        rep.violation("R-WRAP-AT-ENTRY", um, lst[0] if lst else um.tree, f"unmanaged_types = {sorted(names)}: Is(...) values / nested snapshots are no longer treated as user-controlled", construct="unmanaged_types")


# ------------------------------------------------------------- unmanaged guard


def _value_name(e: ast.AST) -> Optional[str]:
    return norm(e) if isinstance(e, (ast.Name, ast.Attribute)) else None


def unmanaged_edges(site: Site, value_expr: ast.AST) -> List[Tuple[Node, str]]:
    """Cond edges on which `value_expr` is known to be managed."""
    cfg = site.cfg
    v = _value_name(value_expr)
    if v is None:
        return []
    out = []
    for c in cfg.conds():
        e = c.ast
        if not isinstance(e, ast.Call) or not e.args:
            continue
        fn = norm(e.func)
        a0 = norm(e.args[0])
        if a0 != v:
            continue
        if fn == "isinstance" and len(e.args) == 2 and "Unmanaged" in norm(e.args[1]):
            out.append((c, "F"))
        # is_unmanaged(v) / update_allowed(v) are tests on *raw* values: the old values reaching an emission
        # site were wrapped by map_unmanaged at entry (R-WRAP-AT-ENTRY) and an Unmanaged wrapper is not an
        # instance of any registered unmanaged type, so those calls answer "managed" for every wrapped
        # Is()/dirty-equals value - they are not accepted as the guard
    return out


def fstring_edges(site: Site, node_expr: ast.AST) -> List[Tuple[Node, str]]:
    cfg = site.cfg
    v = _value_name(node_expr)
    if v is None:
        return []
    out = []
    for c in cfg.conds():
        e = c.ast
        if isinstance(e, ast.Call) and norm(e.func) == "isinstance" and len(e.args) == 2 and norm(e.args[0]) == v and "JoinedStr" in norm(e.args[1]):
            out.append((c, "F"))
        if isinstance(e, ast.Compare) and len(e.ops) == 1 and isinstance(e.ops[0], (ast.Is, ast.IsNot)) and "JoinedStr" in norm(e.comparators[0]) and norm(e.left) == f"type({v})":
            out.append((c, "F" if isinstance(e.ops[0], ast.Is) else "T"))
    return out


# sites for which the unmanaged test is vacuous, with the reason
UNMANAGED_EXEMPT = {
    "_snapshot/min_max_value.py::MinMaxValue._get_changes": "a bound can never hold an Unmanaged value: Unmanaged defines no ordering, `x <= snapshot(Is(v))` raises TypeError inside the test",
}


def unmanaged_guard(repo: Repo, rep):
    rep.rule(
        "R-UNMANAGED-GUARD",
        "every Replace (in-place edit of a node/value pair) among the Change emission sites is reachable only through the managed edge of an unmanaged "
        "test on its old value (isinstance(v, Unmanaged) false / is_unmanaged(v) false / update_allowed(v) true) and through the false edge of an "
        "isinstance(node, ast.JoinedStr) test on its node; Delete of a whole element and inserts are allowed; in ValueAdapter.assign the unmanaged test "
        "dominates every yield",
    )
    sites = emission_sites(repo)
    rep.floor("R-UNMANAGED-GUARD", "Change emission sites", len(sites), 14)
    n_rep = 0
    for s in sites:
        if s.kind != "Replace":
            rep.ok("R-UNMANAGED-GUARD", s.func, s.call, f"{s.kind}: removal/insertion of whole elements is allowed")
            continue
        n_rep += 1
        val = s.args.get("old_value")
        node = s.args.get("node")
        ue = unmanaged_edges(s, val) if val is not None else []
        if s.func.key in UNMANAGED_EXEMPT:
            rep.ok("R-UNMANAGED-GUARD", s.func, s.call, "unmanaged test vacuous: " + UNMANAGED_EXEMPT[s.func.key])
        elif ue and edges_dominate(s.cfg, ue, s.node):
            rep.ok("R-UNMANAGED-GUARD", s.func, s.call, f"Replace of `{norm(node)}` behind an unmanaged test on `{norm(val)}`")
        else:
            rep.violation(
                "R-UNMANAGED-GUARD",
                s.func,
                s.call,
                f"{s.func.qualname} can replace `{norm(node)}` although its value `{norm(val)}` is user-controlled (Is(...), dirty-equals, nested snapshot): no unmanaged test guards this Replace",
                construct="unmanaged:" + norm(node),
            )
        fe = fstring_edges(s, node) if node is not None else []
        if fe and edges_dominate(s.cfg, fe, s.node):
            rep.ok("R-UNMANAGED-GUARD", s.func, s.call, f"Replace of `{norm(node)}` behind an f-string test")
        else:
            rep.violation(
                "R-UNMANAGED-GUARD",
                s.func,
                s.call,
                f"{s.func.qualname} can replace `{norm(node)}` when it is an f-string (no `isinstance({norm(node)}, ast.JoinedStr)` test on every path to this Replace): the user's f-string is overwritten by a literal",
                construct="fstring:" + norm(node),
            )
    rep.floor("R-UNMANAGED-GUARD", "Replace sites", n_rep, 4)
    # ValueAdapter.assign: the unmanaged test dominates every yield
    va = repo.func("_adapter/value_adapter.py::ValueAdapter.assign")
    cfg = cfg_of(va)
    ys = [n for n in cfg.live if n.is_yield]
    old = va.params[1] if len(va.params) > 1 else None
    ue = [(c, "F") for c in cfg.conds() if isinstance(c.ast, ast.Call) and norm(c.ast.func) == "isinstance" and len(c.ast.args) == 2 and norm(c.ast.args[0]) == old and "Unmanaged" in norm(c.ast.args[1])]
    ue += [(c, "F") for c in cfg.conds() if isinstance(c.ast, ast.Call) and norm(c.ast.func).endswith("is_unmanaged") and c.ast.args and norm(c.ast.args[0]) == old]
    for y in ys:
        if ue and edges_dominate(cfg, ue, y):
            rep.ok("R-UNMANAGED-GUARD", va, y.ast, "yield behind the Unmanaged early return")
        else:
            rep.violation("R-UNMANAGED-GUARD", va, y.ast, "ValueAdapter.assign can emit a change for an Unmanaged old value", construct="va-yield")
    # the unmanaged branch returns the old value itself
    for c, lab in ue:
        t = [b for b, l in c.succ if l == "T"]
        rets = [n for n in reach(cfg, t) if n.kind == "stmt" and isinstance(n.ast, ast.Return)]
        first = [n for n in t if n.kind == "stmt" and isinstance(n.ast, ast.Return)]
        if first and isinstance(first[0].ast.value, ast.Name) and first[0].ast.value.id == old:
            rep.ok("R-UNMANAGED-GUARD", va, first[0].ast, "unmanaged leaf: returns the old value untouched")
        else:
            rep.violation("R-UNMANAGED-GUARD", va, c.ast, "for an Unmanaged old value ValueAdapter.assign does not return the old value untouched", construct="va-return")


# ------------------------------------------------------------------ star freeze


def _star_tests(f: Func, cfg: CFG, node_txt: str):
    """CFG nodes of star tests over `node_txt`: (dominating node, kind, bails_out)."""
    out = []
    fn = f.node
    # loop form
    for n in cfg.live:
        if n.kind == "for":
            it = norm(n.ast.iter)
            kinds = set()
            if it in (f"{node_txt}.elts", f"{node_txt}.args"):
                kinds.add("starred")
            if it.startswith("zip(") and f"{node_txt}.keys" in it:
                kinds.add("none-key")
            if it == f"{node_txt}.keys":
                kinds.add("none-key")
            if it == f"{node_txt}.keywords":
                kinds.add("kwarg-none")
            if not kinds:
                continue
            # a cond inside the loop body testing the element
            body_nodes_ = reach(cfg, [b for b, l in n.succ if l == "iter"], blocked_nodes=[n])
            for c in body_nodes_:
                if c.kind != "cond":
                    continue
                s = norm(c.ast)
                is_test = ("Starred" in s and "isinstance" in s) or s.endswith("is None")
                if not is_test:
                    continue
                t = [b for b, l in c.succ if l == "T"]
                r = reach(cfg, t, blocked_nodes=[n], skip_labels=("exc",))
                yields_change = any(x.is_yield and "warn" not in norm(x.ast) for x in r)
                returns = any(x.kind == "stmt" and isinstance(x.ast, ast.Return) for x in r)
                for k in kinds:
                    out.append((n, k, returns and not yields_change))
    # any()/all() form as a condition
    for c in cfg.conds():
        s = norm(c.ast)
        if s.startswith("any(") and node_txt in s:
            k = "starred" if "Starred" in s else "none-key" if "is None" in s and ".keys" in s else "kwarg-none" if ".arg is None" in s else None
            if k:
                t = [b for b, l in c.succ if l == "T"]
                r = reach(cfg, t, skip_labels=("exc",))
                first_ret = [x for x in t if x.kind == "stmt" and isinstance(x.ast, ast.Return)]
                yields_change = any(x.is_yield for x in reach(cfg, t, blocked_nodes=[x for x in r if x.kind == "stmt" and isinstance(x.ast, ast.Return)], skip_labels=("exc",)))
                out.append((c, k, bool(first_ret) or not yields_change))
    # predicate-helper form: `if self._has_star(node): return old` - the helper answers truthy exactly on its own star test
    if _repo_for_star is not None:
        for c in cfg.conds():
            e = c.ast
            if not (isinstance(e, ast.Call) and any(norm(a) == node_txt for a in e.args)):
                continue
            g = None
            if isinstance(e.func, ast.Attribute) and isinstance(e.func.value, ast.Name) and f.params and e.func.value.id == f.params[0]:
                owner = f
                while owner is not None and owner.cls is None:
                    owner = owner.parent
                if owner is not None:
                    g = _repo_for_star.lookup_method(owner.cls, e.func.attr)
            elif isinstance(e.func, ast.Name):
                r_ = _repo_for_star.resolve_name(f.module, e.func.id)
                g = r_[1] if r_ and r_[0] == "func" else None
            if g is None or g is f:
                continue
            idx = [i for i, a in enumerate(e.args) if norm(a) == node_txt][0]
            gparams = g.params[1:] if (g.cls is not None and "staticmethod" not in g.decorators) else g.params
            if idx >= len(gparams):
                continue
            kinds = _star_predicate_kinds(g, gparams[idx])
            if not kinds:
                continue
            t = [b for b, l in c.succ if l == "T"]
            r = reach(cfg, t, skip_labels=("exc",))
            first_ret = [x for x in t if x.kind == "stmt" and isinstance(x.ast, ast.Return)]
            yields_change = any(x.is_yield for x in reach(cfg, t, blocked_nodes=[x for x in r if x.kind == "stmt" and isinstance(x.ast, ast.Return)], skip_labels=("exc",)))
            for k in kinds:
                out.append((c, k, bool(first_ret) or not yields_change))
        # predicate helper of the opposite polarity: `if not self._keys_match_nodes(..): return` - the helper answers truthy only
        # when the display has NO star-expression (`return not any(key is None for key in keys) and ...`)
        for c in cfg.conds():
            e = c.ast
            if not isinstance(e, ast.Call):
                continue
            g = None
            if isinstance(e.func, ast.Attribute) and isinstance(e.func.value, ast.Name) and f.params and e.func.value.id == f.params[0]:
                owner = f
                while owner is not None and owner.cls is None:
                    owner = owner.parent
                if owner is not None:
                    g = _repo_for_star.lookup_method(owner.cls, e.func.attr)
            elif isinstance(e.func, ast.Name):
                r_ = _repo_for_star.resolve_name(f.module, e.func.id)
                g = r_[1] if r_ and r_[0] == "func" else None
            if g is None or g is f:
                continue
            # the node inside the helper: the parameter that receives it, or the same field of the same object
            inner = None
            idxs = [i for i, a in enumerate(e.args) if norm(a) == node_txt]
            gparams = g.params[1:] if (g.cls is not None and "staticmethod" not in g.decorators) else g.params
            if idxs and idxs[0] < len(gparams):
                inner = gparams[idxs[0]]
            elif f.params and g.params and node_txt.startswith(f.params[0] + ".") and g.cls is not None:
                inner = g.params[0] + node_txt[len(f.params[0]):]
            if inner is None:
                continue
            rets = [r for r in body_nodes(g.node) if isinstance(r, ast.Return) and r.value is not None]
            if len(rets) != 1:
                continue
            v = rets[0].value
            parts = v.values if isinstance(v, ast.BoolOp) and isinstance(v.op, ast.And) else [v]
            aliases = {t_.id: norm(st_.value) for st_ in body_nodes(g.node) if isinstance(st_, ast.Assign) for t_ in st_.targets if isinstance(t_, ast.Name)}
            kinds = set()
            for pt in parts:
                if isinstance(pt, ast.UnaryOp) and isinstance(pt.op, ast.Not) and isinstance(pt.operand, ast.Call) and norm(pt.operand.func) == "any":
                    s_ = norm(pt.operand)
                    for al, tx in aliases.items():
                        if tx.startswith(inner + "."):
                            s_ = s_.replace(f" in {al})", f" in {tx})")
                    if inner in s_:
                        k = "starred" if "Starred" in s_ else "none-key" if "is None" in s_ and ".keys" in s_ else "kwarg-none" if ".arg is None" in s_ else None
                        if k:
                            kinds.add(k)
            if not kinds:
                continue
            fe = [b for b, l in c.succ if l == "F"]
            r = reach(cfg, fe, skip_labels=("exc",))
            first_ret = [x for x in fe if x.kind == "stmt" and isinstance(x.ast, ast.Return)]
            yields_change = any(x.is_yield for x in reach(cfg, fe, blocked_nodes=[x for x in r if x.kind == "stmt" and isinstance(x.ast, ast.Return)], skip_labels=("exc",)))
            for k in kinds:
                out.append((c, k, bool(first_ret) or not yields_change))
    return out


_repo_for_star = None


def _star_predicate_kinds(g: Func, p: str):
    """kinds of star test for which g(<node>) answers truthy when the node holds a star-expression (and falsy at its end)"""
    gcfg = cfg_of(g)
    kinds = set()
    rets = gcfg.stmts(ast.Return)
    # `return any(isinstance(e, ast.Starred) for e in node.elts)` and friends
    for r in rets:
        s = norm(r.ast.value) if r.ast.value is not None else ""
        if s.startswith("any(") and p in s:
            k = "starred" if "Starred" in s else "none-key" if "is None" in s and ".keys" in s else "kwarg-none" if ".arg is None" in s else None
            if k:
                kinds.add(k)
    # loop form: `for e in node.elts: if isinstance(e, Starred): ...; return True` + `return False`
    global _repo_for_star
    saved = _repo_for_star
    _repo_for_star = None  # no recursion into further helpers
    try:
        for n, k, bails in _star_tests(g, gcfg, p):
            if n.kind != "for":
                continue
            body = reach(gcfg, [b for b, l in n.succ if l == "iter"], blocked_nodes=[n])
            truthy = [x for x in body if x.kind == "stmt" and isinstance(x.ast, ast.Return) and isinstance(x.ast.value, ast.Constant) and x.ast.value.value is True]
            falsy_end = [x for x in rets if x not in body and (x.ast.value is None or (isinstance(x.ast.value, ast.Constant) and not x.ast.value.value))]
            if truthy and (falsy_end or not [x for x in rets if x not in body]):
                kinds.add(k)
    finally:
        _repo_for_star = saved
    return kinds


def star_freeze(repo: Repo, rep):
    rep.rule(
        "R-STAR-FREEZE",
        "every place that pairs runtime elements with AST children by position (zip(values, node.elts|values|keys), node.values[pos], node.args[i], "
        "a keyword map of node.keywords) is dominated by a star-expression test over that node (ast.Starred in elts/args, a None key, kw.arg is None) "
        "whose true edge leaves without emitting a change; an `assert` is a crash, not a bail-out",
    )
    mods = [m for m in repo.modules.values() if m.rel.startswith(("_adapter/", "_snapshot/"))]
    n = 0
    global _repo_for_star
    _repo_for_star = repo
    for m in mods:
        for f in m.funcs.values():
            cfg = None
            pairings = []
            for x in body_nodes(f.node):
                hit = None
                if isinstance(x, ast.Call) and isinstance(x.func, ast.Name) and x.func.id == "zip":
                    for a in x.args:
                        cands = [a.body, a.orelse] if isinstance(a, ast.IfExp) else [a]
                        for a2 in cands:
                            if isinstance(a2, ast.Attribute) and a2.attr in PAIR_ATTRS:
                                hit = (a2.value, a2.attr, x)
                if isinstance(x, ast.Subscript) and isinstance(x.value, ast.Attribute) and x.value.attr in PAIR_ATTRS and not isinstance(x.slice, ast.Slice):
                    hit = (x.value.value, x.value.attr, x)
                if isinstance(x, (ast.DictComp, ast.ListComp, ast.GeneratorExp)) and isinstance(x.generators[0].iter, ast.Attribute) and x.generators[0].iter.attr == "keywords" and not (isinstance(parent(x), ast.Call) and norm(parent(x).func) in ("all", "any")):
                    hit = (x.generators[0].iter.value, "keywords", x)
                if hit:
                    pairings.append(hit)
            # aliases: `elements = self._ast_node.elts` ... zip(old, elements)
            if not pairings and not any(isinstance(x, ast.Call) and isinstance(x.func, ast.Name) and x.func.id == "zip" for x in body_nodes(f.node)):
                continue
            cfg = cfg_of(f)
            for x in body_nodes(f.node):
                if isinstance(x, ast.Call) and isinstance(x.func, ast.Name) and x.func.id == "zip":
                    nn = cfg.nodes_containing(x)
                    if not nn:
                        continue
                    for a in x.args:
                        if isinstance(a, ast.Name):
                            for d in reaching_defs(cfg, nn[0], a.id):
                                v = def_value(d, a.id)
                                if isinstance(v, ast.Attribute) and v.attr in PAIR_ATTRS:
                                    pairings.append((v.value, v.attr, x))
            seen = set()
            for node_expr, attr, where in pairings:
                node_txt = norm(node_expr)
                key = (node_txt, PAIR_ATTRS[attr])
                nn = cfg.nodes_containing(where)
                if not nn or (key, nn[0].id) in seen:
                    continue
                seen.add((key, nn[0].id))
                # value/AST pairing only: the other zip operands must be runtime values (not AST lists)
                if isinstance(where, ast.Call) and all(isinstance(a, ast.Attribute) and a.attr in PAIR_ATTRS for a in where.args):
                    continue
                n += 1
                kind = PAIR_ATTRS[attr]
                tf, tcfg, tnode = f, cfg, nn[0]
                if f.parent is None and f.cls is None and node_txt in f.params:
                    # module-level helper taking the node as an argument (e.g. bound with functools.partial):
                    # the star test has to dominate every place the helper is referenced with a node
                    refs = []
                    for g in repo.pkg_funcs():
                        if g is f:
                            continue
                        for x in body_nodes(g.node):
                            if isinstance(x, ast.Name) and x.id == f.name and isinstance(x.ctx, ast.Load):
                                refs.append((g, x))
                    if refs:
                        all_ok = True
                        for g, x in refs:
                            gcfg = cfg_of(g)
                            gn = gcfg.nodes_containing(x)
                            # the actual node expression: first argument after the helper in partial(...) / the call
                            call = parent(x)
                            actual = None
                            if isinstance(call, ast.Call):
                                args = [a for a in call.args if a is not x]
                                actual = norm(args[0]) if args else None
                            if not gn or actual is None:
                                all_ok = False
                                continue
                            gtests = [t for t in _star_tests(g, gcfg, actual) if t[1] == PAIR_ATTRS[attr]]
                            kill = [y for y in gcfg.stmts(ast.Assign) if any(norm(t) == actual for t in y.ast.targets) and isinstance(y.ast.value, ast.Constant) and y.ast.value.value is None]
                            nne = [(c, "F") for c in gcfg.conds() if norm(c.ast) == f"{actual} is not None"] + [(c, "T") for c in gcfg.conds() if norm(c.ast) == f"{actual} is None"]
                            if not any(t[2] and gn[0] not in reach(gcfg, [gcfg.entry], blocked_nodes=[t[0]] + kill, blocked_edges=nne) for t in gtests):
                                all_ok = False
                        n += 1
                        if all_ok:
                            rep.ok("R-STAR-FREEZE", f, where, f"pairing helper over `{node_txt}.{attr}`: every reference is behind a {PAIR_ATTRS[attr]} test")
                            continue
                        n -= 1
                if f.parent is not None and node_txt not in f.params:
                    # pairing inside a nested helper over the enclosing function's node:
                    # the star test must dominate the helper's definition
                    tf, tcfg = f.parent, cfg_of(f.parent)
                    dn = [x for x in tcfg.live if x.kind == "stmt" and x.ast is f.node]
                    if dn:
                        tnode = dn[0]
                tests = [t for t in _star_tests(tf, tcfg, node_txt) if t[1] == kind]
                # the pairing dereferences the node, so only paths on which it is not None count
                nn_edges = []
                for c in tcfg.conds():
                    sc = norm(c.ast)
                    if sc == f"{node_txt} is not None":
                        nn_edges.append((c, "F"))
                    elif sc == f"{node_txt} is None":
                        nn_edges.append((c, "T"))
                    elif sc == node_txt:
                        nn_edges.append((c, "F"))
                # `node = None` kills the node: the pairing (which dereferences it) is not reached with it
                killers = [x for x in tcfg.stmts(ast.Assign) if any(norm(t) == node_txt for t in x.ast.targets) and isinstance(x.ast.value, ast.Constant) and x.ast.value.value is None]
                good = [t for t in tests if t[2] and tnode not in reach(tcfg, [tcfg.entry], blocked_nodes=[t[0]] + killers, blocked_edges=nn_edges)]
                if good:
                    rep.ok("R-STAR-FREEZE", f, where, f"pairing over `{node_txt}.{attr}` behind a {kind} test")
                else:
                    rep.violation(
                        "R-STAR-FREEZE",
                        f,
                        where,
                        f"{f.qualname} pairs runtime elements with `{node_txt}.{attr}` by position without first bailing out on star-expressions ({kind}): with `[*rest, x]` / `{{**d, k: v}}` the wrong element is edited or the session crashes",
                        construct=f"{node_txt}.{attr}:{kind}",
                    )
    rep.floor("R-STAR-FREEZE", "positional pairings", n, 9)


def star_no_insert(repo: Repo, rep):
    rep.rule(
        "R-STAR-NO-INSERT",
        "an insertion into a container display (DictInsert / ListInsert / CallArg with the display as its node) is emitted only behind a star-expression "
        "test over that node that bails out: apply_all maps every child of the container to its tokens, and a `**mapping` entry / `*rest` element has "
        "no key / is not an element of the value - the insertion would end the session with an AttributeError (or be placed relative to the wrong "
        "elements).  The top-level CallArg of `snapshot()` itself is exempt: its node is the snapshot call, not a display the user filled",
    )
    from .emit import emission_sites

    global _repo_for_star
    _repo_for_star = repo
    n = 0
    for site in emission_sites(repo):
        if site.kind not in ("DictInsert", "ListInsert", "CallArg"):
            continue
        if site.func.module.rel == "_inline_snapshot.py":
            continue
        node_e = site.args.get("node")
        if node_e is None:
            continue
        node_txt = norm(node_e)
        f, cfg = site.func, site.cfg
        n += 1
        tests = _star_tests(f, cfg, node_txt)
        nn_edges = []
        for c in cfg.conds():
            sc = norm(c.ast)
            if sc == f"{node_txt} is not None":
                nn_edges.append((c, "F"))
            elif sc == f"{node_txt} is None":
                nn_edges.append((c, "T"))
        # the node may be found not to be a display at all (`isinstance(node, ast.Dict)` false): then nothing is mapped either
        good = [t for t in tests if t[2] and site.node not in reach(cfg, [cfg.entry], blocked_nodes=[t[0]], blocked_edges=nn_edges)]
        if good:
            rep.ok("R-STAR-NO-INSERT", f, site.call, f"{site.kind} into `{node_txt}` behind a {good[0][1]} test that bails out")
        else:
            rep.violation(
                "R-STAR-NO-INSERT",
                f,
                site.call,
                f"{f.qualname} emits a {site.kind} into `{node_txt}` on a path that has not bailed out on star-expressions: for `snapshot({{**defaults, ...}})[new_key]` / `[*rest, x]` apply_all has no tokens for the "
                "starred child and the whole report / write step ends with an AttributeError",
                construct=f"{f.qualname}:{site.kind}",
            )
    rep.floor("R-STAR-NO-INSERT", "insertion sites with a display node", n, 5)


def reeval_refresh(repo: Repo, rep):
    rep.rule(
        "R-REEVAL-REFRESH",
        "in GenericValue._re_eval the Unmanaged branch stores the new value into .value and returns; the 'snapshot value should not change' UsageError is "
        "reachable only for managed (update_allowed) values",
    )
    from .common import reeval_worker

    w = reeval_worker(repo)
    if w is None:
        rep.undecided("R-REEVAL-REFRESH", "the recursive re-evaluation check of generic_value.py was not found")
        return
    f, old = w[0], w[1]
    cfg = cfg_of(f)
    uc = [c for c in cfg.conds() if isinstance(c.ast, ast.Call) and norm(c.ast.func) == "isinstance" and len(c.ast.args) == 2 and norm(c.ast.args[0]) == old and "Unmanaged" in norm(c.ast.args[1])]
    if not uc:
        rep.violation("R-REEVAL-REFRESH", f, f.node, "re-evaluation no longer treats Unmanaged values separately: a changed Is(...) value raises 'snapshot value should not change'", construct="no-test")
        return
    # the Unmanaged test comes first: an assert / raise in front of it also hits unmanaged values, whose type and value may
    # legitimately differ between evaluations (an inner snapshot() changes its class on first use, Is(x) holds anything)
    before = reach(cfg, [cfg.entry], blocked_nodes=uc)
    early = [n for n in before if n.kind == "assertfail" or (n.kind == "stmt" and isinstance(n.ast, (ast.Raise, ast.Assert)))]
    early_asserts = [a for a in body_nodes(f.node) if isinstance(a, ast.Assert) and any(n.ast is a or (n.ast is not None and any(y is a.test for y in ast.walk(n.ast))) for n in before if n.ast is not None)]
    if early or early_asserts:
        where = (early_asserts[0] if early_asserts else early[0].ast)
        rep.violation("R-REEVAL-REFRESH", f, where, f"`{short(where, 60)}` is checked before the Unmanaged test of the re-evaluation: it also applies to Is(...) values and inner snapshots, whose type/value may differ from the first evaluation - the documented `snapshot(a) if c else snapshot(b)` pattern raises AssertionError on its second evaluation", construct="check-before-unmanaged")
    else:
        rep.ok("R-REEVAL-REFRESH", f, uc[0].ast, "the Unmanaged test is the first decision of the re-evaluation")
    for c in uc:
        t = [b for b, l in c.succ if l == "T"]
        sets = [n for n in cfg.stmts(ast.Assign) if any(isinstance(x, ast.Attribute) and x.attr == "value" and norm(x.value) == old for x in n.ast.targets)]
        r = reach(cfg, t, blocked_nodes=sets, skip_labels=("exc",))
        if sets and cfg.ret not in r:
            rep.ok("R-REEVAL-REFRESH", f, c.ast, "Unmanaged value refreshed on every path of the branch")
        else:
            rep.violation("R-REEVAL-REFRESH", f, c.ast, "the Unmanaged branch of re-evaluation does not refresh .value: Is(x) keeps the value of the first evaluation", construct="no-refresh")
        raises = [n for n in cfg.stmts(ast.Raise) if "UsageError" in norm(n.ast)]
        for rz in raises:
            if edge_dominates(cfg, (c, "F"), rz):
                rep.ok("R-REEVAL-REFRESH", f, rz.ast, "UsageError only for managed values")
            else:
                rep.violation("R-REEVAL-REFRESH", f, rz.ast, "the 'snapshot value should not change' error can be raised for an Unmanaged (Is/dirty-equals) value", construct="raise")


def map_total(repo: Repo, rep):
    rep.rule(
        "R-MAP-TOTAL",
        "the wrapped old value is rebuilt from *all* of its parts: neither an adapter's map() nor the arguments() it iterates drops an element by a "
        "filter that depends on the element's value (is_default, comparison with a default): a dropped Is(...)/dirty-equals argument comes back as a plain "
        "default value, loses its Unmanaged wrapper and is rewritten by fix",
    )
    base = repo.cls("Adapter", "_adapter/adapter.py")
    n = 0
    for c in repo.all_classes():
        if c == base or base not in repo.mro(c):
            continue
        for mname in ("map", "arguments"):
            m = c.methods.get(mname)
            if m is None:
                continue
            n += 1
            vparam = m.params[1] if len(m.params) > 1 else None
            bad = None

            def value_dependent(test):
                for x in ast.walk(test):
                    if isinstance(x, ast.Attribute) and x.attr == "is_default":
                        return True
                    if isinstance(x, ast.Call) and norm(x.func) == "getattr" and x.args and vparam and norm(x.args[0]) == vparam:
                        return True
                    if isinstance(x, ast.Compare) and any(isinstance(o, (ast.Eq, ast.NotEq)) for o in x.ops) and vparam and any(isinstance(y, ast.Name) and y.id == vparam for y in ast.walk(x)):
                        return True
                return False

            for x in body_nodes(m.node):
                if isinstance(x, (ast.ListComp, ast.DictComp, ast.SetComp, ast.GeneratorExp)):
                    for g in x.generators:
                        for i in g.ifs:
                            if value_dependent(i):
                                bad = bad or i
            # map() hands out a container of its own: the stored snapshot value is a private copy, so that a later in-place change
            # of the object the test passed is seen as "the value of the snapshot changed" (and is not compared with itself)
            if mname == "map" and vparam and c.name != "ValueAdapter":
                for r_ in [x for x in body_nodes(m.node) if isinstance(x, ast.Return) and isinstance(x.value, ast.Name) and x.value.id == vparam]:
                    rep.violation(
                        "R-MAP-TOTAL",
                        m,
                        r_,
                        f"{c.name}.map can return the container it was given (`return {vparam}`): the snapshot then stores the caller's own list / dict by reference - mutated in place between two "
                        "evaluations it is compared with itself, the 'value should not change' usage error is never raised and the stale text stays in the file",
                        construct=f"{c.name}.map:returns-argument",
                    )
                    bad = bad or r_
                    break
            if bad is not None and isinstance(bad, ast.Return):
                pass
            elif bad is not None:
                rep.violation(
                    "R-MAP-TOTAL",
                    m,
                    bad,
                    f"{c.name}.{mname} drops elements by the value-dependent filter `{short(bad, 60)}`: an Is(...) argument whose value equals the default is lost when the old value is wrapped, and fix then overwrites it",
                    construct=f"{c.name}.{mname}",
                )
            else:
                rep.ok("R-MAP-TOTAL", m, m.node, f"{c.name}.{mname} keeps every element")
    rep.floor("R-MAP-TOTAL", "map()/arguments() implementations", n, 8)


def items_total(repo: Repo, rep):
    rep.rule(
        "R-ITEMS-TOTAL",
        "every adapter items() returns one Item per element of the value on every path (with node=None when no node can be assigned), never an empty or "
        "filtered list: re-evaluation refreshes Is()/nested-snapshot wrappers through items(), and update detection walks it",
    )
    base = repo.cls("Adapter", "_adapter/adapter.py")
    n = 0
    for c in repo.all_classes():
        if c == base or base not in repo.mro(c) or "items" not in c.methods:
            continue
        m = c.methods["items"]
        vparam = m.params[1] if len(m.params) > 1 else None
        cfg = cfg_of(m)
        for r in cfg.stmts(ast.Return):
            n += 1
            v = r.ast.value
            if isinstance(v, ast.Name):
                v = resolve_alias(cfg, r, v)
            bad = None
            if v is None or (isinstance(v, (ast.List, ast.Tuple)) and not v.elts) or (isinstance(v, ast.Constant)):
                # `result = []` filled by a loop over the value is fine
                filled = isinstance(r.ast.value, ast.Name) and any(isinstance(cc.func, ast.Attribute) and cc.func.attr == "append" and norm(cc.func.value) == r.ast.value.id for nd in cfg.live for cc in node_calls(nd))
                if not filled:
                    bad = "returns an empty list"
            else:
                comps = [x for x in ast.walk(v) if isinstance(x, (ast.ListComp, ast.GeneratorExp))]
                for cp in comps:
                    if any(g.ifs for g in cp.generators):
                        bad = "filters elements"
            if bad:
                rep.violation("R-ITEMS-TOTAL", m, r.ast, f"{c.name}.items {bad} on some path: Is()/nested-snapshot wrappers inside such a container are no longer refreshed on re-evaluation (later comparisons use the value of the first evaluation)", construct=f"{c.name}.items:{norm(r.ast)[:40]}")
            else:
                rep.ok("R-ITEMS-TOTAL", m, r.ast, f"{c.name}.items returns every element")
    rep.floor("R-ITEMS-TOTAL", "return sites of items()", n, 5)


def freeze_emits_nothing(repo: Repo, rep):
    rep.rule(
        "R-FREEZE-EMITS-NOTHING",
        "in every adapter assign() the bail-out of a star-expression test (`return <old value>` after the star warning) is reachable only on paths that have "
        "not yielded any change: a container with star-expressions is frozen as a whole, not after some of its elements were already edited",
    )
    n = 0
    for f in repo.pkg_funcs():
        if f.name != "assign" or not f.module.rel.startswith("_adapter/"):
            continue
        cfg = cfg_of(f)
        old = f.params[1] if len(f.params) > 1 else None
        ys = [x for x in cfg.live if x.is_yield]
        for c in cfg.conds():
            t = norm(c.ast)
            if not (("Starred" in t and "isinstance" in t) or t.endswith("is None") and (".arg" in t or t.split(" ")[0] in ("key", "k"))):
                continue
            # the freeze return behind this test
            tr = reach(cfg, [b for b, l in c.succ if l == "T"], skip_labels=("exc",))
            rets = [x for x in tr if x.kind == "stmt" and isinstance(x.ast, ast.Return) and isinstance(x.ast.value, ast.Name) and x.ast.value.id == old]
            for r in rets:
                n += 1
                before = [y for y in ys if r in reach(cfg, [b for b, _ in y.succ], skip_labels=("exc",)) and "warn" not in norm(y.ast)]
                # yields that merely delegate to value_assign for a non-literal node are on other paths; only count yields that can precede this return
                if before:
                    rep.violation("R-FREEZE-EMITS-NOTHING", f, r.ast, f"{f.qualname} can reach the star-expression bail-out after it has already yielded `{short(before[0].ast, 50)}`: arguments before the `**`/`*` are edited although the call is to be left alone", construct=f"{f.qualname}:late-freeze")
                else:
                    rep.ok("R-FREEZE-EMITS-NOTHING", f, r.ast, "freeze before any change is yielded")
    rep.floor("R-FREEZE-EMITS-NOTHING", "star bail-outs in assign()", n, 3)


def leaf_only_update(repo: Repo, rep):
    rep.rule(
        "R-LEAF-ONLY-UPDATE",
        "UndecidedValue._get_changes (update detection of never-compared snapshots) replaces only leaves: every Replace it emits is reachable only when the "
        "value's adapter has no items() - a container is always descended into, never rewritten as a whole (its items may carry no nodes exactly because it "
        "holds star-expressions)",
    )
    sites = [s for s in emission_sites(repo) if s.kind == "Replace" and s.func.key.startswith("_snapshot/undecided_value.py::")]
    rep.floor("R-LEAF-ONLY-UPDATE", "Replace sites of the never-compared update", len(sites), 1)
    for s in sites:
        leaf_edges = []
        for c in s.cfg.conds():
            t = norm(c.ast)
            if "hasattr" in t and "items" in t:
                leaf_edges.append((c, "F"))
            if t.endswith("is not None") and "adapter" in t:
                leaf_edges.append((c, "F"))
            if t.endswith("is None") and "adapter" in t:
                leaf_edges.append((c, "T"))
        if leaf_edges and edges_dominate(s.cfg, leaf_edges, s.node):
            rep.ok("R-LEAF-ONLY-UPDATE", s.func, s.call, "Replace only for values without items()")
        else:
            rep.violation("R-LEAF-ONLY-UPDATE", s.func, s.call, f"{s.func.qualname} can replace a whole container (a value whose adapter has items()): a never-compared `snapshot([0 + 1, *rest()])` is rewritten to its literal value by update, star-expression included", construct="container-replace")


def update_walk_total(repo: Repo, rep):
    rep.rule(
        "R-UPDATE-WALK-TOTAL",
        "the walk of UndecidedValue._get_changes over a never-compared snapshot visits every element: a part the user controls (Is(..), an f-string, an "
        "element without a node) is *skipped*, it does not end the walk - no `return` and no `break` inside a loop of the walk (recursive form: the "
        "`return` behind the loop over the items; work-list form: `continue`).  Otherwise everything behind the first user-controlled part keeps its "
        "non-canonical text under update, and what is rewritten depends on the position of that part",
    )
    c = repo.cls("UndecidedValue", "_snapshot/undecided_value.py")
    top = c.methods.get("_get_changes")
    if top is None:
        rep.undecided("R-UPDATE-WALK-TOTAL", "UndecidedValue._get_changes not found")
        return
    fns = [top] + [g for g in c.module.funcs.values() if g.qualname.startswith(top.qualname + ".")]
    n = 0
    for g in fns:
        for lp in [x for x in body_nodes(g.node) if isinstance(x, (ast.For, ast.While))]:
            n += 1
            leaves = []
            todo = list(lp.body)
            while todo:
                x = todo.pop()
                if isinstance(x, (ast.FunctionDef, ast.AsyncFunctionDef, ast.ClassDef, ast.Lambda)):
                    continue
                if isinstance(x, (ast.Return, ast.Break)):
                    leaves.append(x)
                    continue
                if isinstance(x, (ast.For, ast.While)):
                    leaves += [y for y in ast.walk(x) if isinstance(y, ast.Return)]
                    continue
                todo.extend(ast.iter_child_nodes(x))
            if leaves:
                rep.violation(
                    "R-UPDATE-WALK-TOTAL",
                    g,
                    leaves[0],
                    f"{g.qualname} ends its walk over the elements at `{short(leaves[0], 30)}` inside the loop `{short(lp, 40)}`: the elements behind the first one that takes this path are never looked at - "
                    "with `--inline-snapshot=update` a never-compared `snapshot([Is(x), 1 + 1])` keeps `1 + 1`, while `snapshot([1 + 1, Is(x)])` is normalised",
                    construct=f"{g.qualname}:walk-left-early",
                )
            else:
                rep.ok("R-UPDATE-WALK-TOTAL", g, lp, "the loop visits every element")
    rep.floor("R-UPDATE-WALK-TOTAL", "loops of the never-compared walk", n, 1)


def zip_lockstep(repo: Repo, rep):
    rep.rule(
        "R-ZIP-LOCKSTEP",
        "runtime elements and AST children are paired in lock-step: in the adapters, a loop that walks the children of a node (`.elts`, `.keys`, `.values`, "
        "`.args`, `.keywords`) and draws the runtime values from a separate iterator with `next(<it>)` does so on EVERY path of an iteration (or uses zip).  "
        "An iterator that advances only on some paths (e.g. only for non-literal keys) pairs every later value with the wrong node: an update then writes "
        "one entry's value into another entry",
    )
    n = 0
    for f in repo.pkg_funcs():
        if not f.module.rel.startswith("_adapter/"):
            continue
        loops = [x for x in body_nodes(f.node) if isinstance(x, ast.For) and any(isinstance(y, ast.Attribute) and y.attr in PAIR_ATTRS and "node" in norm(y.value) for y in ast.walk(x.iter))]
        if not loops:
            continue
        cfg = cfg_of(f)
        for lp in loops:
            head = [nd for nd in cfg.live if nd.kind == "for" and nd.ast is lp]
            if not head:
                continue
            h = head[0]
            body = reach(cfg, [b for b, l in h.succ if l == "iter"], blocked_nodes=[h])
            draws = {}
            for nd in body:
                for c in node_calls(nd):
                    if isinstance(c.func, ast.Name) and c.func.id == "next" and c.args and isinstance(c.args[0], ast.Name):
                        draws.setdefault(c.args[0].id, []).append(nd)
            for it, nodes in draws.items():
                # the iterator must come from a runtime value, not from the node itself
                src = [def_value(d, it) for d in reaching_defs(cfg, h, it)]
                if any(v is not None and any(isinstance(y, ast.Attribute) and y.attr in PAIR_ATTRS and "node" in norm(y.value) for y in ast.walk(v)) for v in src):
                    continue
                n += 1
                r = reach(cfg, [b for b, l in h.succ if l == "iter"], blocked_nodes=nodes, skip_labels=("exc",))
                if h in r:
                    rep.violation(
                        "R-ZIP-LOCKSTEP",
                        f,
                        nodes[0].ast,
                        f"{f.qualname}: `next({it})` is not reached on every path of an iteration over `{short(lp.iter, 40)}`: the runtime values fall out of step with the nodes, later values are paired with the nodes of other entries "
                        "(an update of a never-compared snapshot with literal and non-literal keys writes one entry's value into another)",
                        construct=f"{f.qualname}:{it}",
                    )
                else:
                    rep.ok("R-ZIP-LOCKSTEP", f, nodes[0].ast, f"`{it}` advances once per node")
    rep.count("separate_value_iterators", n)
    if n == 0:
        rep.ok("R-ZIP-LOCKSTEP", repo.func("_adapter/dict_adapter.py::DictAdapter.items"), None, "values and nodes are paired with zip / one shared loop", site="src/inline_snapshot/_adapter/*: value iterators")
