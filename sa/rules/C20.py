"""C20 - a formatter-clean test file stays formatter-clean."""
from __future__ import annotations

import ast

from ..callgraph import callgraph
from ..cfg import cfg_of, edges_dominate, node_calls, reach
from ..defuse import def_value, defs_of, reaching_defs, resolve_alias
from ..model import Repo, body_nodes, norm, short
from .C03 import wholefile_gate

MODE_KEYS = {
    # pyproject key -> (black.Mode field, negated?)
    "line_length": ("line_length", False),
    "skip_magic_trailing_comma": ("magic_trailing_comma", True),
    "skip_string_normalization": ("string_normalization", True),
    "preview": ("preview", False),
}

from .common import stale_bindings


def check(repo: Repo, rep, tier):
    rep.not_decided = "black's idempotence and what it does with a long value; the property's observation needs the formatter to run"
    wholefile_gate(repo, rep)
    result_unmodified(repo, rep)
    one_mode(repo, rep)
    mode_table(repo, rep)
    from .C16 import fmt_shell

    fmt_shell(repo, rep)
    from .C15 import fmt_degrade, fmt_no_cache

    fmt_no_cache(repo, rep)
    fmt_degrade(repo, rep)
    from .C04 import configure

    # the format-command is part of the project's configuration: it has to be read, from the project
    configure(repo, rep)
    stale_bindings(repo, rep, {"config"}, "e.g. a copied `config` never sees the format-command of the session, so whole-file and fragment formatting disagree")


def result_unmodified(repo: Repo, rep):
    rep.rule(
        "R-FORMAT-RESULT",
        "SourceFile.new_code returns the formatter's result itself on the formatted path (a plain name whose definitions are the replacement result and "
        "format_code(<that>, <file>) - nothing is applied afterwards), the formatter gets the whole new text, and rewrite() writes new_code() unchanged",
    )
    f = repo.func("_rewrite_code.py::SourceFile.new_code")
    cfg = cfg_of(f)
    rets = [r for r in cfg.stmts(ast.Return) if r.ast.value is not None]
    rep.floor("R-FORMAT-RESULT", "returns of new_code", len(rets), 1)
    for r in rets:
        v = r.ast.value
        if not isinstance(v, ast.Name):
            rep.violation("R-FORMAT-RESULT", f, r.ast, f"new_code returns `{short(v, 50)}`: something is applied to the text after the formatter ran, so a formatter-clean file need not stay clean", construct="post-processing")
            continue
        ds = reaching_defs(cfg, r, v.id)
        kinds = []
        for d in ds:
            dv = def_value(d, v.id)
            t = norm(dv) if dv is not None else "?"
            if "format_code(" in t and isinstance(dv, ast.Call) and norm(dv.func).endswith("format_code"):
                a0 = dv.args[0] if dv.args else None
                if isinstance(a0, ast.Name) and a0.id == v.id:
                    kinds.append("formatted")
                else:
                    kinds.append("formatted-other")
            elif "replace(" in t:
                kinds.append("replaced")
            else:
                kinds.append("other:" + t[:40])
        bad = [k for k in kinds if k.startswith(("other", "formatted-other"))]
        if bad or "formatted" not in kinds:
            rep.violation("R-FORMAT-RESULT", f, r.ast, f"the text returned by new_code has definitions {kinds}: it must be the result of the replacements, optionally passed as a whole through format_code and nothing else", construct="defs")
        else:
            rep.ok("R-FORMAT-RESULT", f, r.ast, f"returns `{v.id}` = replacements [-> format_code]")
    # format_str / format_code applied to the whole text: no `lines=`/range argument
    fc = repo.func("_format.py::format_code")
    for c in body_nodes(fc.node):
        if isinstance(c, ast.Call) and norm(c.func).endswith("format_str"):
            extra = [k.arg for k in c.keywords if k.arg not in ("mode",)]
            if extra or len(c.args) != 1:
                rep.violation("R-FORMAT-RESULT", fc, c, f"format_str is called with {extra or 'extra positional arguments'}: only a part of the file is formatted, the rest of a clean file is not re-wrapped", construct="format_str-args")
            else:
                rep.ok("R-FORMAT-RESULT", fc, c, "format_str(text, mode=mode) on the whole text")
    w = repo.func("_rewrite_code.py::SourceFile.rewrite")
    wcfg = cfg_of(w)
    writes = [(n, c) for n in wcfg.live for c in node_calls(n) if isinstance(c.func, ast.Attribute) and c.func.attr in ("write", "write_text", "write_bytes") and c.args]
    rep.floor("R-FORMAT-RESULT", "write sites in rewrite", len(writes), 1)
    def _only_bom(e) -> bool:
        # a byte order mark (or nothing): `codecs.BOM_UTF8`, b"\xef\xbb\xbf", b"", a conditional between them
        if isinstance(e, ast.IfExp):
            return _only_bom(e.body) and _only_bom(e.orelse)
        if isinstance(e, ast.Attribute):
            return e.attr == "BOM_UTF8"
        return isinstance(e, ast.Constant) and e.value in (b"", b"\xef\xbb\xbf")

    for n, c in writes:
        a = c.args[0]
        if _only_bom(a):
            rep.ok("R-FORMAT-RESULT", w, c, "writes the byte order mark of the original file")
            continue
        # <mark> + new_code().encode(): the mark is no part of the code
        parts = []
        stack = [a]
        while stack:
            x = stack.pop()
            if isinstance(x, ast.BinOp) and isinstance(x.op, ast.Add):
                stack += [x.left, x.right]
            else:
                parts.append(x)
        def _bom_local(x) -> bool:
            # a local that holds the mark or nothing on every path (`if has_bom: prefix = codecs.BOM_UTF8` / `else: prefix = b""`)
            if not isinstance(x, ast.Name):
                return False
            vals = [def_value(d_, x.id) for d_ in reaching_defs(wcfg, n, x.id)]
            return bool(vals) and all(v_ is not None and _only_bom(v_) for v_ in vals)

        payload = [x for x in parts if not _only_bom(x) and not _bom_local(x)]
        base = payload[0] if len(payload) == 1 else a
        if isinstance(base, ast.Call) and isinstance(base.func, ast.Attribute) and base.func.attr == "encode":
            base = base.func.value
        if isinstance(base, ast.Name):
            base = resolve_alias(wcfg, n, base)
            if isinstance(base, ast.Call) and isinstance(base.func, ast.Attribute) and base.func.attr == "encode":
                base = base.func.value
                if isinstance(base, ast.Name):
                    base = resolve_alias(wcfg, n, base)
        if isinstance(base, ast.Call) and isinstance(base.func, ast.Attribute) and base.func.attr == "new_code" and not base.args:
            rep.ok("R-FORMAT-RESULT", w, c, "rewrite writes new_code() unchanged")
        else:
            rep.violation("R-FORMAT-RESULT", w, c, f"rewrite writes `{short(a, 40)}`, not new_code() itself", construct="write-arg")


def _mode_ctor(x) -> bool:
    return isinstance(x, ast.Call) and norm(x.func).split(".")[-1] in ("FileMode", "Mode")


def mode_builder(repo: Repo):
    """the function of _format.py that builds black's Mode (today file_mode_for_path; found by what it does) and the name of its path parameter"""
    m = repo.module("_format.py")
    cands = [f for f in m.funcs.values() if any(_mode_ctor(x) for x in body_nodes(f.node))]
    if len(cands) > 1:
        # the builder is the one that looks the project's configuration up; a bare `Mode()` elsewhere is a use, judged by R-ONE-MODE
        cands = [f for f in cands if any(isinstance(x, ast.Call) and norm(x.func).split(".")[-1] in ("find_pyproject_toml", "parse_pyproject_toml") for x in body_nodes(f.node))]
    if len(cands) != 1:
        from ..model import AnalysisError

        raise AnalysisError(f"anchor vanished: expected exactly one function of _format.py that constructs black's Mode, found {[f.qualname for f in cands]}")
    f = cands[0]
    if f.name == "format_code" or len(f.params) > 1:
        path_p = f.params[1] if len(f.params) > 1 else None
    else:
        path_p = f.params[0] if f.params else None
    return f, path_p


def one_mode(repo: Repo, rep):
    rep.rule(
        "R-ONE-MODE",
        "format_str takes its mode from file_mode_for_path(<the path parameter of format_code>); every format_code call site passes the path of the file "
        "being edited: fragments and the whole file are formatted with one and the same mode",
    )
    fc = repo.func("_format.py::format_code")
    cfg = cfg_of(fc)
    path_p = fc.params[1] if len(fc.params) > 1 else None
    sites = [(n, c) for n in cfg.live for c in node_calls(n) if norm(c.func).endswith("format_str")]
    rep.floor("R-ONE-MODE", "format_str sites", len(sites), 1)
    for n, c in sites:
        mode = next((k.value for k in c.keywords if k.arg == "mode"), None)
        src = resolve_alias(cfg, n, mode) if isinstance(mode, ast.Name) else mode
        mb, mb_path = mode_builder(repo)
        cg0 = callgraph(repo)
        if isinstance(src, ast.Call) and mb.key != fc.key and any(t.key == mb.key for t in cg0.call_targets(fc, src)[0]) and src.args and norm(src.args[0]) == path_p:
            rep.ok("R-ONE-MODE", fc, c, f"mode = {mb.name}(filename)")
        elif mb.key == fc.key and _mode_ctor(src) and mb_path == path_p:
            rep.ok("R-ONE-MODE", fc, c, "the mode is built in format_code itself from the path parameter (R-MODE-TABLE audits how)")
        else:
            rep.violation("R-ONE-MODE", fc, c, f"format_str is called with mode `{short(src if src is not None else c, 40)}`, not the mode of the edited file's path: the project's black options are ignored", construct="mode")
    cg = callgraph(repo)
    callers = [(cf, c) for cf, c, how in cg.callers.get("_format.py::format_code", []) if not cf.module.rel.startswith("@")]
    rep.floor("R-ONE-MODE", "format_code call sites", len(callers), 3)
    for cf, c in callers:
        p = c.args[1] if len(c.args) > 1 else next((k.value for k in c.keywords if k.arg == "filename"), None)
        if isinstance(p, ast.Name):
            ccfg = cfg_of(cf)
            cn = ccfg.nodes_containing(c)
            if cn:
                p = resolve_alias(ccfg, cn[0], p)
        t = norm(p) if p is not None else ""
        if p is not None and ("self.filename" in t or "self._source.filename" in t):
            rep.ok("R-ONE-MODE", cf, c, f"path of the edited file: {t}")
        else:
            rep.violation("R-ONE-MODE", cf, c, f"{cf.qualname} formats with path `{t or '<missing>'}`, not the path of the file being edited: black's configuration is looked up elsewhere", construct=f"{cf.qualname}:path")


def _conversion_polarity(repo: Repo, m, conv):
    """False: the value itself (int / bool / identity); True: its negation; None: something else"""
    if isinstance(conv, ast.Name) and conv.id in ("int", "bool") and conv.id not in m.funcs:
        return False
    # the operator module's spellings of `not x` / `bool(x)`
    dotted = norm(conv)
    if isinstance(conv, ast.Name) and conv.id in m.imports and m.imports[conv.id][0] == "operator":
        dotted = "operator." + (m.imports[conv.id][1] or conv.id)
    if dotted in ("operator.not_", "operator.__not__"):
        return True
    if dotted in ("operator.truth",):
        return False
    body = None
    if isinstance(conv, ast.Lambda) and len(conv.args.args) == 1:
        p, body = conv.args.args[0].arg, conv.body
    elif isinstance(conv, ast.Name) and conv.id in m.funcs and m.funcs[conv.id].cls is None:
        g = m.funcs[conv.id]
        st = [x for x in g.node.body if not (isinstance(x, ast.Expr) and isinstance(x.value, ast.Constant))]
        if len(g.params) == 1 and len(st) == 1 and isinstance(st[0], ast.Return) and st[0].value is not None:
            p, body = g.params[0], st[0].value
    if body is None:
        return None
    neg = False
    if isinstance(body, ast.UnaryOp) and isinstance(body.op, ast.Not):
        neg, body = True, body.operand
    if isinstance(body, ast.Call) and norm(body.func) in ("int", "bool") and len(body.args) == 1:
        body = body.args[0]
    return neg if isinstance(body, ast.Name) and body.id == p else None


def _option_table(repo: Repo, f, mode_vars):
    """{key: (Mode attribute, negated, row)} when f transfers the options in a loop over a table of (key, attribute, conversion) rows:
         for key, attribute, convert in TABLE:
             if key in config: setattr(mode, attribute, convert(config[key]))
       None when there is no such loop"""
    m = f.module
    for lp in [x for x in body_nodes(f.node) if isinstance(x, ast.For)]:
        if not (isinstance(lp.target, ast.Tuple) and len(lp.target.elts) == 3 and all(isinstance(e, ast.Name) for e in lp.target.elts)):
            continue
        tbl = lp.iter
        if isinstance(tbl, ast.Name):
            sts = m.globals_assigned.get(tbl.id, [])
            tbl = sts[0].value if len(sts) == 1 and isinstance(sts[0], (ast.Assign, ast.AnnAssign)) else None
        if not isinstance(tbl, (ast.Tuple, ast.List)):
            continue
        # the body: exactly `if <k> in <config>: setattr(<mode>, <a>, <c>(<config>[<k>]))` with k, a, c the loop variables in some order
        if len(lp.body) != 1 or not isinstance(lp.body[0], ast.If) or lp.body[0].orelse or len(lp.body[0].body) != 1:
            continue
        test, act = lp.body[0].test, lp.body[0].body[0]
        if not (isinstance(test, ast.Compare) and len(test.ops) == 1 and isinstance(test.ops[0], ast.In) and isinstance(test.left, ast.Name) and "config" in norm(test.comparators[0])):
            continue
        if not (isinstance(act, ast.Expr) and isinstance(act.value, ast.Call) and norm(act.value.func) == "setattr" and len(act.value.args) == 3):
            continue
        tgt, a_, val = act.value.args
        if not (isinstance(tgt, ast.Name) and tgt.id in mode_vars and isinstance(a_, ast.Name)):
            continue
        if not (isinstance(val, ast.Call) and isinstance(val.func, ast.Name) and len(val.args) == 1 and isinstance(val.args[0], ast.Subscript) and norm(val.args[0].value) == norm(test.comparators[0]) and norm(val.args[0].slice) == test.left.id):
            continue
        names = [e.id for e in lp.target.elts]
        if len({test.left.id, a_.id, val.func.id}) != 3 or not {test.left.id, a_.id, val.func.id} <= set(names):
            continue
        ki, ai, ci = names.index(test.left.id), names.index(a_.id), names.index(val.func.id)
        out = {}
        for row in tbl.elts:
            if not (isinstance(row, (ast.Tuple, ast.List)) and len(row.elts) == 3 and isinstance(row.elts[ki], ast.Constant) and isinstance(row.elts[ai], ast.Constant)):
                return None
            out[row.elts[ki].value] = (row.elts[ai].value, _conversion_polarity(repo, m, row.elts[ci]), row)
        return out
    return None


def mode_table(repo: Repo, rep):
    rep.rule(
        "R-MODE-TABLE",
        "file_mode_for_path reads the options from the pyproject.toml that black's own find_pyproject_toml/parse_pyproject_toml resolve for that path, and "
        "each of line_length, skip_magic_trailing_comma, skip_string_normalization, preview is read under `key in config` and assigned to the matching "
        "Mode field with the right polarity (skip_* negated, the others direct) from config[key] itself",
    )
    f, pathp = mode_builder(repo)
    cfg = cfg_of(f)
    m = f.module
    # black's own lookup functions
    for fn in ("find_pyproject_toml", "parse_pyproject_toml"):
        imp = m.imports.get(fn)
        calls = [c for c in body_nodes(f.node) if isinstance(c, ast.Call) and norm(c.func) == fn]
        if imp and imp[0] == "black" and calls:
            if fn == "find_pyproject_toml":
                c = calls[0]
                if not any(isinstance(x, ast.Name) and x.id == pathp for a in c.args for x in ast.walk(a)):
                    rep.violation("R-MODE-TABLE", f, c, "find_pyproject_toml is not asked for the path of the edited file", construct="find-arg")
                    continue
                # black starts the search at the *sources* (first argument); with an empty tuple it starts at the current directory and uses
                # the second argument only to replace a source named "-"
                srcs = c.args[0] if c.args else None
                in_srcs = srcs is not None and any(isinstance(x, ast.Name) and x.id == pathp for x in ast.walk(srcs))
                dash = srcs is not None and any(isinstance(x, ast.Constant) and x.value == "-" for x in ast.walk(srcs)) and len(c.args) > 1
                if not (in_srcs or dash):
                    rep.violation(
                        "R-MODE-TABLE",
                        f,
                        c,
                        f"`{short(c, 50)}` hands the file only as stdin_filename with no source named \"-\": black ignores it and searches the configuration from the current working directory - "
                        "after a monkeypatch.chdir() in a test, or with pytest started outside the project, the file is formatted with black's defaults instead of the project's [tool.black] options",
                        construct="find-from-cwd",
                    )
                    continue
            rep.ok("R-MODE-TABLE", f, calls[0], f"{fn} is black's own")
        else:
            rep.violation("R-MODE-TABLE", f, f.node, f"file_mode_for_path does not use black's own `{fn}`: the configuration inline-snapshot formats with can differ from the one `black` itself uses for that file (e.g. a nearer pyproject.toml without [tool.black])", construct=f"lookup:{fn}")
    # the Mode starts from black's defaults: nothing is put into the constructor that the project's black configuration does not say
    mode_vars = {t.id for n in cfg.stmts(ast.Assign) if _mode_ctor(n.ast.value) for t in n.ast.targets if isinstance(t, ast.Name)}
    for c in [x for x in body_nodes(f.node) if _mode_ctor(x)]:
        own = [a for a in list(c.args) + [k.value for k in c.keywords] if "config" not in norm(a)]
        if own:
            rep.violation("R-MODE-TABLE", f, c, f"`{short(c, 60)}` fixes an option ({short(own[0], 40)}) that does not come from the project's black configuration: files that `black` itself accepts are judged 'not formatted' (the final pass is skipped) or are re-wrapped differently", construct="mode-ctor-args")
        else:
            rep.ok("R-MODE-TABLE", f, c, "Mode() starts from black's defaults")
    # every option is read on its own: the test `"<key>" in config` of one option is not nested in / chained behind the test of another
    keyconds = [c for c in cfg.conds() if isinstance(c.ast, ast.Compare) and len(c.ast.ops) == 1 and isinstance(c.ast.ops[0], ast.In) and isinstance(c.ast.left, ast.Constant) and c.ast.left.value in MODE_KEYS]
    from ..cfg import dominating_edges as _de

    for c in keyconds:
        for cn, lab in _de(cfg, c):
            if cn in keyconds and cn is not c:
                rep.violation(
                    "R-MODE-TABLE",
                    f,
                    c.ast,
                    f"the black option `{c.ast.left.value}` is only read on the {'true' if lab == 'T' else 'false'} edge of `{norm(cn.ast)}` (elif / nested if): with both options in [tool.black] one of them is ignored - "
                    "a clean file is judged 'not formatted' and the final pass is skipped",
                    construct=f"dependent:{c.ast.left.value}",
                )
    # the Mode handed out is the one built in this call for this path: not an object kept in a config / module attribute
    for r in cfg.stmts(ast.Return):
        v = r.ast.value
        if v is None:
            continue
        if (isinstance(v, ast.Name) and v.id in mode_vars) or _mode_ctor(v):
            rep.ok("R-MODE-TABLE", f, r.ast, "returns the Mode built in this call")
        elif f.name == "format_code" or not mode_vars:
            continue
        else:
            rep.violation(
                "R-MODE-TABLE",
                f,
                r.ast,
                f"{f.qualname} returns `{short(v, 40)}`, not the Mode it has just built for this path: a Mode kept across calls (session config, module attribute) belongs to the first file that was formatted - "
                "files of another project / another Example in the same process are formatted with its options",
                construct="mode-not-local",
            )
    found = {}
    for n in cfg.stmts(ast.Assign):
        for t in n.ast.targets:
            if isinstance(t, ast.Attribute) and isinstance(t.value, ast.Name) and t.value.id in mode_vars:
                found.setdefault(t.attr, []).append(n)
    # nothing but the options of the project's configuration is set on the Mode: no other field in the builder, and no field at all on the
    # Mode it handed out (`mode = file_mode_for_path(..)`, `mode.target_versions = ...` in format_code).  A field fixed by the plugin makes
    # its formatting differ from what `black <file>` does with the same configuration
    fields = {fld for fld, _ in MODE_KEYS.values()}
    for g in m.funcs.values():
        if g is f:
            gvars = set(mode_vars)
        else:
            gvars = {t.id for st in body_nodes(g.node) if isinstance(st, ast.Assign) and isinstance(st.value, ast.Call) and norm(st.value.func).split(".")[-1] == f.name for t in st.targets if isinstance(t, ast.Name)}
        if not gvars:
            continue
        for st in body_nodes(g.node):
            tgts = []
            if isinstance(st, ast.Assign):
                tgts = st.targets
            elif isinstance(st, (ast.AugAssign, ast.AnnAssign)):
                tgts = [st.target]
            elif isinstance(st, ast.Call) and norm(st.func) == "setattr" and len(st.args) == 3 and isinstance(st.args[0], ast.Name) and st.args[0].id in gvars and isinstance(st.args[1], ast.Constant):
                if (g is not f or st.args[1].value not in fields) and "config" not in norm(st.args[2]):
                    rep.violation("R-MODE-TABLE", g, st, f"`{short(st, 60)}` sets a field of black's Mode that is not one of the options read from the project's configuration: files that `black` itself accepts are judged 'not formatted' (the final pass is skipped) or are laid out differently", construct=f"mode-extra-field:{st.args[1].value}")
            for t in tgts:
                from_config = getattr(st, "value", None) is not None and "config" in norm(st.value)  # a further option of [tool.black] handed on: not this clause's business
                if isinstance(t, ast.Attribute) and isinstance(t.value, ast.Name) and t.value.id in gvars and (g is not f or t.attr not in fields) and not from_config:
                    rep.violation(
                        "R-MODE-TABLE",
                        g,
                        st,
                        f"`{short(st, 60)}` sets Mode.{t.attr}, which is not one of the options read from the project's black configuration: inline-snapshot then formats with another mode than `black <file>` does - "
                        "a file that is clean for black is judged 'not formatted' (the final whole-file pass is skipped and a long value stays on one line) or is laid out differently",
                        construct=f"mode-extra-field:{t.attr}",
                    )
    table = _option_table(repo, f, mode_vars)
    for key, (field, neg) in MODE_KEYS.items():
        ns = found.get(field, [])
        if not ns and table is not None and key in table:
            # the same transfer written as data: `for key, attribute, convert in <table>: if key in config: setattr(mode, attribute, convert(config[key]))`
            attr, negated, row = table[key]
            if attr != field:
                rep.violation("R-MODE-TABLE", f, row, f"the black option `{key}` is transferred to Mode.{attr}, not Mode.{field}", construct=f"missing:{key}")
            elif negated is None:
                rep.violation("R-MODE-TABLE", f, row, f"Mode.{field} is set from `{short(row, 60)}`, not from config[{key!r}] itself (conversion not understood)", construct=f"src:{key}")
            elif negated != neg:
                rep.violation("R-MODE-TABLE", f, row, f"Mode.{field} gets config[{key!r}] with the wrong polarity", construct=f"polarity:{key}")
            else:
                rep.ok("R-MODE-TABLE", f, row, f"{key} -> Mode.{field} ({'negated' if neg else 'direct'}), row of the option table")
            continue
        if not ns:
            rep.violation("R-MODE-TABLE", f, f.node, f"the black option `{key}` is not transferred to Mode.{field}", construct=f"missing:{key}")
            continue
        for n in ns:
            v = n.ast.value
            inner = v
            negated = False
            if isinstance(inner, ast.UnaryOp) and isinstance(inner.op, ast.Not):
                negated = True
                inner = inner.operand
            if isinstance(inner, ast.Call) and norm(inner.func) in ("int", "bool") and inner.args:
                inner = inner.args[0]
            good_src = isinstance(inner, ast.Subscript) and isinstance(inner.slice, ast.Constant) and inner.slice.value == key
            guards = [(c, "T") for c in cfg.conds() if isinstance(c.ast, ast.Compare) and isinstance(c.ast.ops[0], ast.In) and isinstance(c.ast.left, ast.Constant) and c.ast.left.value == key]
            guarded = bool(guards) and edges_dominate(cfg, guards, n)
            if good_src and negated == neg and guarded:
                rep.ok("R-MODE-TABLE", f, n.ast, f"{key} -> Mode.{field} ({'negated' if neg else 'direct'})")
            elif not good_src:
                rep.violation("R-MODE-TABLE", f, n.ast, f"Mode.{field} is set from `{short(v, 40)}`, not from config[{key!r}]: the value the project configured is ignored (e.g. `{key} = false` is treated like true)", construct=f"src:{key}")
            elif negated != neg:
                rep.violation("R-MODE-TABLE", f, n.ast, f"Mode.{field} gets config[{key!r}] with the wrong polarity", construct=f"polarity:{key}")
            else:
                rep.violation("R-MODE-TABLE", f, n.ast, f"Mode.{field} is assigned without `{key!r} in config` being true on every path", construct=f"guard:{key}")
