"""Statement/condition control-flow graph with short-circuit decomposition,
exceptional edges for `try` bodies, `finally` duplication per abrupt exit, and
reachability-based dominance queries.
"""
from __future__ import annotations

import ast
from typing import Callable, Dict, Iterable, List, Optional, Set, Tuple

from .model import AnalysisError, Func, norm, short


class Node:
    __slots__ = ("id", "kind", "ast", "succ", "pred", "is_yield", "note")

    def __init__(self, id, kind, astn=None, note=""):
        self.id = id
        self.kind = kind  # entry ret exc stmt cond for join with handler assertfail
        self.ast = astn
        self.succ: List[Tuple["Node", str]] = []
        self.pred: List[Tuple["Node", str]] = []
        self.is_yield = False
        self.note = note

    @property
    def line(self):
        return getattr(self.ast, "lineno", 0)

    def text(self):
        if self.kind in ("entry", "ret", "exc", "join"):
            return self.kind.upper() + (f"({self.note})" if self.note else "")
        if self.kind == "for":
            return f"for {norm(self.ast.target)} in {short(self.ast.iter, 50)}"
        if self.kind == "with":
            return "with " + ", ".join(short(i, 50) for i in self.ast.items)
        if self.kind == "handler":
            return "except " + (norm(self.ast.type) if self.ast.type else "")
        if self.kind == "assertfail":
            return "assert-fails"
        return short(self.ast, 80)

    def __repr__(self):
        return f"<{self.id}:{self.kind}:{self.line}:{self.text()[:40]}>"


class Lazy:
    def __init__(self, thunk: Callable[[], Node]):
        self.thunk = thunk
        self.val: Optional[Node] = None

    def get(self) -> Node:
        if self.val is None:
            self.val = self.thunk()
            if isinstance(self.val, Lazy):
                self.val = self.val.get()
        return self.val


def _res(t):
    return t.get() if isinstance(t, Lazy) else t


class Ctx:
    __slots__ = ("next", "ret", "exc", "brk", "cont", "in_try")

    def __init__(self, next, ret, exc, brk=None, cont=None, in_try=False):
        self.next, self.ret, self.exc, self.brk, self.cont, self.in_try = next, ret, exc, brk, cont, in_try

    def replace(self, **kw):
        c = Ctx(self.next, self.ret, self.exc, self.brk, self.cont, self.in_try)
        for k, v in kw.items():
            setattr(c, k, v)
        return c


def contains_yield(st: ast.AST) -> bool:
    stack = [st]
    while stack:
        n = stack.pop()
        if isinstance(n, (ast.Yield, ast.YieldFrom)):
            return True
        if isinstance(n, (ast.FunctionDef, ast.AsyncFunctionDef, ast.Lambda, ast.ClassDef)) and n is not st:
            continue
        stack.extend(ast.iter_child_nodes(n))
    return False


class CFG:
    def __init__(self, func: Func, gen_throw: Optional[bool] = None, all_raise: bool = False):
        self.func = func
        self.all_raise = all_raise  # every node containing a call may raise (not only inside try)
        self.nodes: List[Node] = []
        self.entry = self._new("entry")
        self.ret = self._new("ret")
        self.exc = self._new("exc")
        if gen_throw is None:
            gen_throw = any(d.endswith("contextmanager") for d in func.decorators)
        self.gen_throw = gen_throw
        ctx = Ctx(next=self.ret, ret=self.ret, exc=self.exc)
        first = self._block(func.node.body, ctx)
        self._edge(self.entry, first, "")
        self._prune()

    # -------------------------------------------------------------- building
    def _new(self, kind, astn=None, note="") -> Node:
        n = Node(len(self.nodes), kind, astn, note)
        self.nodes.append(n)
        return n

    def _edge(self, a: Node, b, label=""):
        b = _res(b)
        if b is None:
            raise AnalysisError(f"CFG: dangling edge from {a} in {self.func.key}")
        if (b, label) not in a.succ:
            a.succ.append((b, label))
            b.pred.append((a, label))

    def _block(self, stmts, ctx: Ctx):
        nxt = ctx.next
        for st in reversed(stmts):
            nxt = self._stmt(st, ctx.replace(next=nxt))
        return nxt

    def _simple(self, st, ctx, kind="stmt") -> Node:
        n = self._new(kind, st)
        if ctx.in_try:
            self._edge(n, ctx.exc, "exc")
        elif self.all_raise and not isinstance(st, (ast.FunctionDef, ast.AsyncFunctionDef, ast.ClassDef)):
            probe = st
            if kind == "for":
                probe = st.iter
            elif kind == "with":
                probe = ast.Tuple(elts=[i.context_expr for i in st.items], ctx=ast.Load())
            if any(isinstance(x, ast.Call) for x in ast.walk(probe) if not isinstance(x, ast.Lambda)):
                self._edge(n, ctx.exc, "exc")
        return n

    def _cond(self, e: ast.expr, t, f, ctx: Ctx):
        if isinstance(e, ast.BoolOp):
            vals = e.values
            if isinstance(e.op, ast.And):
                entry = self._cond(vals[-1], t, f, ctx)
                for v in reversed(vals[:-1]):
                    entry = self._cond(v, entry, f, ctx)
                return entry
            else:
                entry = self._cond(vals[-1], t, f, ctx)
                for v in reversed(vals[:-1]):
                    entry = self._cond(v, t, entry, ctx)
                return entry
        if isinstance(e, ast.UnaryOp) and isinstance(e.op, ast.Not):
            return self._cond(e.operand, f, t, ctx)
        if isinstance(e, ast.Constant):
            return t if e.value else f
        n = self._simple(e, ctx, "cond")
        self._edge(n, t, "T")
        self._edge(n, f, "F")
        return n

    def _stmt(self, st: ast.stmt, ctx: Ctx):
        if isinstance(st, ast.If):
            body = Lazy(lambda: self._block(st.body, ctx))
            orelse = Lazy(lambda: self._block(st.orelse, ctx)) if st.orelse else ctx.next
            return self._cond(st.test, body, orelse, ctx)
        if isinstance(st, ast.While):
            head = self._new("join", st, "while")
            after = Lazy(lambda: self._block(st.orelse, ctx)) if st.orelse else ctx.next
            body = Lazy(lambda: self._block(st.body, ctx.replace(next=head, brk=ctx.next, cont=head)))
            c = self._cond(st.test, body, after, ctx)
            self._edge(head, c, "")
            return head
        if isinstance(st, (ast.For, ast.AsyncFor)):
            head = self._simple(st, ctx, "for")
            after = self._block(st.orelse, ctx) if st.orelse else ctx.next
            body = self._block(st.body, ctx.replace(next=head, brk=ctx.next, cont=head))
            self._edge(head, body, "iter")
            self._edge(head, after, "done")
            return head
        if isinstance(st, ast.Try):
            return self._try(st, ctx)
        if isinstance(st, (ast.With, ast.AsyncWith)):
            n = self._simple(st, ctx, "with")
            body = self._block(st.body, ctx)
            self._edge(n, body, "")
            return n
        if isinstance(st, ast.Return):
            n = self._simple(st, ctx)
            self._edge(n, ctx.ret, "")
            return n
        if isinstance(st, ast.Raise):
            n = self._new("stmt", st)
            self._edge(n, ctx.exc, "exc")
            return n
        if isinstance(st, ast.Assert):
            fail = self._new("assertfail", st)
            self._edge(fail, ctx.exc, "exc")
            return self._cond(st.test, ctx.next, fail, ctx)
        if isinstance(st, ast.Break):
            n = self._new("stmt", st)
            if ctx.brk is None:
                raise AnalysisError("break outside loop")
            self._edge(n, ctx.brk, "")
            return n
        if isinstance(st, ast.Continue):
            n = self._new("stmt", st)
            if ctx.cont is None:
                raise AnalysisError("continue outside loop")
            self._edge(n, ctx.cont, "")
            return n
        if isinstance(
            st,
            (
                ast.Expr,
                ast.Assign,
                ast.AugAssign,
                ast.AnnAssign,
                ast.Delete,
                ast.Global,
                ast.Nonlocal,
                ast.Pass,
                ast.Import,
                ast.ImportFrom,
                ast.FunctionDef,
                ast.AsyncFunctionDef,
                ast.ClassDef,
            ),
        ):
            n = self._simple(st, ctx)
            if not isinstance(st, (ast.FunctionDef, ast.AsyncFunctionDef, ast.ClassDef)) and contains_yield(st):
                n.is_yield = True
                if self.gen_throw:
                    self._edge(n, ctx.exc, "exc")
            self._edge(n, ctx.next, "")
            return n
        raise AnalysisError(
            f"CFG: unsupported statement {type(st).__name__} at {self.func.key}:{getattr(st, 'lineno', 0)}"
        )

    def _try(self, st: ast.Try, ctx: Ctx):
        if st.finalbody:
            memo: Dict[int, Lazy] = {}

            def fin(target, tag):
                if target is None:
                    return None
                key = id(target)
                if key not in memo:
                    memo[key] = Lazy(lambda: self._block(st.finalbody, ctx.replace(next=target)))
                return memo[key]

            after = ctx.replace(
                next=fin(ctx.next, "n"),
                ret=fin(ctx.ret, "r"),
                exc=fin(ctx.exc, "e"),
                brk=fin(ctx.brk, "b"),
                cont=fin(ctx.cont, "c"),
            )
        else:
            after = ctx
        if st.handlers:
            disp = self._new("join", st, "except-dispatch")
            catch_all = False
            for h in st.handlers:
                hn = self._new("handler", h)
                body = self._block(h.body, after)
                self._edge(hn, body, "")
                self._edge(disp, hn, "exc")
                if h.type is None or norm(h.type) in ("BaseException", "Exception"):
                    catch_all = True
            if not catch_all:
                self._edge(disp, after.exc, "exc")
            exc_target = disp
        else:
            exc_target = after.exc
        orelse = self._block(st.orelse, after) if st.orelse else after.next
        return self._block(st.body, after.replace(next=orelse, exc=exc_target, in_try=True))

    def _prune(self):
        live = reach(self, [self.entry])
        for n in self.nodes:
            n.succ = [(b, l) for (b, l) in n.succ if n in live]
            n.pred = [(a, l) for (a, l) in n.pred if a in live]
        self.live = [n for n in self.nodes if n in live]

    # --------------------------------------------------------------- queries
    def find(self, pred: Callable[[Node], bool]) -> List[Node]:
        return [n for n in self.live if pred(n)]

    def stmts(self, typ=None) -> List[Node]:
        return [n for n in self.live if n.kind == "stmt" and (typ is None or isinstance(n.ast, typ))]

    def conds(self) -> List[Node]:
        return [n for n in self.live if n.kind == "cond"]

    def nodes_containing(self, sub: ast.AST) -> List[Node]:
        """CFG nodes whose own expression/statement contains AST node `sub`."""
        out = []
        for n in self.live:
            if n.ast is None or n.kind in ("join", "handler"):
                continue
            roots = _own_exprs(n)
            for r in roots:
                if any(x is sub for x in ast.walk(r)):
                    out.append(n)
                    break
        return out

    def dump(self) -> str:
        lines = []
        for n in self.live:
            lines.append(f"{n.id:3d} [{n.kind}] L{n.line} {n.text()}  -> " + ", ".join(f"{b.id}{'/' + l if l else ''}" for b, l in n.succ))
        return "\n".join(lines)


def _own_exprs(n: Node) -> List[ast.AST]:
    """The AST parts evaluated *in* this CFG node (not the nested blocks)."""
    a = n.ast
    if n.kind == "cond":
        return [a]
    if n.kind == "for":
        return [a.iter, a.target]
    if n.kind == "with":
        return [i.context_expr for i in a.items] + [i.optional_vars for i in a.items if i.optional_vars]
    if n.kind == "assertfail":
        return [a.msg] if a.msg else []
    if n.kind == "stmt":
        if isinstance(a, (ast.FunctionDef, ast.AsyncFunctionDef, ast.ClassDef)):
            return list(a.decorator_list)
        return [a]
    return []


def own_exprs(n: Node):
    return _own_exprs(n)


def node_calls(n: Node) -> List[ast.Call]:
    out = []
    for r in _own_exprs(n):
        stack = [r]
        while stack:
            x = stack.pop()
            if isinstance(x, ast.Call):
                out.append(x)
            if isinstance(x, ast.Lambda):
                continue
            stack.extend(ast.iter_child_nodes(x))
    out.sort(key=lambda c: (c.lineno, c.col_offset))
    return out


# ------------------------------------------------------------------ dominance
Edge = Tuple[Node, str]


def reach(cfg: CFG, starts: Iterable[Node], blocked_nodes: Iterable[Node] = (), blocked_edges: Iterable[Edge] = (), skip_labels: Iterable[str] = ()) -> Set[Node]:
    bn = set(blocked_nodes)
    be = set(blocked_edges)
    sl = set(skip_labels)
    seen: Set[Node] = set()
    stack = [s for s in starts if s not in bn]
    while stack:
        n = stack.pop()
        if n in seen:
            continue
        seen.add(n)
        for b, l in n.succ:
            if b in bn or (n, l) in be or l in sl:
                continue
            if b not in seen:
                stack.append(b)
    return seen


def edge_dominates(cfg: CFG, edge: Edge, target: Node) -> bool:
    """Every path entry -> target uses `edge` (cond node, label)."""
    return target not in reach(cfg, [cfg.entry], blocked_edges=[edge])


def node_dominates(cfg: CFG, a: Node, target: Node) -> bool:
    if a is target:
        return True
    return target not in reach(cfg, [cfg.entry], blocked_nodes=[a])


def nodes_dominate(cfg: CFG, nodes: Iterable[Node], target: Node) -> bool:
    """Every path entry -> target passes at least one of `nodes`."""
    ns = set(nodes)
    if target in ns:
        return True
    return target not in reach(cfg, [cfg.entry], blocked_nodes=ns)


def edges_dominate(cfg: CFG, edges: Iterable[Edge], target: Node) -> bool:
    return target not in reach(cfg, [cfg.entry], blocked_edges=list(edges))


def dominating_edges(cfg: CFG, target: Node) -> List[Edge]:
    out = []
    for c in cfg.live:
        if c.kind in ("cond", "for"):
            for _, l in c.succ:
                if l in ("T", "F", "iter", "done") and (c, l) not in out and edge_dominates(cfg, (c, l), target):
                    out.append((c, l))
    return out


def must_reach(cfg: CFG, src: Node, via: Iterable[Node], exits: Iterable[Node], skip_labels=()) -> bool:
    """Every path from src to any of `exits` passes a node of `via`
    (src itself does not count)."""
    via = set(via)
    starts = [b for b, l in src.succ if l not in set(skip_labels)]
    r = reach(cfg, starts, blocked_nodes=via, skip_labels=skip_labels)
    return not any(e in r for e in exits)


def path_to(cfg: CFG, target: Node, blocked_edges: Iterable[Edge] = (), blocked_nodes: Iterable[Node] = ()) -> Optional[List[str]]:
    """A witness path entry -> target (as text), avoiding the blocked items."""
    be, bn = set(blocked_edges), set(blocked_nodes)
    prev: Dict[Node, Tuple[Node, str]] = {}
    seen = {cfg.entry}
    queue = [cfg.entry]
    while queue:
        n = queue.pop(0)
        if n is target:
            break
        for b, l in n.succ:
            if b in seen or b in bn or (n, l) in be:
                continue
            seen.add(b)
            prev[b] = (n, l)
            queue.append(b)
    if target not in seen:
        return None
    out = []
    n = target
    while n in prev:
        p, l = prev[n]
        if p.kind in ("cond", "for"):
            out.append(f"L{p.line} {p.text()[:60]} -> {l}")
        n = p
    return list(reversed(out))


def path_from(cfg: CFG, src: Node, targets: Iterable[Node], blocked_nodes: Iterable[Node] = (), skip_labels=()) -> Optional[List[str]]:
    bn, tg, sl = set(blocked_nodes), set(targets), set(skip_labels)
    prev: Dict[Node, Tuple[Node, str]] = {}
    seen = {src}
    queue = [src]
    hit = None
    while queue:
        n = queue.pop(0)
        if n in tg and n is not src:
            hit = n
            break
        for b, l in n.succ:
            if b in seen or b in bn or l in sl:
                continue
            seen.add(b)
            prev[b] = (n, l)
            queue.append(b)
    if hit is None:
        return None
    out = [hit.text()]
    n = hit
    while n in prev:
        p, l = prev[n]
        if p.kind in ("cond", "for") or p is src:
            out.append(f"L{p.line} {p.text()[:60]}" + (f" -> {l}" if l else ""))
        n = p
    return list(reversed(out))


_cfg_cache: Dict[Tuple[int, str, bool], CFG] = {}


def cfg_of(func: Func, all_raise: bool = False) -> CFG:
    k = (id(func.node), func.key, all_raise)
    if k not in _cfg_cache:
        _cfg_cache[k] = CFG(func, all_raise=all_raise)
    return _cfg_cache[k]
